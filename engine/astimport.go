package main

// Real parsing and type checking for harnesses that need a source package (C13): the harness
// gives concrete source text; go/parser and go/types run in the engine process; the syntax trees
// are copied into interpreter values (go/ast is interpreted from its SSA), keeping a two-way map
// between interpreter cells and the original nodes so that *types.Info (whose maps are keyed by
// the original nodes) can be consulted by the interpreted code.

import (
	"fmt"
	"go/ast"
	"go/importer"
	"go/parser"
	"go/token"
	"go/types"
	"reflect"
	"sort"
	"sync"
)

type astLink struct {
	fwd map[uintptr]*value       // host pointer -> interpreter cell
	rev map[*value]reflect.Value // interpreter cell -> host pointer
	pkg map[*value]*hostPackage  // interpreter *packages.Package cell -> its host side
}

type hostPackage struct {
	types *types.Package
	info  *types.Info
	files []*ast.File
	fset  *token.FileSet
	cell  *value
	// the source text (vfExec re-checks it in its own universe)
	path  string
	names []string
	srcs  []string
	deps  []*hostPackage
	key   string
}

func (p *path) links() *astLink {
	if p.ast == nil {
		p.ast = &astLink{fwd: map[uintptr]*value{}, rev: map[*value]reflect.Value{}, pkg: map[*value]*hostPackage{}}
	}
	return p.ast
}

// importAST copies a host value of a go/ast (or token) type into interpreter values.
func (p *path) importAST(rv reflect.Value) value {
	tc := p.tc
	switch rv.Kind() {
	case reflect.String:
		return p.mkStr(rv.String())
	case reflect.Bool:
		return tc.Bool(rv.Bool())
	case reflect.Int, reflect.Int64:
		return tc.BV(64, uint64(rv.Int()))
	case reflect.Int32:
		return tc.BV(32, uint64(rv.Int()))
	case reflect.Uint8:
		return tc.BV(8, rv.Uint())
	case reflect.Uint, reflect.Uint64:
		return tc.BV(64, rv.Uint())
	case reflect.Slice:
		if rv.IsNil() {
			return []value(nil)
		}
		out := make([]value, rv.Len())
		for i := range out {
			out[i] = p.importAST(rv.Index(i))
		}
		return out
	case reflect.Interface:
		if rv.IsNil() {
			return iface{}
		}
		el := rv.Elem()
		return iface{t: p.progType(el.Type()), v: p.importAST(el)}
	case reflect.Ptr:
		if rv.IsNil() {
			return (*value)(nil)
		}
		if rv.Type().Elem().PkgPath() != "go/ast" {
			return host{rv.Interface()} // e.g. *token.File: stays a host object
		}
		l := p.links()
		if c, ok := l.fwd[rv.Pointer()]; ok {
			return c
		}
		cell := new(value)
		l.fwd[rv.Pointer()] = cell
		l.rev[cell] = rv
		*cell = p.importAST(rv.Elem())
		return cell
	case reflect.Struct:
		st := make(structure, rv.NumField())
		for i := range st {
			st[i] = p.importAST(rv.Field(i))
		}
		return st
	case reflect.Map:
		if rv.IsNil() {
			return (*smap)(nil)
		}
		p.unsupported("map inside a syntax tree")
	}
	p.unsupported("syntax tree value of kind " + rv.Kind().String())
	return nil
}

var (
	stdImporterMu sync.Mutex
	stdImporter   types.Importer
)

// importStd type-checks a standard-library package from source (cached for the whole process).
func importStd(path string) (*types.Package, error) {
	stdImporterMu.Lock()
	defer stdImporterMu.Unlock()
	if stdImporter == nil {
		stdImporter = importer.ForCompiler(token.NewFileSet(), "source", nil)
	}
	return stdImporter.Import(path)
}

// typeCheckSources parses and type-checks one package given as source text.
func (p *path) typeCheckSources(args []value) (*hostPackage, []string, []string) {
	pkgPath := p.argName(args[0])
	names, _ := args[1].([]value)
	srcs, _ := args[2].([]value)
	imps, _ := args[3].([]value)
	l := p.links()
	byPath := map[string]*hostPackage{}
	for _, ip := range imps {
		cell, ok := ip.(*value)
		if !ok || cell == nil {
			continue
		}
		if hp := l.pkg[cell]; hp != nil {
			byPath[hp.types.Path()] = hp
		}
	}
	fset := token.NewFileSet()
	for _, hp := range byPath {
		fset = hp.fset // one file set for the whole import tree, as go/packages does
		break
	}
	var files []*ast.File
	var fileNames []string
	var errs []string
	for i := range names {
		src := srcs[i].(Str)
		if !src.IsConcrete() {
			p.unsupported("vfTypeCheck: source text must be concrete")
		}
		f, err := parser.ParseFile(fset, p.argName(names[i]), src.Concrete(), parser.ParseComments|parser.SkipObjectResolution)
		if err != nil {
			errs = append(errs, "syntax: "+err.Error())
			continue
		}
		files = append(files, f)
		fileNames = append(fileNames, p.argName(names[i]))
	}
	info := &types.Info{Types: map[ast.Expr]types.TypeAndValue{}, Defs: map[*ast.Ident]types.Object{}, Uses: map[*ast.Ident]types.Object{},
		Selections: map[*ast.SelectorExpr]*types.Selection{}, Implicits: map[ast.Node]types.Object{}, Scopes: map[ast.Node]*types.Scope{},
		Instances: map[*ast.Ident]types.Instance{}}
	conf := types.Config{
		Importer: importerFunc(func(path string) (*types.Package, error) {
			if hp, ok := byPath[path]; ok {
				return hp.types, nil
			}
			return importStd(path)
		}),
		Error: func(err error) { errs = append(errs, err.Error()) },
	}
	tpkg, _ := conf.Check(pkgPath, fset, files, info)
	hp := &hostPackage{types: tpkg, info: info, files: files, fset: fset, path: pkgPath}
	for i := range names {
		hp.names = append(hp.names, p.argName(names[i]))
		hp.srcs = append(hp.srcs, srcs[i].(Str).Concrete())
	}
	var depPaths []string
	for k := range byPath {
		depPaths = append(depPaths, k)
	}
	sort.Strings(depPaths)
	for _, k := range depPaths {
		hp.deps = append(hp.deps, byPath[k])
	}
	return hp, fileNames, errs
}

// vfTypeErrors(pkgPath, fileNames, sources, imports) []string: the syntax and type errors of the package.
func vfTypeErrors(p *path, caller *frame, args []value) value {
	_, _, errs := p.typeCheckSources(args)
	out := []value{}
	for _, e := range errs {
		out = append(out, p.mkStr(e))
	}
	return out
}

// vfTypeCheck(pkgPath, fileNames, sources, imports) *packages.Package
func vfTypeCheck(p *path, caller *frame, args []value) value {
	pkgPath := p.argName(args[0])
	imps, _ := args[3].([]value)
	l := p.links()
	byPath := map[string]*hostPackage{}
	for _, ip := range imps {
		if cell, ok := ip.(*value); ok && cell != nil {
			if hp := l.pkg[cell]; hp != nil {
				byPath[hp.types.Path()] = hp
			}
		}
	}
	hp, fileNames, errs := p.typeCheckSources(args)
	if len(errs) > 0 {
		p.unsupported("vfTypeCheck: error in harness source: " + errs[0])
	}
	tpkg, info, files, fset := hp.types, hp.info, hp.files, hp.fset
	// the interpreter-side *packages.Package
	pt := p.eng.prog.ImportedPackage("golang.org/x/tools/go/packages").Pkg.Scope().Lookup("Package").Type()
	st := p.zero(pt).(structure)
	ust := pt.Underlying().(*types.Struct)
	set := func(name string, v value) {
		for i := 0; i < ust.NumFields(); i++ {
			if ust.Field(i).Name() == name {
				st[i] = v
				return
			}
		}
		p.unsupported("packages.Package has no field " + name)
	}
	set("ID", p.mkStr(pkgPath))
	set("Name", p.mkStr(tpkg.Name()))
	set("PkgPath", p.mkStr(pkgPath))
	set("Fset", host{fset})
	set("Types", host{tpkg})
	set("TypesInfo", host{info})
	var syn []value
	var goFiles []value
	for i, f := range files {
		syn = append(syn, p.importAST(reflect.ValueOf(f)))
		goFiles = append(goFiles, p.mkStr(fileNames[i]))
	}
	set("Syntax", syn)
	set("GoFiles", goFiles)
	im := &smap{keyT: types.Typ[types.String]}
	var paths []string
	for k := range byPath {
		paths = append(paths, k)
	}
	sort.Strings(paths)
	for _, k := range paths {
		im.keys = append(im.keys, p.mkStr(k))
		im.vals = append(im.vals, byPath[k].cell)
	}
	set("Imports", im)
	cell := new(value)
	*cell = st
	hp.cell = cell
	l.pkg[cell] = hp
	return cell
}

type importerFunc func(path string) (*types.Package, error)

func (f importerFunc) Import(path string) (*types.Package, error) { return f(path) }

// hostOfCell: the original syntax node of an interpreter cell, if it was imported.
func (p *path) hostOfCell(c *value) (reflect.Value, bool) {
	if p.ast == nil || c == nil {
		return reflect.Value{}, false
	}
	rv, ok := p.ast.rev[c]
	return rv, ok
}

// hostMapLookup: m[key] on a map of the world (types.Info maps keyed by syntax nodes).
func (p *path) hostMapLookup(m reflect.Value, key value, commaOk bool) value {
	kv := p.toHost(key, m.Type().Key(), false)
	ev := m.MapIndex(kv)
	found := ev.IsValid()
	if !found {
		ev = reflect.Zero(m.Type().Elem())
	}
	res := p.fromHost(ev)
	if commaOk {
		return tuple{res, p.tc.Bool(found)}
	}
	return res
}

var _ = fmt.Sprint
