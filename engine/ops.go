package main

import (
	"fmt"
	"go/constant"
	"go/token"
	"go/types"
	"reflect"
	"unicode/utf8"

	"golang.org/x/tools/go/ssa"
)

func constantBool(c *ssa.Const) bool     { return constant.BoolVal(c.Value) }
func constantString(c *ssa.Const) string { return constant.StringVal(c.Value) }

func (fr *frame) unop(instr *ssa.UnOp, x value) value {
	p := fr.p
	switch instr.Op {
	case token.NOT:
		return p.tc.Not(x.(*Term))
	case token.SUB:
		if t, ok := x.(*Term); ok {
			return p.tc.Neg(t)
		}
	case token.XOR:
		if t, ok := x.(*Term); ok {
			return p.tc.BNot(t)
		}
	case token.MUL:
		ptr, ok := x.(*value)
		if !ok {
			p.unsupported(fmt.Sprintf("load through %T at %s", x, fr.pos(instr)))
		}
		if ptr == nil {
			p.runtimePanic("nil pointer dereference", fr.pos(instr))
		}
		p.memAccess(fr, ptr, false, instr)
		return copyVal(*ptr)
	}
	p.unsupported(fmt.Sprintf("unary %s on %T", instr.Op, x))
	return nil
}

func (p *path) strLess(a, b Str, orEqual bool) *Term {
	// lexicographic byte-wise comparison as one term
	tc := p.tc
	n := len(a.b)
	if len(b.b) < n {
		n = len(b.b)
	}
	// result when the common prefix is equal
	var tail *Term
	if orEqual {
		tail = tc.Bool(len(a.b) <= len(b.b))
	} else {
		tail = tc.Bool(len(a.b) < len(b.b))
	}
	r := tail
	for i := n - 1; i >= 0; i-- {
		lt := tc.Cmp(OpULt, a.b[i], b.b[i])
		eq := tc.Eq(a.b[i], b.b[i])
		r = tc.Or(lt, tc.And(eq, r))
	}
	return r
}

func (p *path) binop(op token.Token, t types.Type, x, y value, fr *frame, instr ssa.Instruction) value {
	tc := p.tc
	where := func() string {
		if fr != nil && instr != nil {
			return fr.pos(instr)
		}
		return ""
	}
	switch op {
	case token.EQL:
		return p.equals(x, y)
	case token.NEQ:
		return tc.Not(p.equals(x, y))
	}
	if xs, ok := x.(Str); ok {
		ys := y.(Str)
		switch op {
		case token.ADD:
			return concatStr(xs, ys)
		case token.LSS:
			return p.strLess(xs, ys, false)
		case token.LEQ:
			return p.strLess(xs, ys, true)
		case token.GTR:
			return p.strLess(ys, xs, false)
		case token.GEQ:
			return p.strLess(ys, xs, true)
		}
	}
	xt, ok1 := x.(*Term)
	yt, ok2 := y.(*Term)
	if !ok1 || !ok2 {
		p.unsupported(fmt.Sprintf("binary %s on %T, %T", op, x, y))
	}
	if xt.sort == 0 {
		switch op {
		case token.AND, token.LAND:
			return tc.And(xt, yt)
		case token.OR, token.LOR:
			return tc.Or(xt, yt)
		case token.XOR:
			return tc.Not(tc.Eq(xt, yt))
		}
		p.unsupported("binary " + op.String() + " on bool")
	}
	uns := isUnsigned(t)
	switch op {
	case token.SHL, token.SHR:
		if yt.sort != xt.sort {
			yt = tc.Resize(yt, xt.sort, false)
		}
		if op == token.SHL {
			return tc.Bin(OpShl, xt, yt)
		}
		if uns {
			return tc.Bin(OpLShr, xt, yt)
		}
		return tc.Bin(OpAShr, xt, yt)
	}
	if xt.sort != yt.sort {
		p.unsupported(fmt.Sprintf("binary %s on widths %d,%d", op, xt.sort, yt.sort))
	}
	switch op {
	case token.ADD:
		return tc.Bin(OpAdd, xt, yt)
	case token.SUB:
		return tc.Bin(OpSub, xt, yt)
	case token.MUL:
		return tc.Bin(OpMul, xt, yt)
	case token.QUO, token.REM:
		zero := tc.BV(yt.sort, 0)
		if p.branch(tc.Eq(yt, zero)) {
			p.runtimePanic("integer divide by zero", where())
		}
		switch {
		case op == token.QUO && uns:
			return tc.Bin(OpUDiv, xt, yt)
		case op == token.QUO:
			return tc.Bin(OpSDiv, xt, yt)
		case uns:
			return tc.Bin(OpURem, xt, yt)
		default:
			return tc.Bin(OpSRem, xt, yt)
		}
	case token.AND:
		return tc.Bin(OpBAnd, xt, yt)
	case token.OR:
		return tc.Bin(OpBOr, xt, yt)
	case token.XOR:
		return tc.Bin(OpBXor, xt, yt)
	case token.AND_NOT:
		return tc.Bin(OpBAnd, xt, tc.BNot(yt))
	case token.LSS:
		if uns {
			return tc.Cmp(OpULt, xt, yt)
		}
		return tc.Cmp(OpSLt, xt, yt)
	case token.LEQ:
		if uns {
			return tc.Cmp(OpULe, xt, yt)
		}
		return tc.Cmp(OpSLe, xt, yt)
	case token.GTR:
		if uns {
			return tc.Cmp(OpULt, yt, xt)
		}
		return tc.Cmp(OpSLt, yt, xt)
	case token.GEQ:
		if uns {
			return tc.Cmp(OpULe, yt, xt)
		}
		return tc.Cmp(OpSLe, yt, xt)
	}
	p.unsupported("binary " + op.String())
	return nil
}

func (p *path) conv(dst, src types.Type, x value) value {
	ud, us := dst.Underlying(), src.Underlying()
	switch x := x.(type) {
	case *Term:
		if w := bvWidth(ud); w > 0 && x.sort > 0 {
			return p.tc.Resize(x, w, !isUnsigned(us))
		}
		if isString(ud) && x.sort > 0 {
			// string(rune)
			if x.IsConst() {
				return p.mkStr(string(rune(x.Int64())))
			}
			p.note("string(rune) conversions of symbolic values are ASCII")
			p.assumeTerm(p.tc.Cmp(OpULt, x, p.tc.BV(x.sort, 0x80)))
			return Str{[]*Term{p.tc.Resize(x, 8, false)}}
		}
	case Str:
		if isString(ud) {
			return x
		}
		if sl, ok := ud.(*types.Slice); ok {
			eb, _ := sl.Elem().Underlying().(*types.Basic)
			if eb != nil && eb.Kind() == types.Uint8 {
				out := make([]value, len(x.b))
				for i, b := range x.b {
					out[i] = b
				}
				return out
			}
			if eb != nil && eb.Kind() == types.Int32 {
				if x.IsConcrete() {
					rs := []rune(x.Concrete())
					out := make([]value, len(rs))
					for i, r := range rs {
						out[i] = p.tc.BV(32, uint64(r))
					}
					return out
				}
				p.note("[]rune(string) conversions of symbolic strings are ASCII")
				out := make([]value, len(x.b))
				for i, b := range x.b {
					p.assumeTerm(p.tc.Cmp(OpULt, b, p.tc.BV(8, 0x80)))
					out[i] = p.tc.Resize(b, 32, false)
				}
				return out
			}
		}
	case []value:
		if isString(ud) {
			sl := us.(*types.Slice)
			eb, _ := sl.Elem().Underlying().(*types.Basic)
			if eb != nil && eb.Kind() == types.Uint8 {
				out := make([]*Term, len(x))
				for i, b := range x {
					out[i] = b.(*Term)
				}
				return Str{out}
			}
			if eb != nil && eb.Kind() == types.Int32 {
				var out []*Term
				for _, r := range x {
					rt := r.(*Term)
					if rt.IsConst() {
						out = append(out, p.mkStr(string(rune(rt.Int64()))).b...)
					} else {
						p.note("string([]rune) conversions of symbolic values are ASCII")
						p.assumeTerm(p.tc.Cmp(OpULt, rt, p.tc.BV(32, 0x80)))
						out = append(out, p.tc.Resize(rt, 8, false))
					}
				}
				return Str{out}
			}
		}
	case *value:
		return x // pointer conversions
	case unsupportedV:
		return x
	}
	p.unsupported(fmt.Sprintf("conversion %s -> %s (%T)", src, dst, x))
	return nil
}

func (fr *frame) slice(instr *ssa.Slice) value {
	p := fr.p
	x := fr.get(instr.X)
	var n, capN int
	switch x := x.(type) {
	case Str:
		n, capN = len(x.b), len(x.b)
	case []value:
		n, capN = len(x), cap(x)
	case *value:
		if x == nil {
			p.runtimePanic("nil pointer dereference", fr.pos(instr))
		}
		a := (*x).(array)
		n, capN = len(a), len(a)
	default:
		p.unsupported(fmt.Sprintf("slice of %T", x))
	}
	geti := func(v ssa.Value, def int) int {
		if v == nil {
			return def
		}
		t := fr.get(v).(*Term)
		if t.IsConst() {
			return int(t.Int64())
		}
		return int(p.concreteInt(t, -1, int64(capN)+1, "slice bound"))
	}
	lo := geti(instr.Low, 0)
	hi := geti(instr.High, n)
	max := geti(instr.Max, capN)
	limit := capN
	if _, isStr := x.(Str); isStr {
		limit = n
	}
	if hi < 0 || hi > limit || (instr.Max != nil && (max < hi || max > capN)) {
		p.runtimePanic(fmt.Sprintf("slice bounds out of range [:%d] with capacity %d", hi, limit), fr.pos(instr))
	}
	if lo < 0 || lo > hi {
		p.runtimePanic(fmt.Sprintf("slice bounds out of range [%d:%d]", lo, hi), fr.pos(instr))
	}
	switch x := x.(type) {
	case Str:
		return Str{x.b[lo:hi]}
	case []value:
		if x == nil {
			return []value(nil)
		}
		return x[lo:hi:max]
	case *value:
		a := (*x).(array)
		return []value(a)[lo:hi:max]
	}
	return nil
}

// ---------------------------------------------------------------------------
// maps

func (p *path) mapFind(m *smap, key value) int {
	if m == nil {
		return -1
	}
	for i, k := range m.keys {
		if p.branch(p.equals(k, key)) {
			return i
		}
	}
	return -1
}

func (p *path) mapInsert(m *smap, key, val value) {
	if i := p.mapFind(m, key); i >= 0 {
		m.vals[i] = copyVal(val)
		return
	}
	m.keys = append(m.keys, copyVal(key))
	m.vals = append(m.vals, copyVal(val))
}

func (p *path) mapDelete(m *smap, key value) {
	if i := p.mapFind(m, key); i >= 0 {
		m.keys = append(m.keys[:i:i], m.keys[i+1:]...)
		m.vals = append(m.vals[:i:i], m.vals[i+1:]...)
	}
}

func (fr *frame) lookup(instr *ssa.Lookup) value {
	p := fr.p
	x := fr.get(instr.X)
	switch x := x.(type) {
	case Str:
		i := fr.index(fr.get(instr.Index), len(x.b), instr)
		return x.b[i]
	case *smap:
		var v value
		found := false
		if i := p.mapFind(x, fr.get(instr.Index)); i >= 0 {
			v = copyVal(x.vals[i])
			found = true
		} else {
			v = p.zero(instr.X.Type().Underlying().(*types.Map).Elem())
		}
		if instr.CommaOk {
			return tuple{v, p.tc.Bool(found)}
		}
		return v
	}
	if h, ok := x.(host); ok && h.v != nil {
		if m := reflect.ValueOf(h.v); m.Kind() == reflect.Map {
			return p.hostMapLookup(m, fr.get(instr.Index), instr.CommaOk)
		}
	}
	p.unsupported(fmt.Sprintf("lookup on %T", x))
	return nil
}

func (p *path) rangeIter(fr *frame, x value, t types.Type) value {
	switch x := x.(type) {
	case *smap:
		it := &mapIter{m: x}
		if x != nil {
			it.order = append(it.order, x.keys...)
		}
		it.permute = p.cfg.PermuteMaps
		if it.permute && p.cfg.Params["VF.permuteOwnPkg"] > 0 && fr != nil {
			// only the map ranges written in the package of the harness are varied (the others are
			// the subject of other harnesses)
			root := fr
			for root.caller != nil {
				root = root.caller
			}
			if fr.fn.Pkg == nil || root.fn.Pkg == nil || fr.fn.Package() != root.fn.Package() {
				it.permute = false
			}
		}
		if it.permute && p.cfg.PermuteSingle && len(it.order) > 1 {
			// single-site variation: at most one map range per path leaves the reference order
			if p.permUsed {
				it.permute = false
			} else if p.choose(2) == 1 {
				p.envChoices++
				p.envDeviations++
				p.permUsed = true
			} else {
				it.permute = false
			}
		}
		return it
	case Str:
		return &strIter{s: x}
	}
	p.unsupported(fmt.Sprintf("range over %T", x))
	return nil
}

func (p *path) iterNext(itv value, instr *ssa.Next) value {
	tc := p.tc
	switch it := itv.(type) {
	case *mapIter:
		for len(it.order) > 0 {
			k := 0
			if it.permute && p.cfg.PermuteMaps && len(it.order) > 1 {
				k = p.choose(len(it.order))
				p.envChoices++
				if k != 0 {
					p.envDeviations++
				}
			}
			key := it.order[k]
			it.order = append(it.order[:k:k], it.order[k+1:]...)
			// entry may have been deleted during iteration
			idx := -1
			for i, kk := range it.m.keys {
				if e := p.equals(kk, key); e.IsTrue() {
					idx = i
					break
				} else if !e.IsFalse() {
					if p.branch(e) {
						idx = i
						break
					}
				}
			}
			if idx < 0 {
				continue
			}
			return tuple{tc.tt, copyVal(key), copyVal(it.m.vals[idx])}
		}
		return tuple{tc.ff, nil, nil}
	case *strIter:
		if it.i >= len(it.s.b) {
			return tuple{tc.ff, tc.BV(64, 0), tc.BV(32, 0)}
		}
		i := it.i
		b := it.s.b[i]
		if b.IsConst() && b.val >= 0x80 {
			// decode a concrete multi-byte sequence
			j := i
			var buf []byte
			for j < len(it.s.b) && j < i+4 && it.s.b[j].IsConst() {
				buf = append(buf, byte(it.s.b[j].val))
				j++
			}
			r, n := utf8.DecodeRune(buf)
			it.i += n
			return tuple{tc.tt, tc.BV(64, uint64(i)), tc.BV(32, uint64(r))}
		}
		if !b.IsConst() {
			if !p.branch(tc.Cmp(OpULt, b, tc.BV(8, 0x80))) {
				p.unsupported("range over a string with a symbolic non-ASCII byte")
			}
		}
		it.i++
		return tuple{tc.tt, tc.BV(64, uint64(i)), tc.Resize(b, 32, false)}
	}
	p.unsupported(fmt.Sprintf("next on %T", itv))
	return nil
}

// ---------------------------------------------------------------------------
// builtins

func (p *path) callBuiltin(caller *frame, fn *ssa.Builtin, args []value, site *ssa.CallCommon) value {
	tc := p.tc
	switch fn.Name() {
	case "append":
		if len(args) == 1 {
			return args[0]
		}
		var add []value
		switch t := args[1].(type) {
		case Str:
			for _, b := range t.b {
				add = append(add, b)
			}
		case []value:
			add = t
		default:
			p.unsupported(fmt.Sprintf("append of %T", t))
		}
		s, _ := args[0].([]value)
		if p.spec > 0 {
			panic(specAbort{})
		}
		if len(add) == 0 {
			return s
		}
		// Go semantics: reuse the backing array when capacity suffices
		if len(s)+len(add) <= cap(s) {
			out := s[:len(s)+len(add)]
			for i, v := range add {
				out[len(s)+i] = copyVal(v)
			}
			return out
		}
		newCap := len(s) + len(add)
		if c2 := 2 * cap(s); c2 > newCap {
			newCap = c2
		}
		out := make([]value, len(s), newCap)
		for i, v := range s {
			out[i] = v
		}
		for _, v := range add {
			out = append(out, copyVal(v))
		}
		return out
	case "copy":
		dst := args[0].([]value)
		n := 0
		switch src := args[1].(type) {
		case []value:
			tmp := make([]value, 0, len(src))
			for _, x := range src {
				tmp = append(tmp, copyVal(x)) // memmove semantics: source and destination may overlap
			}
			for n < len(dst) && n < len(tmp) {
				dst[n] = tmp[n]
				n++
			}
		case Str:
			for n < len(dst) && n < len(src.b) {
				dst[n] = src.b[n]
				n++
			}
		}
		return tc.BV(64, uint64(n))
	case "len":
		switch x := args[0].(type) {
		case Str:
			return tc.BV(64, uint64(len(x.b)))
		case []value:
			return tc.BV(64, uint64(len(x)))
		case array:
			return tc.BV(64, uint64(len(x)))
		case *value:
			if x == nil {
				return tc.BV(64, 0)
			}
			return tc.BV(64, uint64(len((*x).(array))))
		case *smap:
			if x == nil {
				return tc.BV(64, 0)
			}
			return tc.BV(64, uint64(len(x.keys)))
		}
	case "cap":
		switch x := args[0].(type) {
		case []value:
			return tc.BV(64, uint64(cap(x)))
		case array:
			return tc.BV(64, uint64(len(x)))
		}
	case "delete":
		m := args[0].(*smap)
		if m != nil {
			p.mapDelete(m, args[1])
		}
		return nil
	case "print", "println":
		return nil
	case "min", "max":
		r := args[0].(*Term)
		uns := false
		if site != nil {
			uns = isUnsigned(site.Args[0].Type())
		}
		for _, a := range args[1:] {
			at := a.(*Term)
			var lt *Term
			if uns {
				lt = tc.Cmp(OpULt, at, r)
			} else {
				lt = tc.Cmp(OpSLt, at, r)
			}
			if fn.Name() == "max" {
				lt = tc.Not(tc.Or(lt, tc.Eq(at, r)))
			}
			r = tc.Ite(lt, at, r)
		}
		return r
	case "recover":
		return iface{}
	}
	p.unsupported("builtin " + fn.Name())
	return nil
}
