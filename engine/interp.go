package main

// Symbolic interpreter over go/ssa (structure after golang.org/x/tools/go/ssa/interp).

import (
	"fmt"
	"go/token"
	"go/types"
	"reflect"
	"strings"

	"golang.org/x/tools/go/ssa"
)

type targetPanic struct {
	v       value  // the panic value (interface value or raw)
	runtime bool   // true: Go runtime error (index, nil deref, type assertion, ...)
	kind    string // runtime error kind
	where   string
}

type specAbort struct{}

var hostStructTypes = map[string]reflect.Type{
	"go/types.Struct": reflect.TypeOf(types.Struct{}),
}

type deferred struct {
	fn    value
	args  []value
	instr *ssa.Defer
	tail  *deferred
}

type frame struct {
	p         *path
	caller    *frame
	fn        *ssa.Function
	block     *ssa.BasicBlock
	prevBlock *ssa.BasicBlock
	env       map[ssa.Value]value
	locals    []value
	defers    *deferred
	result    value
	panicking bool
	panicV    interface{}
	thread    *thread
}

func (fr *frame) get(key ssa.Value) value {
	switch key := key.(type) {
	case nil:
		return nil
	case *ssa.Function:
		return key
	case *ssa.Builtin:
		return key
	case *ssa.Const:
		return fr.p.constValue(key)
	case *ssa.Global:
		return fr.p.global(key)
	}
	if r, ok := fr.env[key]; ok {
		return r
	}
	panic(fmt.Sprintf("get: no value for %T: %v", key, key.Name()))
}

func (p *path) global(g *ssa.Global) *value {
	if c, ok := p.globals[g]; ok {
		return c
	}
	c := new(value)
	*c = p.zero(g.Type().(*types.Pointer).Elem())
	p.globals[g] = c
	if g.Pkg != nil && !p.eng.isInterpretedPkg(g.Pkg.Pkg.Path()) {
		if v, ok := p.hostGlobal(g); ok {
			*c = v
		} else {
			p.unsupported("read of dependency global " + g.String())
		}
	}
	return c
}

func (p *path) constValue(c *ssa.Const) value {
	t := c.Type()
	if c.Value == nil {
		return p.zero(t)
	}
	if b, ok := t.Underlying().(*types.Basic); ok {
		switch {
		case b.Info()&types.IsBoolean != 0:
			return p.tc.Bool(constantBool(c))
		case b.Info()&types.IsInteger != 0:
			w := bvWidth(t)
			if b.Info()&types.IsUnsigned != 0 {
				return p.tc.BV(w, c.Uint64())
			}
			return p.tc.BV(w, uint64(c.Int64()))
		case b.Info()&types.IsString != 0:
			return p.mkStr(constantString(c))
		}
		return unsupportedV{"constant of type " + b.String()}
	}
	if _, ok := t.Underlying().(*types.Interface); ok {
		// typed constant converted to interface never appears as Const (MakeInterface is used)
		return iface{}
	}
	return unsupportedV{"constant of type " + t.String()}
}

func (p *path) runInits() {
	for _, f := range p.eng.initFns {
		p.callFunction(nil, f, nil, nil)
	}
}

func (e *Engine) isInterpretedPkg(path string) bool {
	if path == e.modPath || strings.HasPrefix(path, e.modPath+"/") || isExecPath(path) {
		return true
	}
	switch path {
	case "slices", "go/ast", "golang.org/x/tools/go/packages", "cmp", "maps":
		return true
	}
	return false
}

func (p *path) runtimePanic(kind, where string) {
	if p.spec > 0 {
		panic(specAbort{})
	}
	panic(targetPanic{runtime: true, kind: kind, where: where, v: p.mkStr("runtime error: " + kind)})
}

func (p *path) describePanic(tp targetPanic) string {
	if tp.runtime {
		return "runtime error: " + tp.kind + " at " + tp.where
	}
	return "panic(" + p.showValue(tp.v) + ")"
}

func (p *path) showValue(v value) string {
	switch v := v.(type) {
	case iface:
		if v.t == nil {
			return "nil"
		}
		return v.t.String() + ":" + p.showValue(v.v)
	case Str:
		return fmt.Sprintf("%q", v.Show())
	case *Term:
		if v.IsConst() {
			if v.sort == 0 {
				return fmt.Sprint(v.val == 1)
			}
			return fmt.Sprint(v.Int64())
		}
		return "<sym>"
	case *errorV:
		if v == nil {
			return "<nil error>"
		}
		return "error(" + v.msg.Show() + ")"
	case host:
		return fmt.Sprintf("host(%T)", v.v)
	}
	return fmt.Sprintf("%T", v)
}

func (fr *frame) pos(i ssa.Instruction) string {
	pos := i.Pos()
	if pos == token.NoPos {
		return fr.fn.String()
	}
	ps := fr.fn.Prog.Fset.Position(pos)
	return fmt.Sprintf("%s:%d (%s)", trimPath(ps.Filename), ps.Line, fr.fn.Name())
}

func trimPath(f string) string {
	return strings.TrimPrefix(f, "/repo/")
}

// callFunction calls an SSA function, a closure or a builtin.
func (p *path) call(caller *frame, fn value, args []value, site *ssa.CallCommon) value {
	switch fn := fn.(type) {
	case *ssa.Function:
		if fn == nil {
			p.runtimePanic("nil func call", "")
		}
		return p.callFunction(caller, fn, args, nil)
	case *closure:
		return p.callFunction(caller, fn.Fn, args, fn.Env)
	case *ssa.Builtin:
		return p.callBuiltin(caller, fn, args, site)
	case hostFunc:
		return fn.call(p, args)
	case *onceFn:
		return p.callOnce(caller, fn)
	}
	p.unsupported(fmt.Sprintf("call of %T", fn))
	return nil
}

func (p *path) callFunction(caller *frame, fn *ssa.Function, args []value, env []value) value {
	name := fn.String()
	if fn.Parent() == nil {
		base := fn
		if o := fn.Origin(); o != nil {
			base = o
		}
		if strings.HasPrefix(base.Name(), "vf") && base.Pkg != nil && p.eng.isGomacro(base.Pkg.Pkg.Path()) && base.Signature.Recv() == nil {
			if in, ok := intrinsics[base.Name()]; ok {
				return in(p, caller, args)
			}
		}
		if st, ok := stubs[name]; ok {
			p.stubs[name] = true
			return st(p, caller, args)
		}
		if o := fn.Origin(); o != nil {
			if st, ok := stubs[o.String()]; ok {
				p.stubs[o.String()] = true
				return st(p, caller, args)
			}
		}
	}
	if fn.Synthetic == "package initializer" && (fn.Pkg == nil || !p.eng.isGomacro(fn.Pkg.Pkg.Path())) {
		return nil // initialisers of dependency packages are not executed (environment model)
	}
	if !p.eng.interpretable(fn) {
		if v, ok := p.hostCall(fn, args); ok {
			return v
		}
		p.unsupported("call of " + name)
	}
	if fn.Blocks == nil {
		if zeroResultExternals[name] {
			return p.zero(fn.Signature.Results())
		}
		p.unsupported("call of external function " + name)
	}
	p.funcs[name] = true
	p.depth++
	if p.depthLimit > 0 && p.depth > p.depthLimit {
		p.depth--
		panic(nonTermination{})
	}
	if p.depth > 400 {
		p.abort(abortBudget, "recursion bound (400 frames) exceeded in "+name)
	}
	defer func() { p.depth-- }()

	fr := &frame{p: p, caller: caller, fn: fn, env: make(map[ssa.Value]value, 16)}
	if caller != nil {
		fr.thread = caller.thread
	} else {
		fr.thread = p.currentThread()
	}
	for i, l := range fn.Locals {
		c := new(value)
		fr.env[l] = c
		_ = i
	}
	for i, pa := range fn.Params {
		fr.env[pa] = args[i]
	}
	for i, fv := range fn.FreeVars {
		fr.env[fv] = env[i]
	}
	fr.block = fn.Blocks[0]
	for fr.block != nil {
		fr.runBlocks()
	}
	return fr.result
}

func (e *Engine) isGomacro(path string) bool {
	return path == e.modPath || strings.HasPrefix(path, e.modPath+"/") || isExecPath(path)
}

// isExecPath: packages of source text handed to vfExec live under example.com/mod.
func isExecPath(path string) bool {
	return path == "example.com/mod" || strings.HasPrefix(path, "example.com/mod/")
}

func (e *Engine) interpretable(fn *ssa.Function) bool {
	root := fn
	for root.Parent() != nil {
		root = root.Parent()
	}
	if o := root.Origin(); o != nil {
		root = o
	}
	if root.Pkg == nil {
		// synthetic wrapper / bound method / thunk: interpret (their bodies only forward)
		if root.Synthetic != "" {
			return true
		}
		return false
	}
	if hostPkgs[root.Pkg.Pkg.Path()] {
		// methods on scalar types of the world packages (token.Pos.IsValid, ...) are ordinary code
		if recv := root.Signature.Recv(); recv != nil && !isHostRecv(recv.Type()) {
			return true
		}
	}
	return e.isInterpretedPkg(root.Pkg.Pkg.Path())
}

// runBlocks runs the frame until it returns, handling panics and defers.
func (fr *frame) runBlocks() {
	defer func() {
		if fr.block == nil {
			return // normal return
		}
		r := recover()
		if r == nil {
			return
		}
		if _, ok := r.(targetPanic); !ok {
			panic(r) // engine-level abort: propagate untouched
		}
		fr.panicking = true
		fr.panicV = r
		fr.block = nil
		fr.runDefers()
		// recovered
		if fr.fn.Recover != nil {
			fr.block = fr.fn.Recover
		}
	}()
	p := fr.p
	for {
		// phis first (parallel assignment)
		blk := fr.block
		if fr.prevBlock != nil {
			idx := -1
			for i, pred := range blk.Preds {
				if pred == fr.prevBlock {
					idx = i
					break
				}
			}
			var vals []value
			var phis []*ssa.Phi
			for _, instr := range blk.Instrs {
				phi, ok := instr.(*ssa.Phi)
				if !ok {
					break
				}
				phis = append(phis, phi)
				vals = append(vals, fr.get(phi.Edges[idx]))
			}
			for i, phi := range phis {
				fr.env[phi] = vals[i]
			}
		}
	instrs:
		for _, instr := range blk.Instrs {
			if _, ok := instr.(*ssa.Phi); ok {
				continue
			}
			p.steps++
			if p.stepLimit > 0 && p.steps > p.stepLimit {
				panic(nonTermination{})
			}
			if p.steps > p.cfg.MaxSteps {
				p.abort(abortBudget, fmt.Sprintf("step budget (%d SSA instructions) exhausted: unwinding assertion failed", p.cfg.MaxSteps))
			}
			p.curFr, p.curIn = fr, instr
			switch fr.visit(instr) {
			case kReturn:
				return
			case kJump:
				break instrs
			}
		}
	}
}

func (fr *frame) runDefers() {
	for d := fr.defers; d != nil; d = d.tail {
		fr.runDefer(d)
	}
	fr.defers = nil
	if fr.panicking {
		panic(fr.panicV)
	}
}

func (fr *frame) runDefer(d *deferred) {
	ok := false
	defer func() {
		if !ok {
			r := recover()
			if _, isT := r.(targetPanic); !isT {
				panic(r)
			}
			fr.panicking = true
			fr.panicV = r
		}
	}()
	fr.p.call(fr, d.fn, d.args, &d.instr.Call)
	ok = true
}

type continuation int

const (
	kNext continuation = iota
	kReturn
	kJump
)

func (fr *frame) visit(instr ssa.Instruction) continuation {
	p := fr.p
	switch instr := instr.(type) {
	case *ssa.DebugRef:
	case *ssa.UnOp:
		fr.env[instr] = fr.unop(instr, fr.get(instr.X))
	case *ssa.BinOp:
		fr.env[instr] = p.binop(instr.Op, instr.X.Type(), fr.get(instr.X), fr.get(instr.Y), fr, instr)
	case *ssa.Call:
		fn, args := fr.prepareCall(&instr.Call)
		fr.env[instr] = p.call(fr, fn, args, &instr.Call)
	case *ssa.ChangeInterface:
		fr.env[instr] = fr.get(instr.X)
	case *ssa.ChangeType:
		fr.env[instr] = fr.get(instr.X)
	case *ssa.Convert:
		fr.env[instr] = p.conv(instr.Type(), instr.X.Type(), fr.get(instr.X))
	case *ssa.MakeInterface:
		fr.env[instr] = iface{t: instr.X.Type(), v: fr.get(instr.X)}
	case *ssa.Extract:
		fr.env[instr] = fr.get(instr.Tuple).(tuple)[instr.Index]
	case *ssa.Slice:
		fr.env[instr] = fr.slice(instr)
	case *ssa.Return:
		switch len(instr.Results) {
		case 0:
		case 1:
			fr.result = fr.get(instr.Results[0])
		default:
			var res []value
			for _, r := range instr.Results {
				res = append(res, fr.get(r))
			}
			fr.result = tuple(res)
		}
		fr.block = nil
		return kReturn
	case *ssa.RunDefers:
		fr.runDefers()
	case *ssa.Panic:
		if p.spec > 0 {
			panic(specAbort{})
		}
		panic(targetPanic{v: fr.get(instr.X), where: fr.pos(instr)})
	case *ssa.Store:
		if p.spec > 0 {
			panic(specAbort{})
		}
		addr := fr.get(instr.Addr)
		ptr, ok := addr.(*value)
		if !ok {
			p.unsupported(fmt.Sprintf("store through %T", addr))
		}
		if ptr == nil {
			p.runtimePanic("nil pointer dereference", fr.pos(instr))
		}
		p.memAccess(fr, ptr, true, instr)
		store(ptr, fr.get(instr.Val))
	case *ssa.If:
		return fr.doIf(instr)
	case *ssa.Jump:
		fr.prevBlock, fr.block = fr.block, fr.block.Succs[0]
		return kJump
	case *ssa.Defer:
		fn, args := fr.prepareCall(&instr.Call)
		fr.defers = &deferred{fn: fn, args: args, instr: instr, tail: fr.defers}
	case *ssa.Go:
		if p.spec > 0 {
			panic(specAbort{})
		}
		fn, args := fr.prepareCall(&instr.Call)
		p.spawn(fr, fn, args, instr)
	case *ssa.Alloc:
		if p.spec > 0 {
			panic(specAbort{})
		}
		var addr *value
		if et := instr.Type().Underlying().(*types.Pointer).Elem(); isHostNamed(et) {
			if rt, ok := hostStructTypes[et.String()]; ok {
				fr.env[instr] = host{reflect.New(rt).Interface()}
				break
			}
		}
		if instr.Heap {
			addr = new(value)
			fr.env[instr] = addr
		} else {
			addr = fr.env[instr].(*value)
		}
		*addr = p.zero(instr.Type().Underlying().(*types.Pointer).Elem())
		p.noteAlloc(fr, addr)
	case *ssa.MakeSlice:
		n := p.concreteInt(fr.get(instr.Cap).(*Term), 0, 64, "make cap")
		l := p.concreteInt(fr.get(instr.Len).(*Term), 0, 64, "make len")
		if l < 0 || n < l {
			p.runtimePanic("makeslice: len out of range", fr.pos(instr))
		}
		s := make([]value, n)
		tElt := instr.Type().Underlying().(*types.Slice).Elem()
		for i := range s {
			s[i] = p.zero(tElt)
		}
		fr.env[instr] = s[:l]
	case *ssa.MakeMap:
		fr.env[instr] = &smap{keyT: instr.Type().Underlying().(*types.Map).Key()}
	case *ssa.Range:
		fr.env[instr] = p.rangeIter(fr, fr.get(instr.X), instr.X.Type())
	case *ssa.Next:
		fr.env[instr] = p.iterNext(fr.get(instr.Iter), instr)
	case *ssa.FieldAddr:
		x := fr.get(instr.X)
		if h, isHost := x.(host); isHost {
			// field of a world struct reached through a pointer: only exported plain fields
			if rv := reflect.ValueOf(h.v); rv.Kind() == reflect.Ptr && !rv.IsNil() && rv.Elem().Kind() == reflect.Struct {
				stt := instr.X.Type().Underlying().(*types.Pointer).Elem().Underlying().(*types.Struct)
				if !stt.Field(instr.Field).Embedded() && stt.Field(instr.Field).Exported() {
					c := new(value)
					*c = p.fromHost(rv.Elem().Field(instr.Field))
					fr.env[instr] = c // a read-only copy of the field (world objects are immutable here)
					break
				}
			}
		}
		if h, isHost := x.(host); isHost {
			// promoted method call through an embedded struct of a world object (c.object.Exported()):
			// keep the outer object as receiver, reflection resolves the promotion.
			st := instr.X.Type().Underlying().(*types.Pointer).Elem().Underlying().(*types.Struct)
			if st.Field(instr.Field).Embedded() {
				if nilv, _ := isNilValue(h); nilv {
					p.runtimePanic("nil pointer dereference", fr.pos(instr))
				}
				fr.env[instr] = h
				break
			}
		}
		ptr, ok := x.(*value)
		if !ok {
			p.unsupported(fmt.Sprintf("FieldAddr on %T at %s", x, fr.pos(instr)))
		}
		if ptr == nil {
			p.runtimePanic("nil pointer dereference", fr.pos(instr))
		}
		if h, isHost := (*ptr).(host); isHost && h.v != nil {
			if rv := reflect.ValueOf(h.v); rv.Kind() == reflect.Struct {
				c := new(value)
				*c = p.fromHost(rv.Field(instr.Field)) // read-only view of a world struct value held in a variable
				fr.env[instr] = c
				break
			}
		}
		st, ok := (*ptr).(structure)
		if !ok {
			p.unsupported(fmt.Sprintf("FieldAddr: cell holds %T at %s", *ptr, fr.pos(instr)))
		}
		fr.env[instr] = &st[instr.Field]
	case *ssa.Field:
		x := fr.get(instr.X)
		if h, isHost := x.(host); isHost && h.v != nil {
			if rv := reflect.ValueOf(h.v); rv.Kind() == reflect.Struct {
				fr.env[instr] = p.fromHost(rv.Field(instr.Field)) // field of a world struct value (types.TypeAndValue ...)
				break
			}
		}
		st, ok := x.(structure)
		if !ok {
			p.unsupported(fmt.Sprintf("Field on %T", x))
		}
		fr.env[instr] = st[instr.Field]
	case *ssa.IndexAddr:
		x := fr.get(instr.X)
		switch x := x.(type) {
		case []value:
			if c, ok := fr.symbolicElem(instr, x); ok {
				fr.env[instr] = c
				break
			}
			i := fr.index(fr.get(instr.Index), len(x), instr)
			fr.env[instr] = &x[i]
		case *value:
			if x == nil {
				p.runtimePanic("nil pointer dereference", fr.pos(instr))
			}
			a := (*x).(array)
			if c, ok := fr.symbolicElem(instr, a); ok {
				fr.env[instr] = c
				break
			}
			i := fr.index(fr.get(instr.Index), len(a), instr)
			fr.env[instr] = &a[i]
		default:
			p.unsupported(fmt.Sprintf("IndexAddr on %T", x))
		}
	case *ssa.Index:
		x := fr.get(instr.X)
		switch x := x.(type) {
		case array:
			i := fr.index(fr.get(instr.Index), len(x), instr)
			fr.env[instr] = x[i]
		case Str:
			it := fr.get(instr.Index).(*Term)
			if !it.IsConst() && len(x.b) > 0 && len(x.b) <= 16 {
				// symbolic index into a short string: bounds check by fork, then an ite chain
				w := it.sort
				inb := p.tc.Cmp(OpULt, it, p.tc.BV(w, uint64(len(x.b))))
				if !p.branch(inb) {
					p.runtimePanic("index out of range", fr.pos(instr))
				}
				r := x.b[len(x.b)-1]
				for k := len(x.b) - 2; k >= 0; k-- {
					r = p.tc.Ite(p.tc.Eq(it, p.tc.BV(w, uint64(k))), x.b[k], r)
				}
				fr.env[instr] = r
			} else {
				i := fr.index(it, len(x.b), instr)
				fr.env[instr] = x.b[i]
			}
		default:
			p.unsupported(fmt.Sprintf("Index on %T", x))
		}
	case *ssa.Lookup:
		fr.env[instr] = fr.lookup(instr)
	case *ssa.MapUpdate:
		if p.spec > 0 {
			panic(specAbort{})
		}
		m, ok := fr.get(instr.Map).(*smap)
		if !ok {
			p.unsupported("MapUpdate on non-map")
		}
		if m == nil {
			p.runtimePanic("assignment to entry in nil map", fr.pos(instr))
		}
		p.mapInsert(m, fr.get(instr.Key), fr.get(instr.Value))
	case *ssa.TypeAssert:
		fr.env[instr] = fr.typeAssert(instr)
	case *ssa.MakeClosure:
		var bindings []value
		for _, b := range instr.Bindings {
			bindings = append(bindings, fr.get(b))
		}
		fr.env[instr] = &closure{instr.Fn.(*ssa.Function), bindings}
	default:
		p.unsupported(fmt.Sprintf("instruction %T", instr))
	}
	return kNext
}

// index checks an index against a concrete length and returns it as a Go int.
// symbolicElem: &x[i] with a symbolic i whose only uses are loads is the cell of the ite chain over
// the elements (bounds check by fork) when the elements can be merged; no fork on the index then.
func (fr *frame) symbolicElem(instr *ssa.IndexAddr, elems []value) (*value, bool) {
	p := fr.p
	it, ok := fr.get(instr.Index).(*Term)
	if !ok || it.IsConst() || len(elems) < 2 || len(elems) > 16 || p.spec > 0 {
		return nil, false
	}
	refs := instr.Referrers()
	if refs == nil || len(*refs) == 0 {
		return nil, false
	}
	for _, r := range *refs {
		if u, ok := r.(*ssa.UnOp); !ok || u.Op != token.MUL {
			return nil, false
		}
	}
	w := it.sort
	r := copyVal(elems[len(elems)-1])
	for k := len(elems) - 2; k >= 0; k-- {
		m, ok := p.mergeValues(p.tc.Eq(it, p.tc.BV(w, uint64(k))), elems[k], r)
		if !ok {
			return nil, false
		}
		r = m
	}
	inb := p.tc.Cmp(OpULt, it, p.tc.BV(w, uint64(len(elems))))
	if !p.branch(inb) {
		p.runtimePanic("index out of range (symbolic index)", fr.pos(instr))
	}
	c := new(value)
	*c = r
	return c, true
}

func (fr *frame) index(iv value, n int, instr ssa.Instruction) int {
	p := fr.p
	it := iv.(*Term)
	if it.IsConst() {
		i := it.Int64()
		if i < 0 || i >= int64(n) {
			p.runtimePanic(fmt.Sprintf("index out of range [%d] with length %d", i, n), fr.pos(instr))
		}
		return int(i)
	}
	w := it.sort
	inb := p.tc.Cmp(OpULt, it, p.tc.BV(w, uint64(n)))
	if !p.branch(inb) {
		p.runtimePanic("index out of range (symbolic index)", fr.pos(instr))
	}
	if n > 64 {
		p.unsupported("symbolic index into a long sequence")
	}
	return int(p.concreteInt(it, 0, int64(n-1), "index"))
}

func (fr *frame) doIf(instr *ssa.If) continuation {
	p := fr.p
	c := fr.get(instr.Cond).(*Term)
	if !c.IsConst() && p.spec == 0 {
		if fr.tryMerge(instr, c) {
			return kJump
		}
	}
	succ := 1
	if p.branch(c) {
		succ = 0
	}
	fr.prevBlock, fr.block = fr.block, fr.block.Succs[succ]
	return kJump
}

// tryMerge handles pure diamonds/triangles: both arms are evaluated speculatively and the
// join's phis become ite terms. Returns false (with no effect) when the shape does not apply.
func (fr *frame) tryMerge(instr *ssa.If, c *Term) bool {
	p := fr.p
	b := fr.block
	t, f := b.Succs[0], b.Succs[1]
	var join *ssa.BasicBlock
	armT, armF := t, f // nil arm = direct edge
	isArm := func(x *ssa.BasicBlock) (*ssa.BasicBlock, bool) {
		if len(x.Preds) != 1 || len(x.Succs) != 1 || len(x.Instrs) > 24 {
			return nil, false
		}
		if _, ok := x.Instrs[len(x.Instrs)-1].(*ssa.Jump); !ok {
			return nil, false
		}
		return x.Succs[0], true
	}
	jt, okT := isArm(t)
	jf, okF := isArm(f)
	switch {
	case okT && okF && jt == jf:
		join = jt
	case okT && jt == f:
		join, armF = f, nil
	case okF && jf == t:
		join, armT = t, nil
	default:
		return false
	}
	if join == t && join == f {
		return false
	}
	// speculate
	saved := map[ssa.Value]value{}
	ok := true
	runArm := func(arm *ssa.BasicBlock) {
		if arm == nil || !ok {
			return
		}
		defer func() {
			if r := recover(); r != nil {
				if _, isSpec := r.(specAbort); isSpec {
					ok = false
					return
				}
				panic(r)
			}
		}()
		p.spec++
		defer func() { p.spec-- }()
		for _, in := range arm.Instrs {
			switch in := in.(type) {
			case *ssa.Jump:
				return
			case *ssa.Phi:
				panic(specAbort{})
			case *ssa.BinOp, *ssa.UnOp, *ssa.Convert, *ssa.ChangeType, *ssa.Extract, *ssa.Field, *ssa.Index,
				*ssa.IndexAddr, *ssa.FieldAddr, *ssa.Slice, *ssa.Lookup, *ssa.MakeInterface, *ssa.ChangeInterface:
				if u, isU := in.(*ssa.UnOp); isU && u.Op == token.MUL && p.world != nil {
					panic(specAbort{}) // loads are scheduling points in threaded harnesses
				}
				fr.visit(in)
				if v, isV := in.(ssa.Value); isV {
					saved[v] = fr.env[v]
				}
			case *ssa.Call:
				// only calls to side-effect-free intrinsics/stubs on the white list
				if !pureCallee(in) {
					panic(specAbort{})
				}
				fr.visit(in)
			default:
				panic(specAbort{})
			}
		}
	}
	stepsBefore := p.steps
	runArm(armT)
	runArm(armF)
	if !ok {
		p.steps = stepsBefore
		return false
	}
	// compute phis of join for the two incoming edges
	predT, predF := b, b
	if armT != nil {
		predT = armT
	}
	if armF != nil {
		predF = armF
	}
	idxOf := func(pred *ssa.BasicBlock) int {
		// when both edges come from b itself (cannot happen here) indexes would be ambiguous
		for i, x := range join.Preds {
			if x == pred {
				return i
			}
		}
		return -1
	}
	iT, iF := idxOf(predT), idxOf(predF)
	if iT < 0 || iF < 0 || iT == iF {
		p.steps = stepsBefore
		return false
	}
	var phis []*ssa.Phi
	var vals []value
	for _, in := range join.Instrs {
		phi, isPhi := in.(*ssa.Phi)
		if !isPhi {
			break
		}
		vt, vf := fr.get(phi.Edges[iT]), fr.get(phi.Edges[iF])
		m, mok := p.mergeValues(c, vt, vf)
		if !mok {
			p.steps = stepsBefore
			return false
		}
		phis = append(phis, phi)
		vals = append(vals, m)
	}
	for i, phi := range phis {
		fr.env[phi] = vals[i]
	}
	// enter join with phis already assigned: mark prevBlock nil so the phi pass is skipped
	fr.prevBlock = nil
	fr.block = join
	return true
}

func pureCallee(c *ssa.Call) bool {
	if b, ok := c.Call.Value.(*ssa.Builtin); ok {
		return b.Name() == "len" || b.Name() == "cap"
	}
	f := c.Call.StaticCallee()
	if f == nil {
		return false
	}
	switch f.Name() {
	case "vfAnd", "vfOr", "vfImplies", "vfNot":
		return true
	}
	return false
}

func (p *path) mergeValues(c *Term, a, b value) (value, bool) {
	switch a := a.(type) {
	case *Term:
		if bt, ok := b.(*Term); ok && bt.sort == a.sort {
			return p.tc.Ite(c, a, bt), true
		}
	case Str:
		if bs, ok := b.(Str); ok && len(bs.b) == len(a.b) {
			out := make([]*Term, len(a.b))
			for i := range out {
				out[i] = p.tc.Ite(c, a.b[i], bs.b[i])
			}
			return Str{out}, true
		}
	case *value:
		if bp, ok := b.(*value); ok && a == bp {
			return a, true
		}
	case structure:
		if bt, ok := b.(structure); ok && len(bt) == len(a) {
			out := make(structure, len(a))
			for i := range a {
				m, ok := p.mergeValues(c, a[i], bt[i])
				if !ok {
					return nil, false
				}
				out[i] = m
			}
			return out, true
		}
	case array:
		if bt, ok := b.(array); ok && len(bt) == len(a) {
			out := make(array, len(a))
			for i := range a {
				m, ok := p.mergeValues(c, a[i], bt[i])
				if !ok {
					return nil, false
				}
				out[i] = m
			}
			return out, true
		}
	case iface:
		if bi, ok := b.(iface); ok {
			if a.t == nil && bi.t == nil {
				return a, true
			}
			if a.t != nil && bi.t != nil && types.Identical(a.t, bi.t) {
				if m, ok := p.mergeValues(c, a.v, bi.v); ok {
					return iface{t: a.t, v: m}, true
				}
			}
		}
	case tuple:
		if bt, ok := b.(tuple); ok && len(bt) == len(a) {
			out := make(tuple, len(a))
			for i := range a {
				m, ok := p.mergeValues(c, a[i], bt[i])
				if !ok {
					return nil, false
				}
				out[i] = m
			}
			return out, true
		}
	}
	return nil, false
}

func (fr *frame) prepareCall(call *ssa.CallCommon) (fn value, args []value) {
	p := fr.p
	v := fr.get(call.Value)
	if call.Method == nil {
		fn = v
	} else {
		recv, ok := v.(iface)
		if !ok {
			p.unsupported(fmt.Sprintf("invoke on %T", v))
		}
		if recv.t == nil {
			p.runtimePanic("nil pointer dereference (method call on nil interface)", fr.fn.Name())
		}
		switch rv := recv.v.(type) {
		case host:
			fn = hostFunc{recv: rv, method: call.Method.Name()}
		case *errorV:
			fn = hostFunc{errv: rv, method: call.Method.Name()}
		default:
			f := fr.fn.Prog.LookupMethod(recv.t, call.Method.Pkg(), call.Method.Name())
			if f == nil {
				p.unsupported(fmt.Sprintf("method %s not found on %s", call.Method.Name(), recv.t))
			}
			fn = f
			args = append(args, recv.v)
		}
	}
	for _, a := range call.Args {
		args = append(args, fr.get(a))
	}
	return
}

func (fr *frame) typeAssert(instr *ssa.TypeAssert) value {
	p := fr.p
	x, ok := fr.get(instr.X).(iface)
	if !ok {
		p.unsupported(fmt.Sprintf("TypeAssert on %T", fr.get(instr.X)))
	}
	var v value
	okk := false
	if itf, isItf := instr.AssertedType.Underlying().(*types.Interface); isItf {
		if x.t != nil && p.implements(x, itf) {
			v = x
			okk = true
		}
	} else if x.t != nil && types.Identical(x.t, instr.AssertedType) {
		v = x.v
		okk = true
	}
	if !okk {
		if instr.CommaOk {
			return tuple{p.zero(instr.AssertedType), p.tc.ff}
		}
		dyn := "nil"
		if x.t != nil {
			dyn = x.t.String()
		}
		p.runtimePanic(fmt.Sprintf("interface conversion: interface is %s, not %s", dyn, instr.AssertedType), fr.pos(instr))
	}
	if instr.CommaOk {
		return tuple{v, p.tc.tt}
	}
	return v
}

func (p *path) implements(x iface, itf *types.Interface) bool {
	if _, isErr := x.v.(*errorV); isErr {
		// engine errors implement exactly error
		return itf.NumMethods() == 0 || (itf.NumMethods() == 1 && itf.Method(0).Name() == "Error")
	}
	return types.Implements(x.t, itf)
}
