package main

// One long-lived SMT solver process per worker; SMT-LIB2 text over a pipe.
// Only Bool and (_ BitVec n) sorts are used.

import (
	"bufio"
	"fmt"
	"io"
	"os/exec"
	"strconv"
	"strings"
	"time"
)

type solverKind struct {
	name string
	argv []string
}

var solverKinds = map[string]solverKind{
	"z3":     {"z3", []string{"z3", "-in", "-t:60000"}},
	"z3-new": {"z3-new", []string{"z3-new", "-in", "-t:60000"}},
	"cvc5":   {"cvc5", []string{"cvc5", "--incremental", "--lang=smt2", "--produce-models", "--tlimit-per=60000"}},
}

type proc struct {
	kind  string
	cmd   *exec.Cmd
	in    io.WriteCloser
	out   *bufio.Reader
	dead  bool
	trace io.Writer
}

func startProc(kind string) (*proc, error) {
	k, ok := solverKinds[kind]
	if !ok {
		return nil, fmt.Errorf("unknown solver %s", kind)
	}
	cmd := exec.Command(k.argv[0], k.argv[1:]...)
	in, err := cmd.StdinPipe()
	if err != nil {
		return nil, err
	}
	out, err := cmd.StdoutPipe()
	if err != nil {
		return nil, err
	}
	cmd.Stderr = cmd.Stdout
	if err := cmd.Start(); err != nil {
		return nil, err
	}
	p := &proc{kind: kind, cmd: cmd, in: in, out: bufio.NewReaderSize(out, 1<<16)}
	p.send("(set-option :produce-models true)")
	p.send("(set-logic QF_BV)")
	return p, nil
}

func (p *proc) send(s string) {
	if p.dead {
		return
	}
	if p.trace != nil {
		fmt.Fprintln(p.trace, s)
	}
	if _, err := io.WriteString(p.in, s+"\n"); err != nil {
		p.dead = true
	}
}

// readSexp reads one complete response: an atom line or a balanced s-expression.
func (p *proc) readSexp() string {
	if p.dead {
		return "(error \"solver process dead\")"
	}
	var sb strings.Builder
	depth := 0
	started := false
	inBar := false
	inStr := false
	for {
		line, err := p.out.ReadString('\n')
		if err != nil && line == "" {
			p.dead = true
			return "(error \"solver closed: " + sb.String() + "\")"
		}
		for _, ch := range line {
			switch {
			case inBar:
				if ch == '|' {
					inBar = false
				}
			case inStr:
				if ch == '"' {
					inStr = false
				}
			case ch == '|':
				inBar = true
			case ch == '"':
				inStr = true
			case ch == '(':
				depth++
			case ch == ')':
				depth--
			}
		}
		if strings.TrimSpace(line) != "" {
			started = true
		}
		sb.WriteString(line)
		if started && depth <= 0 && !inBar && !inStr {
			return strings.TrimSpace(sb.String())
		}
	}
}

func (p *proc) close() {
	if p.cmd != nil {
		p.in.Close()
		p.cmd.Process.Kill()
		p.cmd.Wait()
	}
}

type QueryStats struct {
	Branch, Assert, Witness, Model int // by purpose
	Sat, Unsat, Unknown            int
	Folded                         int // decided by constant folding, no solver call
	CrossChecked, CrossDisagree    int
	SolverTime                     time.Duration
}

func (q *QueryStats) add(o *QueryStats) {
	q.Branch += o.Branch
	q.Assert += o.Assert
	q.Witness += o.Witness
	q.Model += o.Model
	q.Sat += o.Sat
	q.Unsat += o.Unsat
	q.Unknown += o.Unknown
	q.Folded += o.Folded
	q.CrossChecked += o.CrossChecked
	q.CrossDisagree += o.CrossDisagree
	q.SolverTime += o.SolverTime
}

type Solver struct {
	main    *proc
	mirrors []*proc
	defined map[int]bool
	decl    map[string]bool
	inPath  bool
	stats   QueryStats
	errs    []string
}

func NewSolver(kinds []string) (*Solver, error) {
	s := &Solver{}
	for i, k := range kinds {
		p, err := startProc(k)
		if err != nil {
			return nil, err
		}
		if i == 0 {
			s.main = p
		} else {
			s.mirrors = append(s.mirrors, p)
		}
	}
	return s, nil
}

func (s *Solver) Close() {
	s.main.close()
	for _, m := range s.mirrors {
		m.close()
	}
}

func (s *Solver) all(cmd string) {
	s.main.send(cmd)
	for _, m := range s.mirrors {
		m.send(cmd)
	}
}

func (s *Solver) BeginPath() {
	if s.main.dead {
		// restart a dead solver
		k := s.main.kind
		s.main.close()
		if p, err := startProc(k); err == nil {
			s.main = p
		}
	}
	s.all("(push 1)")
	s.defined = map[int]bool{}
	s.decl = map[string]bool{}
	s.inPath = true
}

func (s *Solver) EndPath() {
	if s.inPath {
		s.all("(pop 1)")
		s.inPath = false
	}
}

// define emits declarations/definitions for t and its subterms (iteratively, post-order).
func (s *Solver) define(t *Term) {
	if t.op == OpConst {
		return
	}
	type fr struct {
		t *Term
		i int
	}
	stack := []fr{{t, 0}}
	for len(stack) > 0 {
		f := &stack[len(stack)-1]
		n := f.t
		if n.op == OpConst || s.defined[n.id] {
			stack = stack[:len(stack)-1]
			continue
		}
		if n.op == OpVar {
			if !s.decl[n.name] {
				s.decl[n.name] = true
				s.all(fmt.Sprintf("(declare-const %s %s)", smtName(n.name), sortSMT(n.sort)))
			}
			s.defined[n.id] = true
			stack = stack[:len(stack)-1]
			continue
		}
		if f.i < 3 {
			ch := n.a[f.i]
			f.i++
			if ch != nil && ch.op != OpConst && !s.defined[ch.id] {
				stack = append(stack, fr{ch, 0})
			}
			continue
		}
		s.all(fmt.Sprintf("(define-fun t%d () %s %s)", n.id, sortSMT(n.sort), n.body()))
		s.defined[n.id] = true
		stack = stack[:len(stack)-1]
	}
}

func (s *Solver) Assert(t *Term) {
	if t.IsTrue() {
		return
	}
	s.define(t)
	s.all("(assert " + t.ref() + ")")
}

const (
	purposeBranch = iota
	purposeAssert
	purposeWitness
)

// Check asks whether (asserted path condition ∧ extra...) is satisfiable.
// Returns "sat", "unsat" or "unknown" (errors and timeouts are "unknown").
// With wantModel the values of vars are returned for a sat answer.
func (s *Solver) Check(purpose int, wantModel bool, vars []*Term, extra ...*Term) (string, map[string]uint64) {
	for _, e := range extra {
		s.define(e)
	}
	for _, v := range vars {
		s.define(v)
	}
	cross := purpose == purposeAssert && len(s.mirrors) > 0
	emit := func(cmd string) {
		s.main.send(cmd)
		if cross {
			for _, m := range s.mirrors {
				m.send(cmd)
			}
		}
	}
	emit("(push 1)")
	for _, e := range extra {
		emit("(assert " + e.ref() + ")")
	}
	t0 := time.Now()
	emit("(check-sat)")
	res := s.readAnswer(s.main)
	switch purpose {
	case purposeBranch:
		s.stats.Branch++
	case purposeAssert:
		s.stats.Assert++
	case purposeWitness:
		s.stats.Witness++
	}
	if cross {
		s.stats.CrossChecked++
		for _, m := range s.mirrors {
			r2 := s.readAnswer(m)
			if r2 != res {
				s.stats.CrossDisagree++
				s.errs = append(s.errs, fmt.Sprintf("solver disagreement: %s=%s %s=%s", s.main.kind, res, m.kind, r2))
				res = "unknown"
			}
		}
	}
	var model map[string]uint64
	if res == "sat" && wantModel && len(vars) > 0 {
		s.stats.Model++
		var sb strings.Builder
		sb.WriteString("(get-value (")
		for _, v := range vars {
			sb.WriteString(v.ref())
			sb.WriteByte(' ')
		}
		sb.WriteString("))")
		s.main.send(sb.String())
		out := s.main.readSexp()
		if strings.Contains(out, "(error") {
			s.errs = append(s.errs, out)
			res = "unknown"
		} else {
			model = parseModel(out)
		}
	}
	s.stats.SolverTime += time.Since(t0)
	emit("(pop 1)")
	switch res {
	case "sat":
		s.stats.Sat++
	case "unsat":
		s.stats.Unsat++
	default:
		s.stats.Unknown++
	}
	return res, model
}

func (s *Solver) readAnswer(p *proc) string {
	for {
		out := p.readSexp()
		switch out {
		case "sat", "unsat":
			return out
		case "unknown", "timeout":
			return "unknown"
		}
		if strings.Contains(out, "(error") || p.dead {
			s.errs = append(s.errs, p.kind+": "+out)
			// an error line precedes the answer of check-sat in some cases: treat as inconclusive
			// but keep the stream in sync: errors for non-check commands carry no answer.
			if p.dead {
				return "unknown"
			}
			// read on: the answer to check-sat still follows
			continue
		}
		// unexpected output (e.g. warnings): skip
		if out == "" {
			return "unknown"
		}
	}
}

// parseModel parses ((name value) ...) as printed by z3 / cvc5 for Bool and BitVec values.
func parseModel(s string) map[string]uint64 {
	m := map[string]uint64{}
	toks := tokenize(s)
	// pattern: ( ( name value ) ( name value ) ... )
	i := 0
	next := func() string {
		if i < len(toks) {
			i++
			return toks[i-1]
		}
		return ""
	}
	if next() != "(" {
		return m
	}
	for i < len(toks) {
		t := next()
		if t == ")" {
			break
		}
		if t != "(" {
			continue
		}
		name := next()
		name = strings.Trim(name, "|")
		v := next()
		var val uint64
		switch {
		case v == "true":
			val = 1
		case v == "false":
			val = 0
		case strings.HasPrefix(v, "#x"):
			val, _ = strconv.ParseUint(v[2:], 16, 64)
		case strings.HasPrefix(v, "#b"):
			val, _ = strconv.ParseUint(v[2:], 2, 64)
		case v == "(":
			// (_ bvN w)
			next() // _
			bv := next()
			next() // width
			next() // )
			val, _ = strconv.ParseUint(strings.TrimPrefix(bv, "bv"), 10, 64)
		}
		m[name] = val
		next() // )
	}
	return m
}

func tokenize(s string) []string {
	var toks []string
	i := 0
	for i < len(s) {
		ch := s[i]
		switch {
		case ch == '(' || ch == ')':
			toks = append(toks, string(ch))
			i++
		case ch == ' ' || ch == '\n' || ch == '\t' || ch == '\r':
			i++
		case ch == '|':
			j := i + 1
			for j < len(s) && s[j] != '|' {
				j++
			}
			toks = append(toks, s[i:j+1])
			i = j + 1
		default:
			j := i
			for j < len(s) && !strings.ContainsRune("() \n\t\r", rune(s[j])) {
				j++
			}
			toks = append(toks, s[i:j])
			i = j
		}
	}
	return toks
}
