package main

// Path exploration: every path is (re-)executed from the start of the harness following a
// decision prefix; new decisions are solved and the alternatives queued.

import (
	"fmt"
	"math/rand"
	"os"
	"runtime/debug"
	"sort"
	"strings"
	"sync"
	"time"

	"golang.org/x/tools/go/ssa"
)

type abortKind int

const (
	abortInfeasible abortKind = iota // an assumption cannot hold: the path does not exist
	abortUnsupported
	abortBudget
	abortSolver
	abortDone // harness ended early on purpose (vfStop)
)

type pathAbort struct {
	kind   abortKind
	reason string
}

type inputRec struct {
	Name string
	Kind string // "bool","int","byte","string","choice"
	Bits []*Term
	Len  int
	Val  int // choice value
}

type Violation struct {
	Harness   string            `json:"harness"`
	Property  string            `json:"property"`
	Clause    string            `json:"clause"`
	Model     map[string]any    `json:"inputs"`
	Decisions []int             `json:"decisions"`
	Known     string            `json:"known_class,omitempty"`
	EnvChoice bool              `json:"depends_on_environment_choice"`
	Detail    string            `json:"detail,omitempty"`
	Native    string            `json:"native,omitempty"` // filled by replay
	Extra     map[string]string `json:"extra,omitempty"`
}

type obsRec struct {
	Label string `json:"label"`
	Val   string `json:"value"`
}

type pathResult struct {
	outcome      string // "ok", "infeasible", "inconclusive", "done"
	reason       string
	forks        [][]int
	violations   []*Violation
	steps        int
	stats        QueryStats
	assertsOK    map[string]int
	assertsFold  map[string]int
	reached      map[string]int
	observes     []obsRec
	funcs        map[string]bool
	stubs        map[string]bool
	assumptions  map[string]bool
	envChoices   int
	sample       map[string]any
	solverErrs   []string
	knownHits    map[string]*Violation
	pcSize       int
	panicOutcome string
	p            *path
	model        map[string]any
	modelObs     []obsRec
}

type HarnessResult struct {
	Name         string
	Paths        int
	Infeasible   int
	Inconclusive map[string]int // reason -> count
	Steps        int
	Stats        QueryStats
	Violations   []*Violation
	KnownHits    map[string]*Violation
	AssertsOK    map[string]int
	AssertsFold  map[string]int
	Reached      map[string]int
	Funcs        map[string]bool
	Stubs        map[string]bool
	Assumptions  map[string]bool
	Samples      []map[string]any
	SolverErrs   []string
	Wall         time.Duration
	EnvChoices   int
	Truncated    bool
	PathModels   []map[string]any
	PathModelObs [][]obsRec // observations of the sampled symbolic paths evaluated under their model
}

type RunConfig struct {
	Workers       int
	Solvers       []string // first is primary
	MaxPaths      int
	MaxSteps      int // per path
	PermuteMaps   bool
	PermuteSingle bool           // at most one map range per path deviates from the reference order
	Params        map[string]int // tier parameters readable by harnesses through vfParam
	FixedModel    map[string]any // concrete mode: inputs fixed to these values
	Deadline      time.Time
	KnownActive   map[string]bool // known-finding classes with status "known"
	Trace         bool
	Random        *rand.Rand // concrete-random mode (differential twin)
	SampleModels  int        // number of path models to keep for the differential twin
	Seed          int64
	wantSample    func() bool
}

type Engine struct {
	prog     *ssa.Program
	pkgs     map[string]*ssa.Package // by import path
	initFns  []*ssa.Function         // gomacro package initialisers, dependency order
	modPath  string
	hostType map[string]hostTypeInfo
}

func (e *Engine) RunHarness(fn *ssa.Function, cfg RunConfig) *HarnessResult {
	res := &HarnessResult{
		Name: fn.Name(), Inconclusive: map[string]int{}, AssertsOK: map[string]int{}, AssertsFold: map[string]int{},
		Reached: map[string]int{}, Funcs: map[string]bool{}, Stubs: map[string]bool{}, Assumptions: map[string]bool{},
		KnownHits: map[string]*Violation{},
	}
	t0 := time.Now()
	var mu sync.Mutex
	cond := sync.NewCond(&mu)
	stack := [][]int{{}}
	active := 0
	started := 0
	violSeen := map[string]bool{}
	plainViolations := 0
	rng := rand.New(rand.NewSource(cfg.Seed + 17))
	var rngMu sync.Mutex
	sampled := 0
	cfg.wantSample = func() bool {
		rngMu.Lock()
		defer rngMu.Unlock()
		sampled++
		return rng.Float64() < float64(4*cfg.SampleModels)/float64(sampled)
	}
	modelsSeen := 0

	worker := func() {
		sol, err := NewSolver(cfg.Solvers)
		if err != nil {
			mu.Lock()
			res.Inconclusive["cannot start solver: "+err.Error()]++
			mu.Unlock()
			return
		}
		defer sol.Close()
		for {
			mu.Lock()
			for len(stack) == 0 && active > 0 {
				cond.Wait()
			}
			if len(stack) == 0 && active == 0 {
				mu.Unlock()
				cond.Broadcast()
				return
			}
			if started >= cfg.MaxPaths || (!cfg.Deadline.IsZero() && time.Now().After(cfg.Deadline)) {
				if len(stack) > 0 {
					res.Truncated = true
					res.Inconclusive[fmt.Sprintf("path budget exhausted (%d paths started, %d prefixes left)", started, len(stack))]++
					stack = nil
				}
				mu.Unlock()
				cond.Broadcast()
				if active == 0 {
					return
				}
				continue
			}
			prefix := stack[len(stack)-1]
			stack = stack[:len(stack)-1]
			active++
			started++
			mu.Unlock()

			pr := e.runPath(fn, prefix, sol, cfg)
			if os.Getenv("VERIF_PATHLOG") != "" {
				fmt.Fprintf(os.Stderr, "path prefix=%v outcome=%s %s decisions=%v forks=%d obs=%v\n", prefix, pr.outcome, pr.reason, pr.p.decisions, len(pr.forks), pr.p.observes)
			}

			mu.Lock()
			active--
			res.Steps += pr.steps
			res.Stats.add(&pr.stats)
			res.EnvChoices += pr.envChoices
			switch pr.outcome {
			case "ok", "done":
				res.Paths++
				if len(res.Samples) < 6 && pr.sample != nil {
					res.Samples = append(res.Samples, pr.sample)
				}
			case "infeasible":
				res.Infeasible++
			default:
				res.Inconclusive[pr.reason]++
			}
			if pr.model != nil {
				modelsSeen++
				if len(res.PathModels) < cfg.SampleModels {
					res.PathModels = append(res.PathModels, pr.model)
					res.PathModelObs = append(res.PathModelObs, pr.modelObs)
				} else if j := rng.Intn(modelsSeen); j < cfg.SampleModels {
					res.PathModels[j] = pr.model
					res.PathModelObs[j] = pr.modelObs
				}
			}
			for k, v := range pr.assertsOK {
				res.AssertsOK[k] += v
			}
			for k, v := range pr.assertsFold {
				res.AssertsFold[k] += v
			}
			for k, v := range pr.reached {
				res.Reached[k] += v
			}
			for k := range pr.funcs {
				res.Funcs[k] = true
			}
			for k := range pr.stubs {
				res.Stubs[k] = true
			}
			for k := range pr.assumptions {
				res.Assumptions[k] = true
			}
			for k, v := range pr.knownHits {
				if res.KnownHits[k] == nil {
					res.KnownHits[k] = v
				}
			}
			for _, v := range pr.violations {
				key := v.Clause
				// counterexamples that do not rest on an environment choice (an order the sort contract
				// allows, a map order, a schedule) replay deterministically: five of them are kept besides
				// the first five of any kind
				if !violSeen[key] || len(res.Violations) < 5 || (!v.EnvChoice && plainViolations < 5) {
					violSeen[key] = true
					res.Violations = append(res.Violations, v)
					if !v.EnvChoice {
						plainViolations++
					}
				}
			}
			if len(res.SolverErrs) < 10 {
				res.SolverErrs = append(res.SolverErrs, pr.solverErrs...)
			}
			stack = append(stack, pr.forks...)
			mu.Unlock()
			cond.Broadcast()
		}
	}
	var wg sync.WaitGroup
	n := cfg.Workers
	if n < 1 {
		n = 1
	}
	for i := 0; i < n; i++ {
		wg.Add(1)
		go func() { defer wg.Done(); worker() }()
	}
	wg.Wait()
	res.Wall = time.Since(t0)
	sort.Slice(res.Violations, func(i, j int) bool { return res.Violations[i].Clause < res.Violations[j].Clause })
	return res
}

// runPath executes one path. Never panics.
func (e *Engine) runPath(fn *ssa.Function, prefix []int, sol *Solver, cfg RunConfig) (pr *pathResult) {
	p := newPath(e, prefix, sol, cfg)
	pr = &pathResult{p: p}
	sol.errs = nil
	sol.stats = QueryStats{}
	sol.BeginPath()
	defer func() {
		if r := recover(); r != nil {
			switch r := r.(type) {
			case pathAbort:
				switch r.kind {
				case abortInfeasible:
					pr.outcome = "infeasible"
				case abortDone:
					pr.outcome = "done"
				default:
					pr.outcome = "inconclusive"
					pr.reason = r.reason
				}
			case targetPanic:
				// a panic escaping the harness itself: the harness did not use vfCatch.
				pr.outcome = "inconclusive"
				pr.reason = "uncaught panic in harness: " + p.describePanic(r)
			default:
				pr.outcome = "inconclusive"
				pr.reason = fmt.Sprintf("engine error: %v", r)
				if cfg.Trace {
					pr.reason += "\n" + string(debug.Stack())
				} else {
					st := strings.Split(string(debug.Stack()), "\n")
					for _, l := range st {
						if strings.Contains(l, "/verif/engine/") && !strings.Contains(l, "explore.go") {
							pr.reason += " @" + strings.TrimSpace(l)
							break
						}
					}
				}
			}
		}
		p.killThreads()
		if w := p.world; w != nil && len(w.threads) > 1 && (pr.outcome == "ok" || pr.outcome == "done") {
			// race/deadlock obligations of this schedule are discharged when nothing was reported
			for _, clause := range []string{w.raceClause, w.deadlockClause} {
				bad := false
				for _, v := range p.violations {
					if v.Clause == clause {
						bad = true
					}
				}
				if !bad {
					p.assertsOK[clause]++
				}
			}
		}
		sol.EndPath()
		pr.forks = p.forks
		pr.violations = p.violations
		pr.steps = p.steps
		pr.stats = sol.stats
		pr.stats.Folded += p.folded
		pr.assertsOK = p.assertsOK
		pr.assertsFold = p.assertsFold
		pr.reached = p.reached
		pr.observes = p.observes
		pr.funcs = p.funcs
		pr.stubs = p.stubs
		pr.assumptions = p.assumptions
		pr.envChoices = p.envChoices
		pr.solverErrs = sol.errs
		pr.knownHits = p.knownHits
		pr.pcSize = p.pcSize
		if pr.outcome == "ok" || pr.outcome == "done" {
			pr.sample = p.sampleSummary()
		}
		if len(sol.errs) > 0 && pr.outcome != "inconclusive" && pr.outcome != "infeasible" {
			pr.outcome = "inconclusive"
			pr.reason = "solver error: " + sol.errs[0]
		}
	}()
	p.runInits()
	p.callFunction(nil, fn, nil, nil)
	pr.outcome = "ok"
	if cfg.SampleModels > 0 && cfg.wantSample != nil && cfg.wantSample() {
		if r, m := sol.Check(purposeWitness, true, p.allVars()); r == "sat" {
			pr.model = p.modelToInputs(m)
			for _, o := range p.observesRaw {
				pr.modelObs = append(pr.modelObs, obsRec{o.label, p.renderUnder(o.v, m)})
			}
		}
	}
	return pr
}

// ---------------------------------------------------------------------------

type path struct {
	eng       *Engine
	cfg       RunConfig
	tc        *TermCtx
	sol       *Solver
	bytes     [256]*Term
	prefix    []int
	decisions []int
	pos       int
	forks     [][]int
	steps     int
	depth     int
	folded    int
	pcSize    int
	globals   map[*ssa.Global]*value
	inputs    []*inputRec
	inputBy   map[string]*inputRec

	violations    []*Violation
	knownHits     map[string]*Violation
	assertsOK     map[string]int
	assertsFold   map[string]int
	reached       map[string]int
	observes      []obsRec
	observesRaw   []rawObs
	failed        []string
	funcs         map[string]bool
	stubs         map[string]bool
	assumptions   map[string]bool
	envChoices    int
	envDeviations int // environment choices that left the default (reference order, insertion-sort arrangement)
	pending       []knownRec

	sentinels []Str
	intSent   []*Term
	errCount  int
	spec      int // >0 while speculating a pure arm (diamond merging)

	world        *threadWorld       // C20 environment (threads.go)
	loadPlan     *loadPlan          // C17 environment (threads.go)
	ast          *astLink           // imported syntax trees (astimport.go)
	execInit     map[*execUnit]bool // executed generated packages whose initialiser ran (exec.go)
	randCount    int
	randConcrete bool              // every draw follows the concrete stream (vfRandConcrete)
	stepLimit    int               // >0 inside vfTerminates: instruction count beyond which the code is taken not to end
	syncMaps     map[*value]*smap  // sync.Map states (threads.go)
	jdocs        map[*value]*jnode // documents rendered by the encoding/json model (jsonmodel.go)
	curFr        *frame
	curIn        ssa.Instruction

	intRanges  map[*Term][2]int64
	decided    map[*Term]bool
	permUsed   bool
	depthLimit int
	lastBranch bool
	pins       map[*Term]int64
}

type rawObs struct {
	label string
	v     value
}

type knownRec struct {
	class string
	cond  *Term
}

func newPath(e *Engine, prefix []int, sol *Solver, cfg RunConfig) *path {
	p := &path{
		eng: e, cfg: cfg, tc: NewTermCtx(), sol: sol, prefix: prefix,
		globals: map[*ssa.Global]*value{}, inputBy: map[string]*inputRec{},
		knownHits: map[string]*Violation{}, assertsOK: map[string]int{}, assertsFold: map[string]int{},
		reached: map[string]int{}, funcs: map[string]bool{}, stubs: map[string]bool{}, assumptions: map[string]bool{},
		intRanges: map[*Term][2]int64{}, pins: map[*Term]int64{}, decided: map[*Term]bool{},
	}
	return p
}

func (p *path) abort(kind abortKind, reason string) {
	panic(pathAbort{kind, reason})
}

func (p *path) unsupported(what string) {
	panic(pathAbort{abortUnsupported, "unsupported: " + what})
}

func (p *path) note(assumption string) { p.assumptions[assumption] = true }

// assumeTerm adds c to the path condition (checking feasibility unless replaying the prefix).
func (p *path) assumeTerm(c *Term) {
	if c.IsTrue() {
		return
	}
	if c.IsFalse() {
		p.abort(abortInfeasible, "")
	}
	r, _ := p.sol.Check(purposeBranch, false, nil, c)
	switch r {
	case "unsat":
		p.abort(abortInfeasible, "")
	case "unknown":
		p.abort(abortSolver, "solver returned unknown on an assumption")
	}
	p.sol.Assert(c)
	p.pcSize++
}

// branch decides a symbolic condition, forking when both sides are feasible.
func (p *path) branch(c *Term) bool {
	if c.IsConst() {
		p.folded++
		return c.val == 1
	}
	if p.spec > 0 {
		panic(specAbort{})
	}
	if v, ok := p.decided[c]; ok {
		p.folded++
		return v
	}
	nc := p.tc.Not(c)
	defer func() {
		// remember the outcome (set by the return paths below through p.lastBranch)
		p.decided[c] = p.lastBranch
		p.decided[nc] = !p.lastBranch
	}()
	i := p.pos
	p.pos++
	if i < len(p.prefix) {
		taken := p.prefix[i] == 1
		p.decisions = append(p.decisions, p.prefix[i])
		if taken {
			p.sol.Assert(c)
		} else {
			p.sol.Assert(nc)
		}
		p.pcSize++
		p.lastBranch = taken
		return taken
	}
	rT, _ := p.sol.Check(purposeBranch, false, nil, c)
	if rT == "unknown" {
		p.abort(abortSolver, "solver returned unknown on a branch")
	}
	if rT == "unsat" {
		p.decisions = append(p.decisions, 0)
		p.sol.Assert(nc)
		p.pcSize++
		p.lastBranch = false
		return false
	}
	rF, _ := p.sol.Check(purposeBranch, false, nil, nc)
	if rF == "unknown" {
		p.abort(abortSolver, "solver returned unknown on a branch")
	}
	p.lastBranch = true
	if rF == "unsat" {
		p.decisions = append(p.decisions, 1)
		p.sol.Assert(c)
		p.pcSize++
		return true
	}
	alt := append(append([]int{}, p.decisions...), 0)
	p.forks = append(p.forks, alt)
	if forkLog && p.curFr != nil {
		fmt.Fprintf(os.Stderr, "fork(branch) at %s\n", p.curFr.pos(p.curIn))
	}
	p.decisions = append(p.decisions, 1)
	p.sol.Assert(c)
	p.pcSize++
	return true
}

var forkLog = os.Getenv("VERIF_FORKLOG") != ""

// choose is a structural (non-solver) decision among n alternatives.
func (p *path) choose(n int) int {
	if n <= 1 {
		return 0
	}
	if p.spec > 0 {
		panic(specAbort{})
	}
	i := p.pos
	p.pos++
	if i < len(p.prefix) {
		p.decisions = append(p.decisions, p.prefix[i])
		return p.prefix[i]
	}
	for k := n - 1; k >= 1; k-- {
		alt := append(append([]int{}, p.decisions...), k)
		p.forks = append(p.forks, alt)
	}
	p.decisions = append(p.decisions, 0)
	return 0
}

// concreteInt forces an integer term to a concrete value, forking over its feasible values in [lo,hi].
func (p *path) concreteInt(t *Term, lo, hi int64, what string) int64 {
	if t.IsConst() {
		return t.Int64()
	}
	if hi-lo > 64 {
		p.unsupported("symbolic integer with a large range used as " + what)
	}
	for v := lo; v < hi; v++ {
		if p.branch(p.tc.Eq(t, p.tc.BV(t.sort, uint64(v)))) {
			p.pins[t] = v
			return v
		}
	}
	p.assumeTerm(p.tc.Eq(t, p.tc.BV(t.sort, uint64(hi))))
	p.pins[t] = hi
	return hi
}

func (p *path) allVars() []*Term { return p.tc.vars }

func (p *path) modelToInputs(m map[string]uint64) map[string]any {
	out := map[string]any{}
	for _, in := range p.inputs {
		switch in.Kind {
		case "bool":
			out[in.Name] = in.Bits[0].Eval(m) == 1
		case "int":
			out[in.Name] = in.Bits[0].Eval(m)
			if in.Bits[0].sort > 0 {
				out[in.Name] = sx(in.Bits[0].Eval(m), in.Bits[0].sort)
			}
		case "byte":
			out[in.Name] = in.Bits[0].Eval(m)
		case "string":
			bs := make([]int, in.Len)
			for i := 0; i < in.Len; i++ {
				bs[i] = int(in.Bits[i].Eval(m))
			}
			out[in.Name] = map[string]any{"bytes": bs, "text": bytesText(bs)}
		case "choice":
			out[in.Name] = in.Val
		}
	}
	return out
}

func bytesText(bs []int) string {
	var sb strings.Builder
	for _, b := range bs {
		if b >= 0x20 && b < 0x7f {
			sb.WriteByte(byte(b))
		} else {
			fmt.Fprintf(&sb, "\\x%02x", b)
		}
	}
	return sb.String()
}

func (p *path) sampleSummary() map[string]any {
	shape := []string{}
	for _, in := range p.inputs {
		switch in.Kind {
		case "choice":
			shape = append(shape, fmt.Sprintf("%s=%d", in.Name, in.Val))
		case "string":
			shape = append(shape, fmt.Sprintf("%s:string[%d]", in.Name, in.Len))
		default:
			shape = append(shape, in.Name+":"+in.Kind)
		}
	}
	return map[string]any{"inputs": shape, "path_condition_size": p.pcSize, "decisions": len(p.decisions), "ssa_instructions": p.steps}
}
