package main

// Content-dependent operations of the go/types / go/constant world on objects whose strings or
// integer values are symbolic.

import (
	"go/constant"
	"go/types"
	"reflect"
	"regexp"
)

type hostMethodStub func(p *path, method string, recv host, args []value) (value, bool)

var hostMethodStubs map[string]hostMethodStub

func init() {
	hostMethodStubs = map[string]hostMethodStub{
		"Exported": worldExported,
		"Names":    worldScopeNames,
		"Lookup":   worldScopeLookup,
		"Insert":   worldScopeInsert,

		"FindStringSubmatch":    regexpGuard,
		"FindAllStringSubmatch": regexpGuard,
		"ReplaceAllString":      regexpGuard,
		"ReplaceAllStringFunc":  regexpGuard,
		"MatchString":           regexpGuard,
		"FindString":            regexpGuard,
		"FindAllString":         regexpGuard,
		"FindStringIndex":       regexpGuard,
	}
}

func stubMakeInt64(p *path, _ *frame, a []value) value {
	t := a[0].(*Term)
	if t.IsConst() {
		v := constant.MakeInt64(t.Int64())
		return iface{t: p.progType(reflect.TypeOf(v)), v: host{v}}
	}
	id := len(p.intSent)
	p.intSent = append(p.intSent, t)
	v := constant.MakeInt64(intSentinelBase + int64(id))
	return iface{t: p.progType(reflect.TypeOf(v)), v: host{v}}
}

func (p *path) hostConst(v value) constant.Value {
	switch x := v.(type) {
	case iface:
		if x.t == nil {
			p.runtimePanic("nil pointer dereference", "go/constant")
		}
		return p.hostConst(x.v)
	case host:
		if c, ok := x.v.(constant.Value); ok {
			return c
		}
	}
	p.unsupported("go/constant function on a non-constant value")
	return nil
}

func stubInt64Val(p *path, _ *frame, a []value) value {
	c := p.hostConst(a[0])
	v, ok := constant.Int64Val(c)
	if ok && v >= intSentinelBase && v < intSentinelBase+int64(len(p.intSent)) {
		return tuple{p.intSent[v-intSentinelBase], p.tc.tt}
	}
	return tuple{p.tc.BV(64, uint64(v)), p.tc.Bool(ok)}
}

func stubUint64Val(p *path, _ *frame, a []value) value {
	c := p.hostConst(a[0])
	v, ok := constant.Uint64Val(c)
	if ok && int64(v) >= intSentinelBase && int64(v) < intSentinelBase+int64(len(p.intSent)) {
		t := p.intSent[int64(v)-intSentinelBase]
		return tuple{t, p.tc.Not(p.tc.Cmp(OpSLt, t, p.tc.BV(64, 0)))}
	}
	return tuple{p.tc.BV(64, v), p.tc.Bool(ok)}
}

// worldExported: (types.Object).Exported on an object whose name may be symbolic.
func worldExported(p *path, method string, recv host, args []value) (value, bool) {
	obj, ok := recv.v.(types.Object)
	if !ok || len(args) != 0 {
		return nil, false
	}
	if rv := reflect.ValueOf(recv.v); rv.Kind() == reflect.Ptr && rv.IsNil() {
		p.runtimePanic("nil pointer dereference (Exported on nil object)", "")
	}
	return p.nameExported(p.splice(obj.Name())), true
}

// worldScopeNames: (*types.Scope).Names returns the names in sorted order.
func worldScopeNames(p *path, method string, recv host, args []value) (value, bool) {
	sc, ok := recv.v.(*types.Scope)
	if !ok {
		return nil, false
	}
	names := sc.Names()
	out := make([]value, len(names))
	sym := false
	for i, n := range names {
		s := p.splice(n)
		if !s.IsConcrete() {
			sym = true
		}
		out[i] = s
	}
	if !sym {
		return out, true
	}
	less := func(i, j int) bool { return p.branch(p.strLess(out[i].(Str), out[j].(Str), false)) }
	swap := func(i, j int) { out[i], out[j] = out[j], out[i] }
	p.arrange(len(out), less, swap, true, nil)
	// names of one scope are distinct
	for i := 1; i < len(out); i++ {
		p.assumeTerm(p.tc.Not(p.equals(out[i-1], out[i])))
	}
	return out, true
}

func worldScopeLookup(p *path, method string, recv host, args []value) (value, bool) {
	sc, ok := recv.v.(*types.Scope)
	if !ok {
		return nil, false
	}
	name := args[0].(Str)
	for _, n := range sc.Names() {
		s := p.splice(n)
		if len(s.b) != len(name.b) {
			continue
		}
		if p.branch(p.equals(s, name)) {
			return p.fromHost(reflect.ValueOf(sc).MethodByName("Lookup").Call([]reflect.Value{reflect.ValueOf(n)})[0]), true
		}
	}
	return iface{}, true
}

func worldScopeInsert(p *path, method string, recv host, args []value) (value, bool) {
	sc, ok := recv.v.(*types.Scope)
	if !ok {
		return nil, false
	}
	p.note("objects inserted into one scope have distinct names")
	obj := p.toHost(args[0], reflect.TypeOf((*types.Object)(nil)).Elem(), false).Interface().(types.Object)
	newName := p.splice(obj.Name())
	for _, n := range sc.Names() {
		p.assumeTerm(p.tc.Not(p.equals(p.splice(n), newName)))
	}
	alt := sc.Insert(obj)
	if alt == nil {
		return iface{}, true
	}
	return p.fromHost(reflect.ValueOf(&alt).Elem()), true
}

// regexpGuard: methods of *regexp.Regexp run natively only on concrete subjects.
func regexpGuard(p *path, method string, recv host, args []value) (value, bool) {
	re, ok := recv.v.(*regexp.Regexp)
	if !ok {
		return nil, false
	}
	for _, a := range args {
		if s, isS := a.(Str); isS && !s.IsConcrete() {
			return p.regexpSymbolic(re, method, args), true
		}
	}
	return nil, false
}
