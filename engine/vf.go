package main

// Harness intrinsics: calls to vf* functions of the harness files are intercepted here.

import (
	"fmt"
	"strings"
)

type intrinsic func(p *path, caller *frame, args []value) value

var intrinsics map[string]intrinsic

func init() {
	intrinsics = map[string]intrinsic{
		"vfBool":    vfBool,
		"vfInt":     vfInt,
		"vfByte":    vfByte,
		"vfString":  vfString,
		"vfChoice":  vfChoice,
		"vfParam":   vfParam,
		"vfAssume":  vfAssume,
		"vfAssert":  vfAssert,
		"vfKnown":   vfKnown,
		"vfCatch":   vfCatch,
		"vfObserve": vfObserve,
		"vfAnd":     func(p *path, _ *frame, a []value) value { return p.tc.And(a[0].(*Term), a[1].(*Term)) },
		"vfOr":      func(p *path, _ *frame, a []value) value { return p.tc.Or(a[0].(*Term), a[1].(*Term)) },
		"vfImplies": func(p *path, _ *frame, a []value) value { return p.tc.Implies(a[0].(*Term), a[1].(*Term)) },
		"vfNot":     func(p *path, _ *frame, a []value) value { return p.tc.Not(a[0].(*Term)) },
		"vfFork":    func(p *path, _ *frame, a []value) value { return p.tc.Bool(p.branch(a[0].(*Term))) },
		"vfStop":    func(p *path, _ *frame, a []value) value { p.abort(abortDone, ""); return nil },
		"vfEngine":  func(p *path, _ *frame, a []value) value { return p.tc.tt },
		"vfPermuteMaps": func(p *path, _ *frame, a []value) value {
			p.cfg.PermuteMaps = a[0].(*Term).IsTrue()
			return nil
		},
		"vfExecLog":    vfExecLog,
		"vfExecReset":  vfExecResetI,
		"vfWritten":    vfWritten,
		"vfExecSet":    vfExecSet,
		"vfTerminates": vfTerminates,
		"vfTypeCheck":  vfTypeCheck,
		"vfTypeErrors": vfTypeErrors,
		"vfExec":       vfExec,
		"vfDeepEqual":  vfDeepEqual,
		"vfRandConcrete": func(p *path, _ *frame, a []value) value {
			p.randConcrete = a[0].(*Term).IsTrue()
			return nil
		},
		"vfAssertTerminates": func(p *path, caller *frame, a []value) value {
			t := vfTerminates(p, caller, a[:1]).(*Term)
			vfAssert(p, caller, []value{t, a[1]})
			if t.IsFalse() {
				p.abort(abortDone, "") // natively the process running the code is dead: nothing runs after it
			}
			return nil
		},
		"vfFileExists": vfFileExists,
		"vfLoadResult": vfLoadResult,
		"vfLoadDir":    vfLoadDir,
		"vfThreads":    vfThreads,
		"vfExecErr":    vfExecErr,
	}
}

func (p *path) argName(v value) string {
	s, ok := v.(Str)
	if !ok || !s.IsConcrete() {
		p.unsupported("vf*: input name must be a concrete string")
	}
	return s.Concrete()
}

func (p *path) argInt(v value) int64 {
	t, ok := v.(*Term)
	if !ok || !t.IsConst() {
		p.unsupported("vf*: bound argument must be a concrete integer")
	}
	return t.Int64()
}

func (p *path) newInput(name, kind string) *inputRec {
	if _, dup := p.inputBy[name]; dup {
		p.unsupported("vf*: duplicate input name " + name)
	}
	in := &inputRec{Name: name, Kind: kind}
	p.inputBy[name] = in
	p.inputs = append(p.inputs, in)
	return in
}

func (p *path) fixed(name string) (any, bool) {
	if p.cfg.Random != nil {
		return nil, false
	}
	if p.cfg.FixedModel == nil {
		return nil, false
	}
	v, ok := p.cfg.FixedModel[name]
	if !ok {
		p.abort(abortUnsupported, "concrete run: model has no value for input "+name)
	}
	return v, true
}

func toInt64(v any) int64 {
	switch v := v.(type) {
	case float64:
		return int64(v)
	case int:
		return int64(v)
	case int64:
		return v
	case uint64:
		return int64(v)
	case bool:
		if v {
			return 1
		}
		return 0
	}
	return 0
}

func vfBool(p *path, _ *frame, args []value) value {
	name := p.argName(args[0])
	in := p.newInput(name, "bool")
	if v, ok := p.fixed(name); ok {
		b, _ := v.(bool)
		t := p.tc.Bool(b)
		in.Bits = []*Term{t}
		return t
	}
	if p.cfg.Random != nil {
		t := p.tc.Bool(p.cfg.Random.Intn(2) == 1)
		in.Bits = []*Term{t}
		return t
	}
	t := p.tc.Var(name, 0)
	in.Bits = []*Term{t}
	return t
}

func vfInt(p *path, _ *frame, args []value) value {
	name := p.argName(args[0])
	lo, hi := p.argInt(args[1]), p.argInt(args[2])
	in := p.newInput(name, "int")
	if v, ok := p.fixed(name); ok {
		t := p.tc.BV(64, uint64(toInt64(v)))
		in.Bits = []*Term{t}
		return t
	}
	if p.cfg.Random != nil {
		var v int64
		span := uint64(hi - lo)
		switch {
		case span == ^uint64(0):
			v = int64(p.cfg.Random.Uint64())
			if p.cfg.Random.Intn(2) == 0 {
				v = int64(p.cfg.Random.Intn(7)) - 1
			}
		default:
			v = lo + int64(p.cfg.Random.Uint64()%(span+1))
			if span > 16 && p.cfg.Random.Intn(2) == 0 {
				v = lo + int64(p.cfg.Random.Intn(8))
				if lo < 0 && hi > 0 {
					v = int64(p.cfg.Random.Intn(7)) - 2
				}
			}
		}
		t := p.tc.BV(64, uint64(v))
		in.Bits = []*Term{t}
		return t
	}
	t := p.tc.Var(name, 64)
	in.Bits = []*Term{t}
	tc := p.tc
	if hi-lo >= 0 && hi-lo <= 64 {
		p.intRanges[t] = [2]int64{lo, hi}
	}
	if !(lo == -1<<63 && hi == 1<<63-1) {
		p.assumeTerm(tc.And(tc.Cmp(OpSLe, tc.BV(64, uint64(lo)), t), tc.Cmp(OpSLe, t, tc.BV(64, uint64(hi)))))
	}
	return t
}

func (p *path) inRange(b *Term, lo, hi byte) *Term {
	return p.tc.And(p.tc.Cmp(OpULe, p.byteConst(lo), b), p.tc.Cmp(OpULe, b, p.byteConst(hi)))
}

// classTerm: the alphabet constraint of one byte. first = first byte of the string.
func (p *path) classTerm(b *Term, class string, first bool) *Term {
	tc := p.tc
	or := func(ts ...*Term) *Term {
		r := tc.ff
		for _, t := range ts {
			r = tc.Or(r, t)
		}
		return r
	}
	is := func(c byte) *Term { return tc.Eq(b, p.byteConst(c)) }
	lower, upper, digit := p.inRange(b, 'a', 'z'), p.inRange(b, 'A', 'Z'), p.inRange(b, '0', '9')
	switch class {
	case "byte", "any":
		return tc.tt
	case "nonul":
		return tc.Not(is(0))
	case "ascii":
		return p.inRange(b, 1, 0x7f)
	case "print":
		return p.inRange(b, 0x20, 0x7e)
	case "tag": // struct tag value bytes: printable, no quote, no backslash
		return tc.And(p.inRange(b, 0x20, 0x7e), tc.Not(or(is('"'), is('\\'))))
	case "ident": // Go identifier (ASCII)
		if first {
			return or(lower, upper, is('_'))
		}
		return or(lower, upper, digit, is('_'))
	case "Ident": // exported identifier
		if first {
			return upper
		}
		return or(lower, upper, digit, is('_'))
	case "lident": // unexported identifier
		if first {
			return or(lower, is('_'))
		}
		return or(lower, upper, digit, is('_'))
	case "alpha":
		return or(lower, upper)
	case "alnum":
		return or(lower, upper, digit)
	case "lower":
		return lower
	case "upper":
		return upper
	case "digit":
		return digit
	case "word": // \w
		return or(lower, upper, digit, is('_'))
	case "sqltext": // printable ASCII as found in SQL comments
		return p.inRange(b, 0x20, 0x7e)
	case "path": // one byte of a cleaned absolute path: anything but NUL
		return tc.Not(is(0))
	}
	if strings.HasPrefix(class, "set:") {
		r := tc.ff
		for _, c := range []byte(class[4:]) {
			r = tc.Or(r, is(c))
		}
		return r
	}
	p.unsupported("vf*: unknown byte class " + class)
	return nil
}

func vfByte(p *path, _ *frame, args []value) value {
	name := p.argName(args[0])
	class := p.argName(args[1])
	in := p.newInput(name, "byte")
	if v, ok := p.fixed(name); ok {
		t := p.tc.BV(8, uint64(toInt64(v)))
		in.Bits = []*Term{t}
		return t
	}
	if p.cfg.Random != nil {
		t := p.byteConst(p.randomByte(class, true))
		in.Bits = []*Term{t}
		return t
	}
	t := p.tc.Var(name, 8)
	in.Bits = []*Term{t}
	p.assumeTerm(p.classTerm(t, class, true))
	return t
}

// vfString(name, minLen, maxLen, class): length is a structural choice, bytes are symbolic.
func vfString(p *path, _ *frame, args []value) value {
	name := p.argName(args[0])
	lo, hi := int(p.argInt(args[1])), int(p.argInt(args[2]))
	class := p.argName(args[3])
	in := p.newInput(name, "string")
	if v, ok := p.fixed(name); ok {
		var bs []*Term
		switch v := v.(type) {
		case string:
			bs = p.mkStr(v).b
		case map[string]any:
			switch raw := v["bytes"].(type) {
			case []any:
				for _, x := range raw {
					bs = append(bs, p.byteConst(byte(toInt64(x))))
				}
			case []int:
				for _, x := range raw {
					bs = append(bs, p.byteConst(byte(x)))
				}
			}
		}
		in.Bits, in.Len = bs, len(bs)
		return Str{bs}
	}
	if p.cfg.Random != nil {
		n := lo + p.cfg.Random.Intn(hi-lo+1)
		bs := make([]*Term, n)
		for i := range bs {
			bs[i] = p.byteConst(p.randomByte(class, i == 0))
		}
		in.Bits, in.Len = bs, n
		return Str{bs}
	}
	n := lo
	if hi > lo {
		n = lo + p.choose(hi-lo+1)
	}
	bs := make([]*Term, n)
	cons := p.tc.tt
	for i := range bs {
		bs[i] = p.tc.Var(fmt.Sprintf("%s[%d]", name, i), 8)
		cons = p.tc.And(cons, p.classTerm(bs[i], class, i == 0))
	}
	in.Bits, in.Len = bs, n
	if n > 0 {
		p.assumeTerm(cons)
	}
	return Str{bs}
}

func vfChoice(p *path, _ *frame, args []value) value {
	name := p.argName(args[0])
	n := int(p.argInt(args[1]))
	in := p.newInput(name, "choice")
	if v, ok := p.fixed(name); ok {
		in.Val = int(toInt64(v))
		return p.tc.BV(64, uint64(in.Val))
	}
	if p.cfg.Random != nil {
		in.Val = p.cfg.Random.Intn(n)
		return p.tc.BV(64, uint64(in.Val))
	}
	in.Val = p.choose(n)
	return p.tc.BV(64, uint64(in.Val))
}

func vfParam(p *path, _ *frame, args []value) value {
	name := p.argName(args[0])
	def := p.argInt(args[1])
	if v, ok := p.cfg.Params[name]; ok {
		return p.tc.BV(64, uint64(int64(v)))
	}
	return p.tc.BV(64, uint64(def))
}

func vfAssume(p *path, _ *frame, args []value) value {
	p.assumeTerm(args[0].(*Term))
	return nil
}

func vfKnown(p *path, _ *frame, args []value) value {
	class := p.argName(args[0])
	p.pending = append(p.pending, knownRec{class, args[1].(*Term)})
	return nil
}

func (p *path) propertyOf(clause string) string {
	if i := strings.Index(clause, "/"); i > 0 {
		return clause[:i]
	}
	return clause
}

func vfAssert(p *path, caller *frame, args []value) value {
	cond := args[0].(*Term)
	clause := p.argName(args[1])
	pending := p.pending
	p.pending = nil
	p.reached[clause]++
	tc := p.tc
	notc := tc.Not(cond)
	if notc.IsFalse() {
		p.assertsFold[clause]++
		p.folded++
		return nil
	}
	if p.cfg.Random != nil || p.cfg.FixedModel != nil {
		if notc.IsTrue() {
			p.failed = append(p.failed, clause)
			return nil
		}
		p.unsupported("concrete run: assertion did not fold to a constant")
	}
	var active []knownRec
	for _, k := range pending {
		if p.cfg.KnownActive[k.class] {
			active = append(active, k)
		}
	}
	excl := tc.tt
	for _, k := range active {
		excl = tc.And(excl, tc.Not(k.cond))
	}
	mk := func(m map[string]uint64, known string) *Violation {
		return &Violation{
			Harness: "", Property: p.propertyOf(clause), Clause: clause, Model: p.modelToInputs(m),
			Decisions: append([]int{}, p.decisions...), Known: known, EnvChoice: p.envDeviations > 0,
		}
	}
	r, m := p.sol.Check(purposeAssert, true, p.allVars(), notc, excl)
	switch r {
	case "unknown":
		p.abort(abortSolver, "solver returned unknown on assertion "+clause)
	case "sat":
		p.violations = append(p.violations, mk(m, ""))
	case "unsat":
		p.assertsOK[clause]++
		for _, k := range active {
			if p.knownHits[k.class] != nil {
				continue
			}
			r2, m2 := p.sol.Check(purposeWitness, true, p.allVars(), notc, k.cond)
			if r2 == "sat" {
				p.knownHits[k.class] = mk(m2, k.class)
			}
		}
	}
	if r == "sat" || len(active) > 0 {
		// continue on the part of the path where the assertion holds
		func() {
			defer func() {
				if r := recover(); r != nil {
					if pa, ok := r.(pathAbort); ok && pa.kind == abortInfeasible {
						panic(pathAbort{abortDone, ""})
					}
					panic(r)
				}
			}()
			p.assumeTerm(cond)
		}()
	}
	return nil
}

func vfCatch(p *path, caller *frame, args []value) (res value) {
	tc := p.tc
	defer func() {
		if r := recover(); r != nil {
			tp, ok := r.(targetPanic)
			if !ok {
				panic(r)
			}
			msg := Str{}
			explicitOK := false
			switch v := tp.v.(type) {
			case iface:
				switch vv := v.v.(type) {
				case Str:
					msg, explicitOK = vv, true
				case *errorV:
					if vv != nil {
						msg, explicitOK = vv.msg, true
					}
				}
			case Str:
				msg, explicitOK = v, true
			}
			_ = explicitOK
			if tp.runtime {
				msg = p.mkStr("runtime error")
			}
			res = tuple{tc.tt, tc.Bool(tp.runtime), msg}
		}
	}()
	p.call(caller, args[0], nil, nil)
	return tuple{tc.ff, tc.ff, Str{}}
}

func (p *path) render(v value) string {
	switch v := v.(type) {
	case iface:
		if v.t == nil {
			return "<nil>"
		}
		return p.render(v.v)
	case Str:
		if v.IsConcrete() {
			return fmt.Sprintf("%q", v.Concrete())
		}
		var sb strings.Builder
		for _, b := range v.b {
			switch {
			case b.IsConst():
				sb.WriteByte(byte(b.val))
			case b.op == OpVar:
				sb.WriteString("{" + b.name + "}")
			default:
				sb.WriteString("{?}")
			}
		}
		return "<symbolic string " + sb.String() + ">"
	case *Term:
		if v.IsConst() {
			if v.sort == 0 {
				return fmt.Sprint(v.val == 1)
			}
			return fmt.Sprint(v.Int64())
		}
		return "<symbolic>"
	case []value:
		parts := make([]string, len(v))
		for i, x := range v {
			parts[i] = p.render(x)
		}
		return "[" + strings.Join(parts, " ") + "]"
	case *errorV:
		if v == nil {
			return "<nil>"
		}
		return "error:" + p.render(v.msg)
	}
	return fmt.Sprintf("<%T>", v)
}

func vfObserve(p *path, _ *frame, args []value) value {
	label := p.argName(args[0])
	p.observes = append(p.observes, obsRec{label, p.render(args[1])})
	p.observesRaw = append(p.observesRaw, rawObs{label, args[1]})
	return nil
}

// renderUnder renders a value like render, with every symbolic scalar evaluated under model m.
func (p *path) renderUnder(v value, m map[string]uint64) string {
	switch v := v.(type) {
	case iface:
		if v.t == nil {
			return "<nil>"
		}
		return p.renderUnder(v.v, m)
	case Str:
		bs := make([]byte, len(v.b))
		for i, b := range v.b {
			bs[i] = byte(b.Eval(m))
		}
		return fmt.Sprintf("%q", string(bs))
	case *Term:
		x := v.Eval(m)
		if v.sort == 0 {
			return fmt.Sprint(x == 1)
		}
		return fmt.Sprint(sx(x, v.sort))
	case []value:
		parts := make([]string, len(v))
		for i, x := range v {
			parts[i] = p.renderUnder(x, m)
		}
		return "[" + strings.Join(parts, " ") + "]"
	case *errorV:
		if v == nil {
			return "<nil>"
		}
		return "error:" + p.renderUnder(v.msg, m)
	}
	return fmt.Sprintf("<%T>", v)
}

type nonTermination struct{}

// vfTerminates(f): runs f under a local recursion bound (150 frames) and step budget; reports
// false when the bound is hit (natively a non-terminating recursion overflows the stack).
func vfTerminates(p *path, caller *frame, args []value) (res value) {
	savedLimit, savedSteps := p.depthLimit, p.stepLimit
	p.depthLimit = p.depth + 150
	p.stepLimit = p.steps + 1000000 // a loop that runs for 1,000,000 instructions is taken not to end
	defer func() {
		p.depthLimit, p.stepLimit = savedLimit, savedSteps
		if r := recover(); r != nil {
			if _, ok := r.(nonTermination); ok {
				res = p.tc.ff
				return
			}
			panic(r)
		}
	}()
	p.call(caller, args[0], nil, nil)
	return p.tc.tt
}
