package main

import (
	"encoding/json"
	"fmt"
	"os"
	"path/filepath"
	"sort"
	"time"
)

func writeEvidenceFailure(prop, tier string, seed int64, wall time.Duration, reason string) {
	ev := map[string]any{
		"property_id": prop, "tier": tier, "seed": seed, "level": "model_checking",
		"coverage": map[string]any{
			"evaluations": 0, "distinct_nontrivial": 0, "inconclusive": []string{reason},
			"explanation": "the check could not run: " + reason,
		},
		"assumptions": []string{}, "wall_s": wall.Seconds(), "violations": 0,
	}
	b, _ := json.MarshalIndent(ev, "", " ")
	os.MkdirAll(filepath.Join(verifDir, "evidence"), 0o755)
	os.WriteFile(filepath.Join(verifDir, "evidence", prop+".json"), b, 0o644)
}

func sortedKeys(m map[string]bool) []string {
	out := make([]string, 0, len(m))
	for k := range m {
		out = append(out, k)
	}
	sort.Strings(out)
	return out
}

func writeEvidence(prop, tier string, seed int64, reports []*harnessReport, solvers []string, load, wall time.Duration, known []knownFinding, scan *scanResult) {
	var states, transitions, traces, obligations, discharged, violations int
	var samples []any
	funcs := map[string]bool{}
	stubsUsed := map[string]bool{}
	assumptions := map[string]bool{}
	var q QueryStats
	bounds := map[string]any{}
	var inconcl []string
	var knownHit []string
	perHarness := []any{}
	vac := map[string]any{}
	for _, rep := range reports {
		h := map[string]any{"harness": rep.Spec.Func, "package": rep.Spec.Pkg, "bounds": rep.Spec.Bounds}
		ts := rep.Spec.Quick
		if tier == "thorough" && (rep.Spec.Thorough.MaxPaths != 0 || rep.Spec.Thorough.Params != nil) {
			ts = rep.Spec.Thorough
		}
		bounds[rep.Spec.Func] = map[string]any{"text": rep.Spec.Bounds, "params": ts.Params, "permute_map_ranges": rep.Spec.PermuteMaps}
		for _, r := range rep.Inconclusive {
			inconcl = append(inconcl, rep.Spec.Func+": "+r)
		}
		if rep.Res != nil {
			r := rep.Res
			states += r.Paths
			transitions += r.Steps
			q.add(&r.Stats)
			for k := range r.Funcs {
				funcs[k] = true
			}
			for k := range r.Stubs {
				stubsUsed[k] = true
			}
			for k := range r.Assumptions {
				assumptions[k] = true
			}
			obl := 0
			dis := 0
			clauses := map[string]any{}
			for c, n := range r.Reached {
				obl += n
				ok := r.AssertsOK[c] + r.AssertsFold[c]
				dis += ok
				clauses[c] = map[string]int{"reached": n, "proved_unsat": r.AssertsOK[c], "folded_constant_true": r.AssertsFold[c]}
			}
			obligations += obl
			discharged += dis
			h["paths"] = r.Paths
			h["infeasible_paths"] = r.Infeasible
			h["ssa_instructions"] = r.Steps
			h["assertions"] = clauses
			h["env_choice_points"] = r.EnvChoices
			h["wall_s"] = r.Wall.Seconds()
			h["differential_runs"] = rep.DiffRuns
			h["differential_agree"] = rep.DiffAgree
			h["replays"] = rep.ReplayRuns
			h["replays_reproduced"] = rep.ReplayAgree
			for i, s := range r.Samples {
				if i < 2 {
					samples = append(samples, map[string]any{"harness": rep.Spec.Func, "path": s})
				}
			}
			for _, v := range rep.Confirmed {
				samples = append(samples, map[string]any{"harness": rep.Spec.Func, "violation": v})
			}
			for c, v := range r.KnownHits {
				knownHit = append(knownHit, c)
				samples = append(samples, map[string]any{"harness": rep.Spec.Func, "known_finding_witness": v})
			}
			vac[rep.Spec.Func] = rep.Vacuity
		}
		traces += rep.DiffAgree + rep.ReplayAgree
		violations += len(rep.Confirmed)
		perHarness = append(perHarness, h)
	}
	sort.Strings(knownHit)
	if len(samples) == 0 {
		samples = append(samples, "no path completed")
	}
	as := sortedKeys(assumptions)
	as = append(as,
		"go/packages + go/ssa give an IR faithful to /repo's source (regenerated on this run)",
		"interpreter semantics of the SSA instruction set and the library contract stubs listed in coverage.stubs_used (checked on this run by the differential twin, coverage.traces_validated_against_impl)",
		"solver soundness ("+fmt.Sprint(solvers)+")",
		"bounds as listed in coverage.bounds; nothing outside them is claimed",
	)
	cov := map[string]any{
		"states":                        states,
		"transitions":                   transitions,
		"traces_validated_against_impl": traces,
		"samples":                       samples,
		"obligations":                   obligations,
		"discharged":                    discharged,
		"functions_encoded":             sortedKeys(funcs),
		"stubs_used":                    sortedKeys(stubsUsed),
		"bounds":                        bounds,
		"queries": map[string]any{
			"branch_feasibility": q.Branch, "assertion": q.Assert, "witness": q.Witness, "model_extraction": q.Model,
			"sat": q.Sat, "unsat": q.Unsat, "unknown": q.Unknown, "decided_by_constant_folding": q.Folded,
			"cross_checked": q.CrossChecked, "cross_solver_disagreements": q.CrossDisagree,
		},
		"solver_time_s":      q.SolverTime.Seconds(),
		"load_and_ssa_s":     load.Seconds(),
		"solvers":            solvers,
		"vacuity":            vac,
		"inconclusive":       inconcl,
		"known_findings_hit": knownHit,
		"harnesses":          perHarness,
		"exhaustive":         false,
		"explanation":        "bounded symbolic execution of the real SSA of /repo; states = feasible symbolic paths completed, transitions = SSA instructions interpreted, obligations = assertion instances reached, discharged = proved unsat (or folded to true) within the bounds",
	}
	if scan != nil {
		cov["map_range_sites"] = scan.Sites
		cov["map_range_sites_uncovered"] = scan.Uncovered
		cov["run_dependent_value_sources"] = scan.RunDependent
		cov["goroutine_start_sites"] = scan.GoSites
		cov["goroutine_start_sites_uncovered"] = scan.GoUncovered
		cov["map_range_table_stale_entries"] = scan.Stale
		for _, u := range scan.Uncovered {
			inconcl = append(inconcl, "uncovered map range in "+u)
		}
		cov["inconclusive"] = inconcl
	}
	ev := map[string]any{
		"property_id": prop, "tier": tier, "seed": seed, "level": "model_checking",
		"coverage": cov, "assumptions": as, "wall_s": wall.Seconds(), "violations": violations,
	}
	b, _ := json.MarshalIndent(ev, "", " ")
	os.MkdirAll(filepath.Join(verifDir, "evidence"), 0o755)
	os.WriteFile(filepath.Join(verifDir, "evidence", prop+".json"), b, 0o644)
}
