package main

// Environment world: real Go objects of go/types, go/constant, regexp live in the engine
// process ("host" values). Symbolic strings cross the boundary as sentinels that are spliced
// back when a host function returns text.

import (
	"errors"
	"fmt"
	"go/constant"
	"go/token"
	"go/types"
	"reflect"
	"regexp"
	"runtime"
	"strconv"
	"strings"
	"unicode"

	"golang.org/x/tools/go/ssa"
)

type hostTypeInfo struct{}

type hostFunc struct {
	recv   host
	errv   *errorV
	method string
}

const sentOpen, sentClose = "⟦", "⟧"

var sentRe = regexp.MustCompile(sentOpen + `(\d+)` + sentClose)

const intSentinelBase = int64(7700000000000000000)

// hostFuncs: package-level functions of the world that may be called natively.
var hostFuncs = map[string]interface{}{
	"go/types.NewPackage":       types.NewPackage,
	"go/types.NewTypeName":      types.NewTypeName,
	"go/types.NewNamed":         types.NewNamed,
	"go/types.NewVar":           types.NewVar,
	"go/types.NewField":         types.NewField,
	"go/types.NewParam":         types.NewParam,
	"go/types.NewStruct":        types.NewStruct,
	"go/types.NewConst":         types.NewConst,
	"go/types.NewSlice":         types.NewSlice,
	"go/types.NewArray":         types.NewArray,
	"go/types.NewMap":           types.NewMap,
	"go/types.NewPointer":       types.NewPointer,
	"go/types.NewChan":          types.NewChan,
	"go/types.NewInterfaceType": types.NewInterfaceType,
	"go/types.NewTuple":         types.NewTuple,
	"go/types.NewSignatureType": types.NewSignatureType,
	"go/types.NewFunc":          types.NewFunc,
	"go/types.NewScope":         types.NewScope,
	"go/types.NewTypeParam":     types.NewTypeParam,
	"go/types.NewAlias":         types.NewAlias,
	"go/types.Unalias":          types.Unalias,
	"go/types.TypeString":       types.TypeString,
	"go/types.ObjectString":     types.ObjectString,
	"go/types.Identical":        types.Identical,
	"go/types.ExprString":       types.ExprString,
	"go/types.Eval":             types.Eval,
	"go/types.Implements":       types.Implements,
	"go/types.AssignableTo":     types.AssignableTo,
	"go/types.Instantiate":      types.Instantiate,
	"go/types.NewContext":       types.NewContext,
	"go/types.RelativeTo":       types.RelativeTo,
	"go/types.NewMethodSet":     types.NewMethodSet,
	"go/types.SizesFor":         types.SizesFor,
	"go/constant.MakeString":    constant.MakeString,
	"go/constant.MakeBool":      constant.MakeBool,
	"go/constant.MakeUint64":    constant.MakeUint64,
	"go/constant.MakeFloat64":   constant.MakeFloat64,
	"go/constant.StringVal":     constant.StringVal,
	"go/constant.BoolVal":       constant.BoolVal,
	"go/constant.MakeFromLiteral": func(lit string, tok token.Token, zero uint) constant.Value {
		return constant.MakeFromLiteral(lit, tok, zero)
	},
	"regexp.MustCompile": regexp.MustCompile,
	// pure library functions without a symbolic stub: run natively on concrete arguments only
	"strings.FieldsFunc":   strings.FieldsFunc,
	"strings.Replace":      strings.Replace,
	"strings.LastIndexAny": strings.LastIndexAny,
	"strings.SplitAfter":   strings.SplitAfter,
	"strings.TrimLeft":     strings.TrimLeft,
	"strings.TrimRight":    strings.TrimRight,
	"strings.Trim":         strings.Trim,
	"strings.ContainsRune": strings.ContainsRune,
	"strings.ContainsAny":  strings.ContainsAny,
	"strings.IndexAny":     strings.IndexAny,
	"strings.IndexRune":    strings.IndexRune,
	"strings.SplitN":       strings.SplitN,
	"strings.TrimFunc":     strings.TrimFunc,
	"strings.IndexFunc":    strings.IndexFunc,
	"strings.Map":          strings.Map,
	"strings.ToTitle":      strings.ToTitle,
	"strings.Compare":      strings.Compare,
	"strconv.Atoi":         strconv.Atoi,
	"strconv.FormatInt":    strconv.FormatInt,
	"strconv.ParseInt":     strconv.ParseInt,
	"strconv.Unquote":      strconv.Unquote,
	"unicode.IsSpace":      unicode.IsSpace,
	"unicode.IsPunct":      unicode.IsPunct,
	"go/token.NewFileSet":  token.NewFileSet,
}

var hostGlobals = map[string]interface{}{
	"go/types.Typ":      types.Typ,
	"go/types.Universe": types.Universe,
}

func (p *path) hostGlobal(g *ssa.Global) (value, bool) {
	if v, ok := hostGlobals[g.Pkg.Pkg.Path()+"."+g.Name()]; ok {
		return p.fromHost(reflect.ValueOf(v)), true
	}
	return nil, false
}

// sentinelize turns a Str into a Go string in which every maximal run of symbolic bytes is a
// sentinel. quoteSafe adds the assumption that symbolic bytes survive %q / strconv.Quote verbatim.
func (p *path) sentinelize(s Str, quoteSafe bool) string {
	var sb strings.Builder
	i := 0
	for i < len(s.b) {
		if s.b[i].IsConst() {
			sb.WriteByte(byte(s.b[i].val))
			i++
			continue
		}
		j := i
		for j < len(s.b) && !s.b[j].IsConst() {
			j++
		}
		run := Str{s.b[i:j]}
		if quoteSafe {
			p.note("symbolic bytes printed with %q / quoted by go/constant are printable ASCII without quote and backslash")
			c := p.tc.tt
			for _, b := range run.b {
				c = p.tc.And(c, p.classTerm(b, "tag", false))
			}
			p.assumeTerm(c)
		}
		id := len(p.sentinels)
		p.sentinels = append(p.sentinels, run)
		sb.WriteString(sentOpen + strconv.Itoa(id) + sentClose)
		i = j
	}
	return sb.String()
}

func (p *path) splice(s string) Str {
	if !strings.Contains(s, sentOpen) {
		if strings.Contains(s, "7700000000000000") {
			p.unsupported("a symbolic integer constant was printed")
		}
		return p.mkStr(s)
	}
	var out []*Term
	last := 0
	for _, m := range sentRe.FindAllStringSubmatchIndex(s, -1) {
		out = append(out, p.mkStr(s[last:m[0]]).b...)
		id, _ := strconv.Atoi(s[m[2]:m[3]])
		if id >= len(p.sentinels) {
			p.unsupported("unknown sentinel in host string")
		}
		out = append(out, p.sentinels[id].b...)
		last = m[1]
	}
	out = append(out, p.mkStr(s[last:]).b...)
	return Str{out}
}

func hasSymbolic(s Str) bool { return !s.IsConcrete() }

// progType maps a reflect type of a host object to the go/types type of the analysed program.
func (p *path) progType(rt reflect.Type) types.Type {
	switch rt.Kind() {
	case reflect.Ptr:
		return types.NewPointer(p.progType(rt.Elem()))
	case reflect.Slice:
		return types.NewSlice(p.progType(rt.Elem()))
	}
	if rt.PkgPath() == "" {
		switch rt.Kind() {
		case reflect.String:
			return types.Typ[types.String]
		case reflect.Int:
			return types.Typ[types.Int]
		case reflect.Int64:
			return types.Typ[types.Int64]
		case reflect.Bool:
			return types.Typ[types.Bool]
		}
		p.unsupported("host value of unnamed type " + rt.String())
	}
	pkg := p.eng.prog.ImportedPackage(rt.PkgPath())
	if pkg == nil {
		p.unsupported("host value of a type from a package the program does not import: " + rt.String())
	}
	obj := pkg.Pkg.Scope().Lookup(rt.Name())
	if obj == nil {
		p.unsupported("host type not found in program: " + rt.String())
	}
	return obj.Type()
}

func (p *path) fromHost(rv reflect.Value) value {
	tc := p.tc
	switch rv.Kind() {
	case reflect.String:
		return p.splice(rv.String())
	case reflect.Bool:
		return tc.Bool(rv.Bool())
	case reflect.Int, reflect.Int64:
		return tc.BV(64, uint64(rv.Int()))
	case reflect.Int32:
		return tc.BV(32, uint64(rv.Int()))
	case reflect.Int16:
		return tc.BV(16, uint64(rv.Int()))
	case reflect.Int8:
		return tc.BV(8, uint64(rv.Int()))
	case reflect.Uint, reflect.Uint64, reflect.Uintptr:
		return tc.BV(64, rv.Uint())
	case reflect.Uint32:
		return tc.BV(32, rv.Uint())
	case reflect.Uint16:
		return tc.BV(16, rv.Uint())
	case reflect.Uint8:
		return tc.BV(8, rv.Uint())
	case reflect.Interface:
		if rv.IsNil() {
			return iface{}
		}
		el := rv.Elem()
		if err, ok := el.Interface().(error); ok && el.Type().PkgPath() != "go/types" {
			e := p.newError(p.splice(err.Error()), "")
			return iface{t: errorDynType, v: e}
		}
		return iface{t: p.progType(el.Type()), v: host{el.Interface()}}
	case reflect.Ptr, reflect.Map, reflect.Func, reflect.Struct:
		return host{rv.Interface()}
	case reflect.Slice:
		if rv.IsNil() {
			return []value(nil)
		}
		out := make([]value, rv.Len())
		for i := range out {
			out[i] = p.fromHost(rv.Index(i))
		}
		return out
	}
	p.unsupported("host result of kind " + rv.Kind().String())
	return nil
}

var errorDynType = types.NewPointer(types.NewNamed(types.NewTypeName(token.NoPos, nil, "engineError", nil), types.NewStruct(nil, nil), nil))

func (p *path) newError(msg Str, kind string) *errorV {
	p.errCount++
	return &errorV{msg: msg, id: p.errCount, kind: kind}
}

func (p *path) mkErrorIface(msg Str) iface {
	return iface{t: errorDynType, v: p.newError(msg, "")}
}

// toHost converts an interpreter value to a reflect.Value of type rt.
func (p *path) toHost(v value, rt reflect.Type, quoteSafe bool) reflect.Value {
	switch rt.Kind() {
	case reflect.String:
		s, ok := v.(Str)
		if !ok {
			p.unsupported(fmt.Sprintf("host string argument from %T", v))
		}
		return reflect.ValueOf(p.sentinelize(s, quoteSafe)).Convert(rt)
	case reflect.Bool:
		t := v.(*Term)
		if !t.IsConst() {
			p.unsupported("symbolic bool passed to the environment")
		}
		return reflect.ValueOf(t.val == 1).Convert(rt)
	case reflect.Int, reflect.Int8, reflect.Int16, reflect.Int32, reflect.Int64:
		t := v.(*Term)
		if !t.IsConst() {
			p.unsupported("symbolic integer passed to the environment")
		}
		return reflect.ValueOf(t.Int64()).Convert(rt)
	case reflect.Uint, reflect.Uint8, reflect.Uint16, reflect.Uint32, reflect.Uint64, reflect.Uintptr:
		t := v.(*Term)
		if !t.IsConst() {
			p.unsupported("symbolic integer passed to the environment")
		}
		return reflect.ValueOf(t.val).Convert(rt)
	case reflect.Interface:
		if i, ok := v.(iface); ok {
			if i.t == nil {
				return reflect.Zero(rt)
			}
			if c, isCell := i.v.(*value); isCell {
				if rv, ok := p.hostOfCell(c); ok {
					return rv
				}
			}
			x := p.toAny(i, quoteSafe)
			if x == nil {
				return reflect.Zero(rt)
			}
			xv := reflect.ValueOf(x)
			if !xv.Type().AssignableTo(rt) {
				p.unsupported(fmt.Sprintf("cannot pass %T as %s", x, rt))
			}
			return xv
		}
		if h, ok := v.(host); ok {
			if h.v == nil {
				return reflect.Zero(rt)
			}
			return reflect.ValueOf(h.v)
		}
	case reflect.Ptr:
		switch x := v.(type) {
		case host:
			if x.v == nil {
				return reflect.Zero(rt)
			}
			return reflect.ValueOf(x.v)
		case *value:
			if x == nil {
				return reflect.Zero(rt)
			}
			if rv, ok := p.hostOfCell(x); ok {
				return rv // a syntax node imported by vfTypeCheck: give the original back
			}
			if h, ok := (*x).(host); ok && h.v == nil {
				return reflect.New(rt.Elem()) // &T{} of a host struct type
			}
			if st, ok := (*x).(structure); ok {
				_ = st
				return reflect.New(rt.Elem())
			}
		}
	case reflect.Slice:
		s, ok := v.([]value)
		if !ok {
			break
		}
		if s == nil {
			return reflect.Zero(rt)
		}
		out := reflect.MakeSlice(rt, len(s), len(s))
		for i, x := range s {
			out.Index(i).Set(p.toHost(x, rt.Elem(), quoteSafe))
		}
		return out
	case reflect.Func:
		if nilv, known := isNilValue(v); known && nilv {
			return reflect.Zero(rt)
		}
		fn := v
		return reflect.MakeFunc(rt, func(in []reflect.Value) []reflect.Value {
			args := make([]value, len(in))
			for i := range in {
				args[i] = p.fromHost(in[i])
			}
			res := p.call(nil, fn, args, nil)
			var outs []reflect.Value
			switch rt.NumOut() {
			case 0:
			case 1:
				outs = append(outs, p.toHost(res, rt.Out(0), false))
			default:
				for i, r := range res.(tuple) {
					outs = append(outs, p.toHost(r, rt.Out(i), false))
				}
			}
			return outs
		})
	case reflect.Struct, reflect.Map:
		if h, ok := v.(host); ok && h.v != nil {
			return reflect.ValueOf(h.v)
		}
	}
	p.unsupported(fmt.Sprintf("cannot convert %T to host %s", v, rt))
	return reflect.Value{}
}

// toAny converts an interface value into a Go value for fmt and friends.
func (p *path) toAny(i iface, quoteSafe bool) interface{} {
	if i.t == nil {
		return nil
	}
	switch x := i.v.(type) {
	case host:
		return x.v
	case *errorV:
		if x == nil {
			return nil
		}
		return errors.New(p.sentinelize(x.msg, quoteSafe))
	case Str:
		if m := p.stringerOf(i.t); m != nil {
			r := p.callFunction(nil, m, []value{x}, nil)
			return p.sentinelize(r.(Str), quoteSafe)
		}
		return p.sentinelize(x, quoteSafe)
	case *Term:
		if m := p.stringerOf(i.t); m != nil {
			r := p.callFunction(nil, m, []value{x}, nil)
			return p.sentinelize(r.(Str), quoteSafe)
		}
		if !x.IsConst() {
			lo, hi, ok := p.rangeOf(x)
			if !ok {
				p.unsupported("symbolic integer of unknown magnitude is printed")
			}
			p.concreteInt(x, lo, hi, "printed integer")
			// after the forks the term is pinned: evaluate through the solver-free route
			x = p.pinned(x)
		}
		b, _ := i.t.Underlying().(*types.Basic)
		if b == nil {
			p.unsupported("printing a scalar of type " + i.t.String())
		}
		switch b.Kind() {
		case types.Bool, types.UntypedBool:
			return x.val == 1
		case types.Int, types.UntypedInt:
			return int(x.Int64())
		case types.Int8:
			return int8(x.Int64())
		case types.Int16:
			return int16(x.Int64())
		case types.Int32, types.UntypedRune:
			return int32(x.Int64())
		case types.Int64:
			return x.Int64()
		case types.Uint:
			return uint(x.val)
		case types.Uint8:
			return uint8(x.val)
		case types.Uint16:
			return uint16(x.val)
		case types.Uint32:
			return uint32(x.val)
		case types.Uint64, types.Uintptr:
			return x.val
		}
	case []value:
		out := make([]interface{}, len(x))
		var et types.Type
		switch u := i.t.Underlying().(type) {
		case *types.Slice:
			et = u.Elem()
		}
		for k, e := range x {
			if ei, ok := e.(iface); ok {
				out[k] = p.toAny(ei, quoteSafe)
			} else if et != nil {
				out[k] = p.toAny(iface{t: et, v: e}, quoteSafe)
			}
		}
		return out
	case *value:
		// pointer to an interpreted object with a String/Error method
		if m := p.stringerOf(i.t); m != nil {
			r := p.callFunction(nil, m, []value{x}, nil)
			return p.sentinelize(r.(Str), quoteSafe)
		}
	case structure:
		if m := p.stringerOf(i.t); m != nil {
			r := p.callFunction(nil, m, []value{x}, nil)
			return p.sentinelize(r.(Str), quoteSafe)
		}
	}
	p.unsupported(fmt.Sprintf("cannot print a %s (%T)", i.t, i.v))
	return nil
}

// stringerOf finds an interpreted Error() or String() method of a dynamic type.
func (p *path) stringerOf(t types.Type) *ssa.Function {
	if _, ok := t.(*types.Basic); ok {
		return nil
	}
	ms := p.eng.prog.MethodSets.MethodSet(t)
	for _, name := range []string{"Error", "String"} {
		for i := 0; i < ms.Len(); i++ {
			sel := ms.At(i)
			if sel.Obj().Name() == name {
				sig := sel.Type().(*types.Signature)
				if sig.Params().Len() == 0 && sig.Results().Len() == 1 && isString(sig.Results().At(0).Type()) {
					f := p.eng.prog.MethodValue(sel)
					if f != nil && p.eng.interpretable(f) {
						return f
					}
				}
			}
		}
	}
	return nil
}

// rangeOf returns a small range known for an input integer.
func (p *path) rangeOf(t *Term) (int64, int64, bool) {
	if r, ok := p.intRanges[t]; ok {
		return r[0], r[1], true
	}
	return 0, 0, false
}

// pinned returns the constant an integer term was forced to by concreteInt.
func (p *path) pinned(t *Term) *Term {
	if v, ok := p.pins[t]; ok {
		return p.tc.BV(t.sort, uint64(v))
	}
	p.unsupported("internal: unpinned symbolic integer")
	return nil
}

// ---------------------------------------------------------------------------

func isHostRecv(t types.Type) bool {
	if pt, ok := t.(*types.Pointer); ok {
		t = pt.Elem()
	}
	return isHostNamed(t)
}

// hostCall performs a native call of a world function or method.
func (p *path) hostCall(fn *ssa.Function, args []value) (value, bool) {
	if recv := fn.Signature.Recv(); recv != nil && isHostRecv(recv.Type()) {
		h, ok := args[0].(host)
		if !ok {
			if i, isI := args[0].(iface); isI {
				if hh, isH := i.v.(host); isH {
					h, ok = hh, true
				}
			}
		}
		if !ok {
			// e.g. method on a named basic type of the world (types.BasicInfo ...): not needed so far
			p.unsupported(fmt.Sprintf("method %s on %T", fn.String(), args[0]))
		}
		return hostFunc{recv: h, method: fn.Name()}.call(p, args[1:]), true
	}
	name := fn.String()
	if f, ok := hostFuncs[name]; ok {
		if strings.HasPrefix(name, "strings.") || strings.HasPrefix(name, "strconv.") || strings.HasPrefix(name, "unicode.") {
			for _, a := range args {
				if !p.fullyConcrete(a) {
					p.unsupported(name + " on a symbolic argument (no symbolic stub)")
				}
			}
		}
		p.stubs[name+" (native)"] = true
		return p.callNative(reflect.ValueOf(f), args, name), true
	}
	return nil, false
}

func (p *path) callNative(f reflect.Value, args []value, name string) value {
	ft := f.Type()
	var in []reflect.Value
	quoteSafe := strings.HasPrefix(name, "go/constant.")
	for i, a := range args {
		var pt reflect.Type
		if ft.IsVariadic() && i >= ft.NumIn()-1 {
			pt = ft.In(ft.NumIn() - 1)
			if i == ft.NumIn()-1 {
				// SSA passes the variadic slice as one argument
				sv := p.toHost(a, pt, quoteSafe)
				for k := 0; k < sv.Len(); k++ {
					in = append(in, sv.Index(k))
				}
				continue
			}
		} else {
			pt = ft.In(i)
		}
		in = append(in, p.toHost(a, pt, quoteSafe))
	}
	var outs []reflect.Value
	func() {
		defer func() {
			if r := recover(); r != nil {
				switch r.(type) {
				case pathAbort, targetPanic, specAbort:
					panic(r)
				}
				if re, isRT := r.(runtime.Error); isRT {
					// e.g. a method of go/types dereferencing a nil receiver
					panic(targetPanic{runtime: true, kind: re.Error(), where: name, v: p.mkStr("runtime error: " + re.Error())})
				}
				// the real library panicked (e.g. types.NewNamed misuse): an explicit panic of the world
				panic(targetPanic{v: iface{t: types.Typ[types.String], v: p.mkStr(fmt.Sprint(r))}, where: name})
			}
		}()
		outs = f.Call(in)
	}()
	switch len(outs) {
	case 0:
		return nil
	case 1:
		return p.fromHost(outs[0])
	}
	t := make(tuple, len(outs))
	for i, o := range outs {
		t[i] = p.fromHost(o)
	}
	return t
}

func (hf hostFunc) call(p *path, args []value) value {
	if hf.errv != nil || (hf.recv.v == nil && hf.method == "Error") {
		if hf.method == "Error" {
			if hf.errv == nil {
				p.runtimePanic("nil pointer dereference", "error.Error")
			}
			return hf.errv.msg
		}
		p.unsupported("method " + hf.method + " on an engine error")
	}
	if hf.recv.v == nil {
		p.runtimePanic("nil pointer dereference (method "+hf.method+" on nil)", "")
	}
	rv := reflect.ValueOf(hf.recv.v)
	full := fmt.Sprintf("(%s).%s", rv.Type(), hf.method)
	if st, ok := hostMethodStubs[hf.method]; ok {
		if v, handled := st(p, hf.method, hf.recv, args); handled {
			p.stubs[full+" (stub)"] = true
			return v
		}
	}
	m := rv.MethodByName(hf.method)
	if !m.IsValid() {
		p.unsupported("no method " + full)
	}
	p.stubs[full+" (native)"] = true
	return p.callNative(m, args, full)
}

func (p *path) fullyConcrete(v value) bool {
	switch v := v.(type) {
	case Str:
		return v.IsConcrete()
	case *Term:
		return v.IsConst()
	case []value:
		for _, x := range v {
			if !p.fullyConcrete(x) {
				return false
			}
		}
	case iface:
		return v.t == nil || p.fullyConcrete(v.v)
	}
	return true
}
