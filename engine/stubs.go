package main

// Contract stubs of library functions (strings, fmt, sort, reflect.StructTag, unicode, ...).
// With fully concrete arguments the real function is called (exact semantics).

import (
	"fmt"
	"go/types"
	pathpkg "path"
	"path/filepath"
	"reflect"
	"strconv"
	"strings"
	"unicode"
	"unicode/utf8"
)

type stubFn func(p *path, caller *frame, args []value) value

var stubs map[string]stubFn

type replacerV struct{ pairs []Str }

func init() {
	stubs = map[string]stubFn{
		"fmt.Sprintf": stubSprintf,
		"fmt.Errorf": func(p *path, c *frame, a []value) value {
			if f, ok := a[0].(Str); ok && f.IsConcrete() && strings.Contains(f.Concrete(), "%w") {
				a = append([]value{p.mkStr(strings.ReplaceAll(f.Concrete(), "%w", "%v"))}, a[1:]...)
			}
			return p.mkErrorIface(stubSprintf(p, c, a).(Str))
		},
		"fmt.Sprint":   stubSprint,
		"fmt.Sprintln": func(p *path, c *frame, a []value) value { return concatStr(stubSprint(p, c, a).(Str), p.mkStr("\n")) },
		"fmt.Println":  stubNop,
		"fmt.Printf":   stubNop,
		"fmt.Print":    stubNop,
		"log.Printf":   stubNop,
		"log.Println":  stubNop,
		"log.Print":    stubNop,
		"errors.New":   func(p *path, _ *frame, a []value) value { return p.mkErrorIface(a[0].(Str)) },

		"strings.Join":      stubJoin,
		"strings.Contains":  func(p *path, _ *frame, a []value) value { return p.strContains(a[0].(Str), a[1].(Str)) },
		"strings.HasPrefix": func(p *path, _ *frame, a []value) value { return p.strHasPrefix(a[0].(Str), a[1].(Str)) },
		"strings.HasSuffix": func(p *path, _ *frame, a []value) value { return p.strHasSuffix(a[0].(Str), a[1].(Str)) },
		"strings.Index":     stubIndex,
		"strings.IndexByte": stubIndexByte,
		"strings.LastIndex": stubLastIndex,
		"strings.LastIndexByte": func(p *path, _ *frame, a []value) value {
			s, c := a[0].(Str), a[1].(*Term)
			r := p.tc.BV(64, ^uint64(0))
			for i := 0; i < len(s.b); i++ {
				r = p.tc.Ite(p.tc.Eq(s.b[i], c), p.tc.BV(64, uint64(i)), r)
			}
			return r
		},
		"strings.Cut":        stubCut,
		"strings.Split":      stubSplit,
		"strings.ToLower":    func(p *path, _ *frame, a []value) value { return p.strMapCase(a[0].(Str), false) },
		"strings.ToUpper":    func(p *path, _ *frame, a []value) value { return p.strMapCase(a[0].(Str), true) },
		"strings.Title":      stubTitle,
		"strings.TrimSpace":  stubTrimSpace,
		"strings.TrimPrefix": stubTrimPrefix,
		"strings.TrimSuffix": stubTrimSuffix,
		"strings.CutPrefix": func(p *path, _ *frame, a []value) value {
			s, pre := a[0].(Str), a[1].(Str)
			if len(pre.b) <= len(s.b) && p.branch(p.strHasPrefix(s, pre)) {
				return tuple{Str{s.b[len(pre.b):]}, p.tc.tt}
			}
			return tuple{s, p.tc.ff}
		},
		"strings.CutSuffix": func(p *path, _ *frame, a []value) value {
			s, suf := a[0].(Str), a[1].(Str)
			if len(suf.b) <= len(s.b) && p.branch(p.strHasSuffix(s, suf)) {
				return tuple{Str{s.b[:len(s.b)-len(suf.b)]}, p.tc.tt}
			}
			return tuple{s, p.tc.ff}
		},
		"strings.ReplaceAll": stubReplaceAll,
		"strings.TrimRight":  func(p *path, _ *frame, a []value) value { return p.trimCutset(a[0].(Str), a[1].(Str), false, true) },
		"strings.TrimLeft":   func(p *path, _ *frame, a []value) value { return p.trimCutset(a[0].(Str), a[1].(Str), true, false) },
		"strings.Trim":       func(p *path, _ *frame, a []value) value { return p.trimCutset(a[0].(Str), a[1].(Str), true, true) },
		"strings.Repeat":     stubRepeat,
		"strings.Fields":     stubFields,
		"strings.EqualFold":  stubEqualFold,
		"strings.Count":      stubCount,

		"(*strings.Builder).WriteString": stubBuilderWriteString,
		"(*strings.Builder).WriteByte":   stubBuilderWriteByte,
		"(*strings.Builder).WriteRune":   stubBuilderWriteRune,
		"(*strings.Builder).String":      stubBuilderString,
		"(*strings.Builder).Len":         stubBuilderLen,
		"(*strings.Builder).Reset":       stubBuilderReset,
		"(*strings.Builder).Grow":        stubNop,
		"strings.NewReplacer":            stubNewReplacer,
		"(*strings.Replacer).Replace":    stubReplacerReplace,

		"sort.Slice":       func(p *path, c *frame, a []value) value { return stubSortSlice(p, c, a, false) },
		"sort.SliceStable": func(p *path, c *frame, a []value) value { return stubSortSlice(p, c, a, true) },
		"sort.Sort":        func(p *path, c *frame, a []value) value { return stubSortSort(p, c, a, false) },
		"sort.Stable":      func(p *path, c *frame, a []value) value { return stubSortSort(p, c, a, true) },
		"sort.Strings":     stubSortStrings,

		"(reflect.StructTag).Get":    stubTagGet,
		"(reflect.StructTag).Lookup": stubTagLookup,

		"unicode/utf8.DecodeRuneInString": stubDecodeRuneInString,
		"unicode/utf8.RuneCountInString":  stubRuneCount,
		"unicode.ToLower":                 func(p *path, _ *frame, a []value) value { return p.runeCase(a[0].(*Term), false) },
		"unicode.ToUpper":                 func(p *path, _ *frame, a []value) value { return p.runeCase(a[0].(*Term), true) },
		"unicode.IsUpper":                 func(p *path, _ *frame, a []value) value { return p.runeClass(a[0].(*Term), "upper") },
		"unicode.IsLower":                 func(p *path, _ *frame, a []value) value { return p.runeClass(a[0].(*Term), "lower") },
		"unicode.IsLetter":                func(p *path, _ *frame, a []value) value { return p.runeClass(a[0].(*Term), "alpha") },
		"unicode.IsDigit":                 func(p *path, _ *frame, a []value) value { return p.runeClass(a[0].(*Term), "digit") },

		"strconv.Itoa":  stubItoa,
		"strconv.Quote": stubQuote,

		"path.Dir":            stubNativeStr1(pathpkg.Dir),
		"path.Base":           stubNativeStr1(pathpkg.Base),
		"path.Join":           stubPathJoin,
		"path/filepath.Dir":   stubNativeStr1(filepath.Dir),
		"path/filepath.Base":  stubNativeStr1(filepath.Base),
		"path/filepath.Clean": stubNativeStr1(filepath.Clean),
		"path/filepath.IsAbs": func(p *path, _ *frame, a []value) value {
			s := a[0].(Str)
			if len(s.b) == 0 {
				return p.tc.ff
			}
			return p.tc.Eq(s.b[0], p.byteConst('/'))
		},
		"path/filepath.Join": func(p *path, _ *frame, a []value) value {
			var parts []string
			for _, e := range a[0].([]value) {
				s := e.(Str)
				if !s.IsConcrete() {
					p.unsupported("filepath.Join on a symbolic string")
				}
				parts = append(parts, s.Concrete())
			}
			return p.mkStr(filepath.Join(parts...))
		},

		"go/constant.MakeInt64": stubMakeInt64,
		"go/constant.Int64Val":  stubInt64Val,
		"go/constant.Uint64Val": stubUint64Val,

		"go/token.IsExported": func(p *path, _ *frame, a []value) value { return p.nameExported(a[0].(Str)) },
	}
	for k, v := range threadStubs {
		stubs[k] = v
	}
	stubs["sort.Search"] = func(p *path, caller *frame, a []value) value {
		// the real binary search, the predicate being called in the interpreter
		nt := a[0].(*Term)
		if !nt.IsConst() {
			p.unsupported("sort.Search on a symbolic length")
		}
		i, j := 0, int(nt.Int64())
		for i < j {
			h := int(uint(i+j) >> 1)
			r := p.call(caller, a[1], []value{p.tc.BV(64, uint64(h))}, nil).(*Term)
			if !p.branch(r) {
				i = h + 1
			} else {
				j = h
			}
		}
		return p.tc.BV(64, uint64(i))
	}
	stubs["sort.SliceIsSorted"] = func(p *path, caller *frame, a []value) value {
		xi, _ := a[0].(iface)
		s, _ := xi.v.([]value)
		for i := len(s) - 1; i > 0; i-- {
			r := p.call(caller, a[1], []value{p.tc.BV(64, uint64(i)), p.tc.BV(64, uint64(i-1))}, nil).(*Term)
			if p.branch(r) {
				return p.tc.ff
			}
		}
		return p.tc.tt
	}
	registerExecStubs()
	registerJSONStubs()
}

func stubNop(p *path, _ *frame, a []value) value { return nil }

func stubNativeStr1(f func(string) string) stubFn {
	return func(p *path, _ *frame, a []value) value {
		s := a[0].(Str)
		if !s.IsConcrete() {
			p.unsupported("path function on a symbolic string")
		}
		return p.mkStr(f(s.Concrete()))
	}
}

func stubPathJoin(p *path, _ *frame, a []value) value {
	var parts []string
	symbolic := false
	for _, e := range a[0].([]value) {
		s := e.(Str)
		if !s.IsConcrete() {
			symbolic = true
			break
		}
		parts = append(parts, s.Concrete())
	}
	if !symbolic {
		return p.mkStr(pathpkg.Join(parts...))
	}
	// symbolic elements: they are assumed to be clean relative paths (symbolic bytes are neither '.'
	// nor a '/' next to another '/' or at an end), for which Join is concatenation with '/'
	p.note("path.Join: symbolic elements are assumed clean (no '.', no empty component)")
	var out []*Term
	for _, e := range a[0].([]value) {
		s := e.(Str)
		if len(s.b) == 0 {
			continue
		}
		if s.IsConcrete() {
			c := pathpkg.Clean(s.Concrete())
			if len(out) > 0 {
				c = strings.TrimPrefix(c, "/")
			}
			s = p.mkStr(c)
		} else {
			for i, b := range s.b {
				if b.IsConst() {
					continue
				}
				p.assumeTerm(p.tc.Not(p.tc.Eq(b, p.byteConst('.'))))
				edge := i == 0 || i == len(s.b)-1
				if edge {
					p.assumeTerm(p.tc.Not(p.tc.Eq(b, p.byteConst('/'))))
				} else {
					p.assumeTerm(p.tc.Not(p.tc.And(p.tc.Eq(b, p.byteConst('/')), p.tc.Eq(s.b[i+1], p.byteConst('/')))))
				}
			}
		}
		if len(out) > 0 {
			out = append(out, p.byteConst('/'))
		}
		out = append(out, s.b...)
	}
	return Str{out}
}

// ---------------------------------------------------------------------------
// fmt

func stubSprintf(p *path, _ *frame, args []value) value {
	f := args[0].(Str)
	format := ""
	if f.IsConcrete() {
		format = f.Concrete()
	} else {
		// a format with symbolic bytes (text spliced into a format string): each symbolic byte is either
		// a '%' (fork; the byte is then fixed) or a literal byte, which travels as a sentinel
		g := Str{b: append([]*Term{}, f.b...)}
		for i, b := range g.b {
			if !b.IsConst() && p.branch(p.tc.Eq(b, p.byteConst('%'))) {
				g.b[i] = p.byteConst('%')
			}
		}
		p.note("fmt.Sprintf with symbolic bytes in its format: a symbolic byte is '%' (explored) or a literal")
		format = p.sentinelize(g, false)
	}
	quote := strings.Contains(format, "%q") || strings.Contains(format, "%#v")
	var hargs []interface{}
	var list []value
	if len(args) > 1 {
		list, _ = args[1].([]value)
	}
	// %T verbs: interpreter values have no Go reflect type; print the static dynamic type instead
	tVerbs := map[int]bool{}
	if strings.Contains(format, "%T") {
		if strings.Contains(format, "%[") {
			p.unsupported("fmt: %T together with explicit argument indexes")
		}
		var nf strings.Builder
		argi := 0
		for i := 0; i < len(format); i++ {
			if format[i] != '%' {
				nf.WriteByte(format[i])
				continue
			}
			j := i + 1
			for j < len(format) && strings.IndexByte("+-# 0123456789.", format[j]) >= 0 {
				j++
			}
			if j >= len(format) {
				nf.WriteString(format[i:])
				break
			}
			if format[j] == '%' {
				nf.WriteString(format[i : j+1])
			} else if format[j] == 'T' {
				nf.WriteString("%s")
				tVerbs[argi] = true
				argi++
			} else {
				nf.WriteString(format[i : j+1])
				argi++
			}
			i = j
		}
		format = nf.String()
	}
	for k, a := range list {
		ai, ok := a.(iface)
		if !ok {
			p.unsupported(fmt.Sprintf("Sprintf argument %T", a))
		}
		if tVerbs[k] {
			if ai.t == nil {
				hargs = append(hargs, "<nil>")
			} else {
				hargs = append(hargs, types.TypeString(ai.t, func(pk *types.Package) string { return pk.Name() }))
			}
			continue
		}
		hargs = append(hargs, p.toAny(ai, quote))
	}
	return p.splice(fmt.Sprintf(format, hargs...))
}

func stubSprint(p *path, _ *frame, args []value) value {
	var hargs []interface{}
	list, _ := args[0].([]value)
	for _, a := range list {
		hargs = append(hargs, p.toAny(a.(iface), false))
	}
	return p.splice(fmt.Sprint(hargs...))
}

// ---------------------------------------------------------------------------
// strings

func (p *path) matchAt(s Str, i int, sub Str) *Term {
	if i < 0 || i+len(sub.b) > len(s.b) {
		return p.tc.ff
	}
	r := p.tc.tt
	for k := range sub.b {
		r = p.tc.And(r, p.tc.Eq(s.b[i+k], sub.b[k]))
		if r.IsFalse() {
			return r
		}
	}
	return r
}

func (p *path) strHasPrefix(s, pre Str) *Term { return p.matchAt(s, 0, pre) }
func (p *path) strHasSuffix(s, suf Str) *Term { return p.matchAt(s, len(s.b)-len(suf.b), suf) }

func (p *path) strContains(s, sub Str) *Term {
	r := p.tc.ff
	for i := 0; i+len(sub.b) <= len(s.b); i++ {
		r = p.tc.Or(r, p.matchAt(s, i, sub))
		if r.IsTrue() {
			return r
		}
	}
	return r
}

// firstMatch forks on the position of the first occurrence of sub in s at or after from (-1: none).
func (p *path) firstMatch(s Str, from int, sub Str) int {
	for i := from; i+len(sub.b) <= len(s.b); i++ {
		if p.branch(p.matchAt(s, i, sub)) {
			return i
		}
	}
	return -1
}

func stubJoin(p *path, _ *frame, a []value) value {
	elems, _ := a[0].([]value)
	sep := a[1].(Str)
	var out []*Term
	for i, e := range elems {
		if i > 0 {
			out = append(out, sep.b...)
		}
		out = append(out, e.(Str).b...)
	}
	return Str{out}
}

// strings.Index: the position of the first occurrence is decided by forking (concrete result), so
// that callers can slice with it.
func stubIndex(p *path, _ *frame, a []value) value {
	s, sub := a[0].(Str), a[1].(Str)
	return p.tc.BV(64, uint64(int64(p.firstMatch(s, 0, sub))))
}

func stubLastIndex(p *path, _ *frame, a []value) value {
	s, sub := a[0].(Str), a[1].(Str)
	for i := len(s.b) - len(sub.b); i >= 0; i-- {
		if p.branch(p.matchAt(s, i, sub)) {
			return p.tc.BV(64, uint64(i))
		}
	}
	return p.tc.BV(64, ^uint64(0))
}

func stubIndexByte(p *path, _ *frame, a []value) value {
	s, c := a[0].(Str), a[1].(*Term)
	r := p.tc.BV(64, ^uint64(0))
	for i := len(s.b) - 1; i >= 0; i-- {
		r = p.tc.Ite(p.tc.Eq(s.b[i], c), p.tc.BV(64, uint64(i)), r)
	}
	return r
}

func stubCount(p *path, _ *frame, a []value) value {
	s, sub := a[0].(Str), a[1].(Str)
	if s.IsConcrete() && sub.IsConcrete() {
		return p.tc.BV(64, uint64(strings.Count(s.Concrete(), sub.Concrete())))
	}
	if len(sub.b) == 0 {
		p.unsupported("strings.Count with an empty separator on symbolic strings")
	}
	n, from := 0, 0
	for {
		i := p.firstMatch(s, from, sub)
		if i < 0 {
			return p.tc.BV(64, uint64(n))
		}
		n++
		from = i + len(sub.b)
	}
}

func stubCut(p *path, _ *frame, a []value) value {
	s, sep := a[0].(Str), a[1].(Str)
	i := p.firstMatch(s, 0, sep)
	if i < 0 {
		return tuple{s, Str{}, p.tc.ff}
	}
	return tuple{Str{s.b[:i]}, Str{s.b[i+len(sep.b):]}, p.tc.tt}
}

func stubSplit(p *path, _ *frame, a []value) value {
	s, sep := a[0].(Str), a[1].(Str)
	if len(sep.b) == 0 {
		p.unsupported("strings.Split with empty separator")
	}
	var out []value
	from := 0
	for {
		i := p.firstMatch(s, from, sep)
		if i < 0 {
			out = append(out, Str{s.b[from:]})
			return out
		}
		out = append(out, Str{s.b[from:i]})
		from = i + len(sep.b)
	}
}

func (p *path) asciiOnly(s Str, what string) {
	c := p.tc.tt
	for _, b := range s.b {
		if !b.IsConst() {
			c = p.tc.And(c, p.tc.Cmp(OpULt, b, p.byteConst(0x80)))
		}
	}
	if !c.IsTrue() {
		p.note("symbolic bytes given to " + what + " are ASCII")
		p.assumeTerm(c)
	}
}

func (p *path) byteCase(b *Term, upper bool) *Term {
	tc := p.tc
	if upper {
		return tc.Ite(p.inRange(b, 'a', 'z'), tc.Bin(OpSub, b, p.byteConst(32)), b)
	}
	return tc.Ite(p.inRange(b, 'A', 'Z'), tc.Bin(OpAdd, b, p.byteConst(32)), b)
}

func (p *path) strMapCase(s Str, upper bool) Str {
	if s.IsConcrete() {
		if upper {
			return p.mkStr(strings.ToUpper(s.Concrete()))
		}
		return p.mkStr(strings.ToLower(s.Concrete()))
	}
	// concrete non-ASCII segments are not supported together with symbolic bytes
	for _, b := range s.b {
		if b.IsConst() && b.val >= 0x80 {
			p.unsupported("case mapping of a partly symbolic non-ASCII string")
		}
	}
	p.asciiOnly(s, "strings.ToLower/ToUpper")
	out := make([]*Term, len(s.b))
	for i, b := range s.b {
		out[i] = p.byteCase(b, upper)
	}
	return Str{out}
}

func stubTitle(p *path, _ *frame, a []value) value {
	s := a[0].(Str)
	if s.IsConcrete() {
		return p.mkStr(strings.Title(s.Concrete()))
	}
	p.asciiOnly(s, "strings.Title")
	tc := p.tc
	out := make([]*Term, len(s.b))
	prevSep := tc.tt
	for i, b := range s.b {
		out[i] = tc.Ite(prevSep, p.byteCase(b, true), b)
		// isSeparator for ASCII: letters, digits and underscore are not separators
		word := tc.Or(tc.Or(p.inRange(b, 'a', 'z'), p.inRange(b, 'A', 'Z')), tc.Or(p.inRange(b, '0', '9'), tc.Eq(b, p.byteConst('_'))))
		prevSep = tc.Not(word)
	}
	return Str{out}
}

func (p *path) isSpaceByte(b *Term) *Term {
	tc := p.tc
	r := tc.Eq(b, p.byteConst(' '))
	for _, c := range []byte{'\t', '\n', '\v', '\f', '\r'} {
		r = tc.Or(r, tc.Eq(b, p.byteConst(c)))
	}
	return r
}

func stubTrimSpace(p *path, _ *frame, a []value) value {
	s := a[0].(Str)
	if s.IsConcrete() {
		return p.mkStr(strings.TrimSpace(s.Concrete()))
	}
	p.asciiOnly(s, "strings.TrimSpace")
	lo, hi := 0, len(s.b)
	for lo < hi && p.branch(p.isSpaceByte(s.b[lo])) {
		lo++
	}
	for hi > lo && p.branch(p.isSpaceByte(s.b[hi-1])) {
		hi--
	}
	return Str{s.b[lo:hi]}
}

// trimCutset: strings.Trim/TrimLeft/TrimRight with a concrete ASCII cutset.
func (p *path) trimCutset(s, cut Str, left, right bool) Str {
	if !cut.IsConcrete() {
		p.unsupported("strings.Trim* with a symbolic cutset")
	}
	cs := cut.Concrete()
	for i := 0; i < len(cs); i++ {
		if cs[i] >= 0x80 {
			p.unsupported("strings.Trim* with a non-ASCII cutset")
		}
	}
	if s.IsConcrete() {
		switch {
		case left && right:
			return p.mkStr(strings.Trim(s.Concrete(), cs))
		case left:
			return p.mkStr(strings.TrimLeft(s.Concrete(), cs))
		default:
			return p.mkStr(strings.TrimRight(s.Concrete(), cs))
		}
	}
	p.asciiOnly(s, "strings.Trim*")
	in := func(b *Term) *Term {
		r := p.tc.ff
		for i := 0; i < len(cs); i++ {
			r = p.tc.Or(r, p.tc.Eq(b, p.byteConst(cs[i])))
		}
		return r
	}
	lo, hi := 0, len(s.b)
	if left {
		for lo < hi && p.branch(in(s.b[lo])) {
			lo++
		}
	}
	if right {
		for hi > lo && p.branch(in(s.b[hi-1])) {
			hi--
		}
	}
	return Str{s.b[lo:hi]}
}

func stubTrimPrefix(p *path, _ *frame, a []value) value {
	s, pre := a[0].(Str), a[1].(Str)
	if len(pre.b) <= len(s.b) && p.branch(p.strHasPrefix(s, pre)) {
		return Str{s.b[len(pre.b):]}
	}
	return s
}

func stubTrimSuffix(p *path, _ *frame, a []value) value {
	s, suf := a[0].(Str), a[1].(Str)
	if len(suf.b) <= len(s.b) && p.branch(p.strHasSuffix(s, suf)) {
		return Str{s.b[:len(s.b)-len(suf.b)]}
	}
	return s
}

func stubReplaceAll(p *path, _ *frame, a []value) value {
	s, old, nw := a[0].(Str), a[1].(Str), a[2].(Str)
	if len(old.b) == 0 {
		p.unsupported("strings.ReplaceAll with empty old")
	}
	var out []*Term
	from := 0
	for {
		i := p.firstMatch(s, from, old)
		if i < 0 {
			out = append(out, s.b[from:]...)
			return Str{out}
		}
		out = append(out, s.b[from:i]...)
		out = append(out, nw.b...)
		from = i + len(old.b)
	}
}

func stubRepeat(p *path, _ *frame, a []value) value {
	s := a[0].(Str)
	n := p.concreteInt(a[1].(*Term), 0, 64, "strings.Repeat count")
	if n < 0 {
		panic(targetPanic{v: iface{t: types.Typ[types.String], v: p.mkStr("strings: negative Repeat count")}})
	}
	var out []*Term
	for i := int64(0); i < n; i++ {
		out = append(out, s.b...)
	}
	return Str{out}
}

func stubFields(p *path, _ *frame, a []value) value {
	s := a[0].(Str)
	if !s.IsConcrete() {
		p.asciiOnly(s, "strings.Fields")
	} else {
		var out []value
		for _, f := range strings.Fields(s.Concrete()) {
			out = append(out, p.mkStr(f))
		}
		return out
	}
	var out []value
	start := -1
	for i, b := range s.b {
		if p.branch(p.isSpaceByte(b)) {
			if start >= 0 {
				out = append(out, Str{s.b[start:i]})
				start = -1
			}
		} else if start < 0 {
			start = i
		}
	}
	if start >= 0 {
		out = append(out, Str{s.b[start:]})
	}
	return out
}

func stubEqualFold(p *path, _ *frame, a []value) value {
	s, t := a[0].(Str), a[1].(Str)
	if s.IsConcrete() && t.IsConcrete() {
		return p.tc.Bool(strings.EqualFold(s.Concrete(), t.Concrete()))
	}
	p.asciiOnly(s, "strings.EqualFold")
	p.asciiOnly(t, "strings.EqualFold")
	return p.equals(p.strMapCase(s, false), p.strMapCase(t, false))
}

// --- strings.Builder: struct{addr *Builder; buf []byte}

func builderBuf(p *path, recv value) *value {
	ptr, ok := recv.(*value)
	if !ok || ptr == nil {
		p.runtimePanic("nil pointer dereference", "strings.Builder")
	}
	st, ok := (*ptr).(structure)
	if !ok || len(st) != 2 {
		p.unsupported("strings.Builder layout")
	}
	return &st[1]
}

func stubBuilderWriteString(p *path, _ *frame, a []value) value {
	buf := builderBuf(p, a[0])
	cur, _ := (*buf).([]value)
	s := a[1].(Str)
	for _, b := range s.b {
		cur = append(cur, b)
	}
	*buf = cur
	return tuple{p.tc.BV(64, uint64(len(s.b))), iface{}}
}

func stubBuilderWriteByte(p *path, _ *frame, a []value) value {
	buf := builderBuf(p, a[0])
	cur, _ := (*buf).([]value)
	*buf = append(cur, a[1])
	return iface{}
}

func stubBuilderWriteRune(p *path, _ *frame, a []value) value {
	buf := builderBuf(p, a[0])
	cur, _ := (*buf).([]value)
	r := a[1].(*Term)
	if r.IsConst() {
		s := string(rune(r.Int64()))
		for i := 0; i < len(s); i++ {
			cur = append(cur, p.byteConst(s[i]))
		}
		*buf = cur
		return tuple{p.tc.BV(64, uint64(len(s))), iface{}}
	}
	p.note("runes written to a strings.Builder are ASCII")
	p.assumeTerm(p.tc.Cmp(OpULt, r, p.tc.BV(32, 0x80)))
	*buf = append(cur, p.tc.Resize(r, 8, false))
	return tuple{p.tc.BV(64, 1), iface{}}
}

func stubBuilderString(p *path, _ *frame, a []value) value {
	buf := builderBuf(p, a[0])
	cur, _ := (*buf).([]value)
	out := make([]*Term, len(cur))
	for i, b := range cur {
		out[i] = b.(*Term)
	}
	return Str{out}
}

func stubBuilderLen(p *path, _ *frame, a []value) value {
	buf := builderBuf(p, a[0])
	cur, _ := (*buf).([]value)
	return p.tc.BV(64, uint64(len(cur)))
}

func stubBuilderReset(p *path, _ *frame, a []value) value {
	buf := builderBuf(p, a[0])
	*buf = []value(nil)
	return nil
}

func stubNewReplacer(p *path, _ *frame, a []value) value {
	r := &replacerV{}
	for _, e := range a[0].([]value) {
		r.pairs = append(r.pairs, e.(Str))
	}
	if len(r.pairs)%2 == 1 {
		panic(targetPanic{v: iface{t: types.Typ[types.String], v: p.mkStr("strings.NewReplacer: odd argument count")}})
	}
	return host{r}
}

// Replace: scan left to right; at each position the first listed old string that matches wins
// (generic replacer semantics of package strings for non-empty old strings).
func stubReplacerReplace(p *path, _ *frame, a []value) value {
	r := a[0].(host).v.(*replacerV)
	s := a[1].(Str)
	allConcrete := s.IsConcrete()
	var flat []string
	for _, x := range r.pairs {
		if !x.IsConcrete() {
			allConcrete = false
		}
	}
	if allConcrete {
		for _, x := range r.pairs {
			flat = append(flat, x.Concrete())
		}
		return p.mkStr(strings.NewReplacer(flat...).Replace(s.Concrete()))
	}
	for i := 0; i < len(r.pairs); i += 2 {
		if len(r.pairs[i].b) == 0 {
			p.unsupported("strings.Replacer with an empty old string and symbolic input")
		}
	}
	// Note: package strings picks, at each position, the match found by its lookup trie, which
	// prefers the longest key among those with equal priority... the generic algorithm gives
	// priority to earlier pairs (documented: "comparisons are done in argument order").
	var out []*Term
	i := 0
outer:
	for i < len(s.b) {
		for k := 0; k < len(r.pairs); k += 2 {
			old := r.pairs[k]
			if i+len(old.b) <= len(s.b) && p.branch(p.matchAt(s, i, old)) {
				out = append(out, r.pairs[k+1].b...)
				i += len(old.b)
				continue outer
			}
		}
		out = append(out, s.b[i])
		i++
	}
	return Str{out}
}

// ---------------------------------------------------------------------------
// sort: contract stubs

// arrange sorts positions 0..n-1 with the given less/swap (insertion sort = the stable
// arrangement); when !stable every permutation inside runs of mutually equal elements is explored.
func (p *path) arrange(n int, less func(i, j int) bool, swap func(i, j int), stable bool, elem func(i int) value) {
	for i := 1; i < n; i++ {
		for j := i; j > 0 && less(j, j-1); j-- {
			swap(j, j-1)
		}
	}
	if stable || n < 2 {
		return
	}
	// runs of equal elements: adjacent a,b with !less(a,b) (sortedness gives !less(b,a))
	start := 0
	for i := 1; i <= n; i++ {
		if i < n && !less(i-1, i) {
			continue
		}
		// run [start, i)
		r := i - start
		if r > 1 {
			// choose a permutation of the run by successive choices (selection); candidates that are
			// identical values (same terms) are interchangeable and offered only once
			for k := 0; k < r-1; k++ {
				cands := []int{}
				for c := 0; c < r-k; c++ {
					dup := false
					if elem != nil {
						for _, d := range cands {
							if identicalValue(elem(start+k+d), elem(start+k+c)) {
								dup = true
								break
							}
						}
					}
					if !dup {
						cands = append(cands, c)
					}
				}
				c := 0
				if len(cands) > 1 {
					c = cands[p.choose(len(cands))]
					p.envChoices++
					if c != 0 {
						p.envDeviations++ // an arrangement other than the one insertion sort produces
					}
				}
				if c != 0 {
					// move element start+k+c to position start+k by adjacent swaps (keeps others' order)
					for j := start + k + c; j > start+k; j-- {
						swap(j, j-1)
					}
				}
			}
		}
		start = i
	}
}

// identicalValue: structurally identical interpreter values (same terms, same pointers).
func identicalValue(a, b value) bool {
	switch x := a.(type) {
	case *Term:
		y, ok := b.(*Term)
		return ok && x == y
	case Str:
		y, ok := b.(Str)
		if !ok || len(x.b) != len(y.b) {
			return false
		}
		for i := range x.b {
			if x.b[i] != y.b[i] {
				return false
			}
		}
		return true
	case structure:
		y, ok := b.(structure)
		if !ok || len(x) != len(y) {
			return false
		}
		for i := range x {
			if !identicalValue(x[i], y[i]) {
				return false
			}
		}
		return true
	case array:
		y, ok := b.(array)
		if !ok || len(x) != len(y) {
			return false
		}
		for i := range x {
			if !identicalValue(x[i], y[i]) {
				return false
			}
		}
		return true
	case *value:
		y, ok := b.(*value)
		return ok && x == y
	case iface:
		y, ok := b.(iface)
		return ok && x.t == y.t && identicalValue(x.v, y.v)
	}
	return false
}

func stubSortSlice(p *path, caller *frame, a []value, stable bool) value {
	xi, ok := a[0].(iface)
	if !ok {
		p.unsupported("sort.Slice argument")
	}
	s, _ := xi.v.([]value)
	lessFn := a[1]
	less := func(i, j int) bool {
		r := p.call(caller, lessFn, []value{p.tc.BV(64, uint64(i)), p.tc.BV(64, uint64(j))}, nil)
		return p.branch(r.(*Term))
	}
	swap := func(i, j int) { s[i], s[j] = s[j], s[i] }
	p.arrange(len(s), less, swap, stable, func(i int) value { return s[i] })
	return nil
}

func stubSortSort(p *path, caller *frame, a []value, stable bool) value {
	data, ok := a[0].(iface)
	if !ok || data.t == nil {
		p.runtimePanic("nil pointer dereference", "sort.Sort(nil)")
	}
	meth := func(name string) value {
		ms := p.eng.prog.MethodSets.MethodSet(data.t)
		for i := 0; i < ms.Len(); i++ {
			if ms.At(i).Obj().Name() == name {
				return p.eng.prog.MethodValue(ms.At(i))
			}
		}
		p.unsupported("sort.Sort: no method " + name)
		return nil
	}
	lenF, lessF, swapF := meth("Len"), meth("Less"), meth("Swap")
	n := int(p.concreteInt(p.call(caller, lenF, []value{data.v}, nil).(*Term), 0, 64, "Len()"))
	idx := func(i int) value { return p.tc.BV(64, uint64(i)) }
	less := func(i, j int) bool {
		return p.branch(p.call(caller, lessF, []value{data.v, idx(i), idx(j)}, nil).(*Term))
	}
	swap := func(i, j int) { p.call(caller, swapF, []value{data.v, idx(i), idx(j)}, nil) }
	p.arrange(n, less, swap, stable, nil)
	return nil
}

func stubSortStrings(p *path, _ *frame, a []value) value {
	s, _ := a[0].([]value)
	less := func(i, j int) bool { return p.branch(p.strLess(s[i].(Str), s[j].(Str), false)) }
	swap := func(i, j int) { s[i], s[j] = s[j], s[i] }
	p.arrange(len(s), less, swap, true, nil)
	return nil
}

// ---------------------------------------------------------------------------
// reflect.StructTag

// tagLookup parses a conventionally formatted tag whose structural bytes are concrete; symbolic
// bytes may only occur inside quoted values and are assumed to be ordinary (no quote/backslash).
func (p *path) tagLookup(tag Str, key string) (Str, bool) {
	b := tag.b
	isC := func(i int, c byte) bool { return b[i].IsConst() && byte(b[i].val) == c }
	i := 0
	for i < len(b) {
		for i < len(b) && isC(i, ' ') {
			i++
		}
		if i >= len(b) {
			break
		}
		// name
		j := i
		for j < len(b) {
			if !b[j].IsConst() {
				p.unsupported("struct tag with a symbolic key")
			}
			c := byte(b[j].val)
			if c <= ' ' || c == ':' || c == '"' || c == 0x7f {
				break
			}
			j++
		}
		if j == i || j+1 >= len(b) || !isC(j, ':') || !isC(j+1, '"') {
			break
		}
		name := Str{b[i:j]}.Concrete()
		// quoted value
		k := j + 2
		for k < len(b) {
			if b[k].IsConst() {
				c := byte(b[k].val)
				if c == '"' {
					break
				}
				if c == '\\' {
					p.unsupported("struct tag with an escape sequence")
				}
			} else {
				p.note("symbolic struct-tag value bytes are not a quote or a backslash (conventional tag syntax)")
				p.assumeTerm(p.tc.Not(p.tc.Or(p.tc.Eq(b[k], p.byteConst('"')), p.tc.Eq(b[k], p.byteConst('\\')))))
			}
			k++
		}
		if k >= len(b) {
			break
		}
		if name == key {
			return Str{b[j+2 : k]}, true
		}
		i = k + 1
	}
	return Str{}, false
}

func stubTagGet(p *path, _ *frame, a []value) value {
	key := a[1].(Str)
	if !key.IsConcrete() {
		p.unsupported("StructTag.Get with a symbolic key")
	}
	tag := a[0].(Str)
	if tag.IsConcrete() {
		return p.mkStr(reflect.StructTag(tag.Concrete()).Get(key.Concrete()))
	}
	v, _ := p.tagLookup(tag, key.Concrete())
	return v
}

func stubTagLookup(p *path, _ *frame, a []value) value {
	key := a[1].(Str)
	if !key.IsConcrete() {
		p.unsupported("StructTag.Lookup with a symbolic key")
	}
	tag := a[0].(Str)
	if tag.IsConcrete() {
		v, ok := reflect.StructTag(tag.Concrete()).Lookup(key.Concrete())
		return tuple{p.mkStr(v), p.tc.Bool(ok)}
	}
	v, ok := p.tagLookup(tag, key.Concrete())
	return tuple{v, p.tc.Bool(ok)}
}

// ---------------------------------------------------------------------------
// unicode

func stubDecodeRuneInString(p *path, _ *frame, a []value) value {
	s := a[0].(Str)
	if len(s.b) == 0 {
		return tuple{p.tc.BV(32, uint64(utf8.RuneError)), p.tc.BV(64, 0)}
	}
	b := s.b[0]
	if b.IsConst() {
		var buf []byte
		for i := 0; i < len(s.b) && i < 4 && s.b[i].IsConst(); i++ {
			buf = append(buf, byte(s.b[i].val))
		}
		r, n := utf8.DecodeRune(buf)
		return tuple{p.tc.BV(32, uint64(r)), p.tc.BV(64, uint64(n))}
	}
	if !p.branch(p.tc.Cmp(OpULt, b, p.byteConst(0x80))) {
		p.unsupported("utf8.DecodeRuneInString on a symbolic non-ASCII byte")
	}
	return tuple{p.tc.Resize(b, 32, false), p.tc.BV(64, 1)}
}

func stubRuneCount(p *path, _ *frame, a []value) value {
	s := a[0].(Str)
	if s.IsConcrete() {
		return p.tc.BV(64, uint64(utf8.RuneCountInString(s.Concrete())))
	}
	p.asciiOnly(s, "utf8.RuneCountInString")
	return p.tc.BV(64, uint64(len(s.b)))
}

func (p *path) runeASCII(r *Term, what string) {
	if !r.IsConst() {
		p.note("symbolic runes given to " + what + " are ASCII")
		p.assumeTerm(p.tc.Cmp(OpULt, r, p.tc.BV(r.sort, 0x80)))
	}
}

func (p *path) runeCase(r *Term, upper bool) *Term {
	if r.IsConst() {
		if upper {
			return p.tc.BV(32, uint64(unicode.ToUpper(rune(r.Int64()))))
		}
		return p.tc.BV(32, uint64(unicode.ToLower(rune(r.Int64()))))
	}
	p.runeASCII(r, "unicode.ToLower/ToUpper")
	tc := p.tc
	w := r.sort
	c := func(x byte) *Term { return tc.BV(w, uint64(x)) }
	if upper {
		in := tc.And(tc.Cmp(OpULe, c('a'), r), tc.Cmp(OpULe, r, c('z')))
		return tc.Ite(in, tc.Bin(OpSub, r, c(32)), r)
	}
	in := tc.And(tc.Cmp(OpULe, c('A'), r), tc.Cmp(OpULe, r, c('Z')))
	return tc.Ite(in, tc.Bin(OpAdd, r, c(32)), r)
}

func (p *path) runeClass(r *Term, class string) *Term {
	if r.IsConst() {
		x := rune(r.Int64())
		switch class {
		case "upper":
			return p.tc.Bool(unicode.IsUpper(x))
		case "lower":
			return p.tc.Bool(unicode.IsLower(x))
		case "alpha":
			return p.tc.Bool(unicode.IsLetter(x))
		case "digit":
			return p.tc.Bool(unicode.IsDigit(x))
		}
	}
	p.runeASCII(r, "unicode.Is*")
	return p.classTerm(p.tc.Resize(r, 8, false), class, false)
}

func stubItoa(p *path, _ *frame, a []value) value {
	t := a[0].(*Term)
	if !t.IsConst() {
		lo, hi, ok := p.rangeOf(t)
		if !ok {
			p.unsupported("strconv.Itoa of a symbolic integer of unknown magnitude")
		}
		return p.mkStr(strconv.Itoa(int(p.concreteInt(t, lo, hi, "strconv.Itoa"))))
	}
	return p.mkStr(strconv.Itoa(int(t.Int64())))
}

func stubQuote(p *path, _ *frame, a []value) value {
	s := a[0].(Str)
	return p.splice(strconv.Quote(p.sentinelize(s, true)))
}

// nameExported: token.IsExported on a (possibly symbolic) name.
func (p *path) nameExported(name Str) *Term {
	if len(name.b) == 0 {
		return p.tc.ff
	}
	b := name.b[0]
	if b.IsConst() {
		if b.val < 0x80 {
			return p.tc.Bool(b.val >= 'A' && b.val <= 'Z')
		}
		r, _ := utf8.DecodeRuneInString(Str{name.b[:min(4, len(name.b))]}.Show())
		return p.tc.Bool(unicode.IsUpper(r))
	}
	p.note("symbolic identifiers are ASCII (exported <=> first byte in A..Z)")
	p.assumeTerm(p.tc.Cmp(OpULt, b, p.byteConst(0x80)))
	return p.inRange(b, 'A', 'Z')
}
