package main

// Static inventory for C07: every `range` over a map in the non-test gomacro packages must be
// covered by a harness (solved) or by a recorded argument (argued); anything else is reported.

import (
	"encoding/json"
	"fmt"
	"go/ast"
	"go/types"
	"os"
	"path/filepath"
	"sort"
	"strings"

	"golang.org/x/tools/go/packages"
)

type siteTable struct {
	Solved     map[string]string `json:"solved"`
	Argued     map[string]string `json:"argued"`
	Goroutines map[string]string `json:"goroutines"` // functions starting goroutines, with the recorded argument
	GoSolved   map[string]string `json:"goroutines_solved"` // functions whose goroutines are scheduled by a harness under the thread model
}

type scanResult struct {
	Sites        []string
	Uncovered    []string
	Stale        []string
	PointerPrint []string
	GoSites      []string // functions starting goroutines
	GoUncovered  []string
	RunDependent []string // calls whose value changes from one process to the next (seeds, clocks, pids)
}

func scanMapRanges(scratch string) (*scanResult, error) {
	b, err := os.ReadFile(filepath.Join(verifDir, "harness", "c07_sites.json"))
	if err != nil {
		return nil, err
	}
	var tab siteTable
	if err := json.Unmarshal(b, &tab); err != nil {
		return nil, err
	}
	cfg := &packages.Config{
		Mode: packages.NeedName | packages.NeedFiles | packages.NeedSyntax | packages.NeedTypes | packages.NeedTypesInfo | packages.NeedImports | packages.NeedDeps,
		Dir:  repoDir, Env: goEnv(scratch), BuildFlags: []string{"-modfile=" + filepath.Join(scratch, "go.mod")},
	}
	pkgs, err := packages.Load(cfg, "./analysis", "./analysis/sql", "./analysis/httpapi", "./generator/...", "./cmd")
	if err != nil {
		return nil, err
	}
	res := &scanResult{}
	seen := map[string]bool{}
	for _, p := range pkgs {
		if strings.HasSuffix(p.PkgPath, "/test") || strings.Contains(p.PkgPath, "/test/") {
			continue
		}
		rel := strings.TrimPrefix(p.PkgPath, "github.com/benoitkugler/gomacro/")
		for _, f := range p.Syntax {
			fname := p.Fset.Position(f.Pos()).Filename
			if strings.HasSuffix(fname, "_test.go") {
				continue
			}
			for _, d := range f.Decls {
				fd, ok := d.(*ast.FuncDecl)
				if !ok || fd.Body == nil {
					continue
				}
				name := fd.Name.Name
				if fd.Recv != nil && len(fd.Recv.List) > 0 {
					t := fd.Recv.List[0].Type
					if st, ok := t.(*ast.StarExpr); ok {
						t = st.X
					}
					if id, ok := t.(*ast.Ident); ok {
						name = id.Name + "." + name
					}
				}
				key := rel + "." + name
				ast.Inspect(fd.Body, func(n ast.Node) bool {
					switch n := n.(type) {
					case *ast.RangeStmt:
						if tv, ok := p.TypesInfo.Types[n.X]; ok {
							if _, isMap := tv.Type.Underlying().(*types.Map); isMap {
								pos := p.Fset.Position(n.Pos())
								res.Sites = append(res.Sites, fmt.Sprintf("%s (%s:%d)", key, trimPath(pos.Filename), pos.Line))
								seen[key] = true
							}
						}
					case *ast.GoStmt:
						pos := p.Fset.Position(n.Pos())
						res.GoSites = append(res.GoSites, fmt.Sprintf("%s (%s:%d)", key, trimPath(pos.Filename), pos.Line))
						if tab.Goroutines[key] == "" && tab.GoSolved[key] == "" {
							res.GoUncovered = append(res.GoUncovered, key)
						}
					case *ast.CallExpr:
						if sel, ok := n.Fun.(*ast.SelectorExpr); ok {
							if id, ok := sel.X.(*ast.Ident); ok {
								if pn, ok := p.TypesInfo.Uses[id].(*types.PkgName); ok {
									path := pn.Imported().Path()
									name := sel.Sel.Name
									runDep := path == "hash/maphash" || path == "math/rand" || path == "math/rand/v2" || path == "crypto/rand" ||
										(path == "time" && (name == "Now" || name == "Since")) ||
										(path == "os" && (name == "Getpid" || name == "Getppid" || name == "Hostname" || name == "Environ"))
									if runDep {
										pos := p.Fset.Position(n.Pos())
										res.RunDependent = append(res.RunDependent, fmt.Sprintf("%s.%s in %s (%s:%d)", path, name, key, trimPath(pos.Filename), pos.Line))
									}
								}
							}
						}
					case *ast.BasicLit:
						if strings.Contains(n.Value, "%p") {
							pos := p.Fset.Position(n.Pos())
							res.PointerPrint = append(res.PointerPrint, fmt.Sprintf("%s:%d", trimPath(pos.Filename), pos.Line))
						}
					}
					return true
				})
			}
		}
	}
	for k := range seen {
		if tab.Solved[k] == "" && tab.Argued[k] == "" {
			res.Uncovered = append(res.Uncovered, k)
		}
	}
	for k := range tab.Solved {
		if !seen[k] {
			res.Stale = append(res.Stale, k)
		}
	}
	sort.Strings(res.Sites)
	sort.Strings(res.Uncovered)
	sort.Strings(res.Stale)
	return res, nil
}
