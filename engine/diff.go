package main

// Differential twin ("translator validation"): random concrete input vectors are run through the
// engine (inputs fixed, everything folds) and natively through go test on the real build; all
// observations and assertion outcomes must coincide.

import (
	"fmt"
	"math/rand"
	"sort"
	"strings"
)

type diffCase struct {
	model    map[string]any
	failed   []string
	observes []obsRec
	outcome  string
	reason   string
}

func (e *Engine) diffCases(rep *harnessReport, ts tierSpec, n int, seed int64) []*diffCase {
	fn := e.findFunc(rep.Spec.Pkg, rep.Spec.Func)
	if fn == nil || n <= 0 {
		return nil
	}
	sol, err := NewSolver([]string{"z3"})
	if err != nil {
		return nil
	}
	defer sol.Close()
	rng := rand.New(rand.NewSource(seed*7919 + int64(len(rep.Spec.Func))))
	var out []*diffCase
	// (a) models of explored symbolic paths, re-run concretely
	for mi, m := range rep.Res.PathModels {
		cfg := RunConfig{MaxSteps: ts.MaxSteps, MaxPaths: 1, Params: ts.Params, FixedModel: m, KnownActive: map[string]bool{}}
		if cfg.MaxSteps == 0 {
			cfg.MaxSteps = 2000000
		}
		pr := e.runPath(fn, nil, sol, cfg)
		if pr.outcome == "infeasible" {
			rep.Inconclusive = append(rep.Inconclusive, "differential twin: a path model does not satisfy the assumptions when re-run concretely: "+compactJSON(m))
			continue
		}
		if pr.outcome == "inconclusive" {
			rep.Inconclusive = append(rep.Inconclusive, "differential twin: engine run inconclusive: "+pr.reason)
			continue
		}
		// the symbolic run, evaluated under its model, must observe what the concrete run observes:
		// this validates the symbolic stubs (strings, regexp, fmt splicing ...) against the concrete ones
		if mi < len(rep.Res.PathModelObs) && pr.outcome == "ok" {
			sym := rep.Res.PathModelObs[mi]
			if len(sym) != len(pr.p.observes) {
				rep.Inconclusive = append(rep.Inconclusive, fmt.Sprintf("engine self-check: symbolic path observed %d values, its concrete re-run %d (inputs %s)", len(sym), len(pr.p.observes), compactJSON(m)))
			} else {
				for k := range sym {
					if sym[k] != pr.p.observes[k] {
						rep.Inconclusive = append(rep.Inconclusive, fmt.Sprintf("engine self-check: observation %s symbolic=%s concrete=%s (inputs %s)", sym[k].Label, sym[k].Val, pr.p.observes[k].Val, compactJSON(m)))
						break
					}
				}
			}
		}
		out = append(out, &diffCase{model: m, failed: pr.p.failed, observes: pr.p.observes, outcome: pr.outcome})
	}
	// (b) random vectors (rejection sampling against the assumptions)
	attempts := 0
	n = len(out) + n/3
	for len(out) < n && attempts < n*10 {
		attempts++
		cfg := RunConfig{MaxSteps: ts.MaxSteps, MaxPaths: 1, Params: ts.Params, Random: rng, KnownActive: map[string]bool{}}
		if cfg.MaxSteps == 0 {
			cfg.MaxSteps = 2000000
		}
		pr := e.runPath(fn, nil, sol, cfg)
		p := pr.p
		if pr.outcome == "infeasible" {
			continue
		}
		dc := &diffCase{model: p.concreteModel(), failed: p.failed, observes: p.observes, outcome: pr.outcome, reason: pr.reason}
		if pr.outcome == "inconclusive" {
			rep.Inconclusive = append(rep.Inconclusive, "differential twin: engine run inconclusive: "+pr.reason)
			continue
		}
		out = append(out, dc)
	}
	return out
}

func (p *path) concreteModel() map[string]any {
	out := map[string]any{}
	for _, in := range p.inputs {
		switch in.Kind {
		case "bool":
			out[in.Name] = in.Bits[0].val == 1
		case "int":
			out[in.Name] = in.Bits[0].Int64()
		case "byte":
			out[in.Name] = in.Bits[0].val
		case "string":
			bs := make([]int, in.Len)
			for i := range bs {
				bs[i] = int(in.Bits[i].val)
			}
			out[in.Name] = map[string]any{"bytes": bs, "text": bytesText(bs)}
		case "choice":
			out[in.Name] = in.Val
		}
	}
	return out
}

func uniq(xs []string) []string {
	sort.Strings(xs)
	var out []string
	for i, x := range xs {
		if i == 0 || x != xs[i-1] {
			out = append(out, x)
		}
	}
	return out
}

func (d *diffCase) compare(o *nativeOutcome, envNondet bool) string {
	if o == nil {
		return "no native outcome"
	}
	eo := d.outcome
	if eo == "done" {
		eo = "stop"
	}
	if o.Outcome != eo {
		return fmt.Sprintf("outcome engine=%s native=%s %s", eo, o.Outcome, o.Panic)
	}
	a := uniq(append([]string{}, d.failed...))
	b := uniq(append([]string{}, o.Failed...))
	// harnesses whose verdict depends on an environment choice (map order) are compared on their
	// observations only: the native run sees one arbitrary order
	if !envNondet && strings.Join(a, ",") != strings.Join(b, ",") {
		return fmt.Sprintf("failed assertions engine=%v native=%v", a, b)
	}
	if len(d.observes) != len(o.Observes) {
		return fmt.Sprintf("observation count engine=%d native=%d", len(d.observes), len(o.Observes))
	}
	for i, ob := range d.observes {
		if ob.Label != o.Observes[i][0] || ob.Val != o.Observes[i][1] {
			return fmt.Sprintf("observation %s engine=%s native=%s=%s", ob.Label, ob.Val, o.Observes[i][0], o.Observes[i][1])
		}
	}
	return ""
}

// randomByte samples a byte of a class by rejection.
func (p *path) randomByte(class string, first bool) byte {
	for tries := 0; tries < 10000; tries++ {
		var c byte
		switch p.cfg.Random.Intn(4) {
		case 0:
			c = byte(p.cfg.Random.Intn(256))
		case 1:
			const pool = "/.aAzZ_09 -,\"\\:#[]$"
			c = pool[p.cfg.Random.Intn(len(pool))]
		default:
			c = byte(0x20 + p.cfg.Random.Intn(0x5f))
		}
		if p.classTerm(p.byteConst(c), class, first).IsTrue() {
			return c
		}
	}
	p.unsupported("cannot sample class " + class)
	return 0
}
