package main

// Front end: load gomacro packages from /repo's working tree with the harness files injected by
// overlay, build SSA. Nothing is written into /repo.

import (
	"fmt"
	"os"
	"path/filepath"
	"sort"
	"strings"

	"golang.org/x/tools/go/packages"
	"golang.org/x/tools/go/ssa"
	"golang.org/x/tools/go/ssa/ssautil"
)

// repoDir: the tree under check. VERIF_REPO is a development aid (running a check against a scratch
// worktree carrying a seeded change); no registered command sets it.
var repoDir = func() string {
	if d := os.Getenv("VERIF_REPO"); d != "" {
		return d
	}
	return "/repo"
}()

// shared harness files restricted to some packages (default: every non-analysis harness package)
var sharedOnlyFor = map[string]map[string]bool{}

var verifDir = "/verif"

type loadResult struct {
	eng     *Engine
	overlay map[string][]byte // virtual path -> content (engine view)
	scratch string
	pkgDirs []string
}

func goEnv(scratch string) []string {
	env := os.Environ()
	env = append(env, "GOFLAGS=-mod=mod", "GOPROXY=off", "GOSUMDB=off", "GOTOOLCHAIN=local", "GONOSUMDB=*", "GONOSUMCHECK=1", "GOFLAGS=-mod=mod")
	return env
}

// excludedHarness: harness files that do not compile against the current tree (an internal function
// they call changed its signature or disappeared): they are left out, with the first error, so that
// the other harnesses of the package still run; their harnesses are reported inconclusive.
var excludedHarness = map[string]string{}

// harnessOverlay builds the overlay for the given package directories (relative to the module root).
// native selects the vf API with real bodies' test driver included.
func harnessOverlay(pkgRels []string, native bool) (map[string][]byte, error) {
	ov := map[string][]byte{}
	api, err := os.ReadFile(filepath.Join(verifDir, "harness", "vf_api.go.txt"))
	if err != nil {
		return nil, err
	}
	for _, rel := range pkgRels {
		dir := filepath.Join(verifDir, "harness", rel)
		ents, err := os.ReadDir(dir)
		if err != nil {
			return nil, err
		}
		pkgName := ""
		var funcs []string
		for _, e := range ents {
			if !strings.HasSuffix(e.Name(), ".go") {
				continue
			}
			src, err := os.ReadFile(filepath.Join(dir, e.Name()))
			if err != nil {
				return nil, err
			}
			if _, out := excludedHarness[filepath.Join(repoDir, rel, "zz_verif_"+e.Name())]; out {
				continue
			}
			ov[filepath.Join(repoDir, rel, "zz_verif_"+e.Name())] = src
			for _, line := range strings.Split(string(src), "\n") {
				if strings.HasPrefix(line, "package ") && pkgName == "" {
					pkgName = strings.TrimSpace(strings.TrimPrefix(line, "package "))
				}
				if strings.HasPrefix(line, "func H") && strings.Contains(line, "() {") {
					name := line[len("func "):strings.Index(line, "(")]
					funcs = append(funcs, name)
				}
			}
		}
		if pkgName == "" {
			return nil, fmt.Errorf("no harness file in %s", dir)
		}
		ov[filepath.Join(repoDir, rel, "zz_verif_vf_api.go")] = []byte(strings.Replace(string(api), "package PKG", "package "+pkgName, 1))
		if strings.HasPrefix(rel, "generator/") {
			shared, _ := os.ReadDir(filepath.Join(verifDir, "harness", "_shared"))
			for _, e := range shared {
				if !strings.HasSuffix(e.Name(), ".go.txt") {
					continue
				}
				if only := sharedOnlyFor[e.Name()]; only != nil && !only[rel] {
					continue
				}
				src, err := os.ReadFile(filepath.Join(verifDir, "harness", "_shared", e.Name()))
				if err != nil {
					return nil, err
				}
				ov[filepath.Join(repoDir, rel, "zz_verif_shared_"+strings.TrimSuffix(e.Name(), ".txt"))] = []byte(strings.Replace(string(src), "package PKG", "package "+pkgName, 1))
			}
		}
		if native {
			sort.Strings(funcs)
			var sb strings.Builder
			fmt.Fprintf(&sb, "package %s\n\nimport \"testing\"\n\nfunc TestVerifNative(t *testing.T) {\n\tvfRunNative(map[string]func(){\n", pkgName)
			for _, f := range funcs {
				fmt.Fprintf(&sb, "\t\t%q: %s,\n", f, f)
			}
			sb.WriteString("\t})\n}\n")
			ov[filepath.Join(repoDir, rel, "zz_verif_native_test.go")] = []byte(sb.String())
		}
	}
	return ov, nil
}

// scratchMod copies /repo/go.mod and go.sum to a scratch dir so that the go command never
// writes into /repo.
func scratchMod() (string, error) {
	dir, err := os.MkdirTemp("", "vcheck-")
	if err != nil {
		return "", err
	}
	for _, f := range []string{"go.mod", "go.sum"} {
		b, err := os.ReadFile(filepath.Join(repoDir, f))
		if err != nil {
			return "", err
		}
		if err := os.WriteFile(filepath.Join(dir, f), b, 0o644); err != nil {
			return "", err
		}
	}
	return dir, nil
}

func loadProgram(pkgRels []string) (*loadResult, error) {
	scratch, err := scratchMod()
	if err != nil {
		return nil, err
	}
	var patterns []string
	for _, r := range pkgRels {
		patterns = append(patterns, "./"+r)
	}
	var ov map[string][]byte
	var pkgs []*packages.Package
	for attempt := 0; ; attempt++ {
		ov, err = harnessOverlay(pkgRels, false)
		if err != nil {
			return nil, err
		}
		cfg := &packages.Config{
			Mode:       packages.LoadAllSyntax,
			Dir:        repoDir,
			Overlay:    ov,
			Env:        goEnv(scratch),
			BuildFlags: []string{"-modfile=" + filepath.Join(scratch, "go.mod")},
		}
		pkgs, err = packages.Load(cfg, patterns...)
		if err != nil {
			return nil, err
		}
		nerr := 0
		var msgs []string
		excludedNow := 0
		packages.Visit(pkgs, nil, func(p *packages.Package) {
			for _, e := range p.Errors {
				nerr++
				if len(msgs) < 10 {
					msgs = append(msgs, e.Error())
				}
				// an error located in a harness file: leave that file out and retry
				file := e.Pos
				if i := strings.Index(file, ".go:"); i >= 0 {
					file = file[:i+3]
				}
				if strings.HasPrefix(filepath.Base(file), "zz_verif_h_") {
					if _, done := excludedHarness[file]; !done {
						excludedHarness[file] = e.Error()
						excludedNow++
					}
				}
			}
		})
		if nerr == 0 {
			break
		}
		if excludedNow == 0 || attempt > 8 {
			return nil, fmt.Errorf("load errors (%d): %s", nerr, strings.Join(msgs, "; "))
		}
	}
	prog, spkgs := ssautil.AllPackages(pkgs, ssa.InstantiateGenerics)
	prog.Build()
	eng := &Engine{prog: prog, pkgs: map[string]*ssa.Package{}}
	for _, sp := range spkgs {
		if sp != nil {
			eng.pkgs[sp.Pkg.Path()] = sp
		}
	}
	// module path
	if gm, err := os.ReadFile(filepath.Join(repoDir, "go.mod")); err == nil {
		for _, line := range strings.Split(string(gm), "\n") {
			if strings.HasPrefix(line, "module ") {
				eng.modPath = strings.TrimSpace(strings.TrimPrefix(line, "module "))
				break
			}
		}
	}
	if eng.modPath == "" {
		return nil, fmt.Errorf("module path not found")
	}
	// package initialisers of gomacro packages in dependency order
	seen := map[string]bool{}
	var visit func(p *packages.Package)
	visit = func(p *packages.Package) {
		if seen[p.PkgPath] {
			return
		}
		seen[p.PkgPath] = true
		var imps []string
		for k := range p.Imports {
			imps = append(imps, k)
		}
		sort.Strings(imps)
		for _, k := range imps {
			visit(p.Imports[k])
		}
		if eng.isGomacro(p.PkgPath) {
			if sp := prog.Package(p.Types); sp != nil {
				if f := sp.Func("init"); f != nil {
					eng.initFns = append(eng.initFns, f)
				}
			}
		}
	}
	for _, p := range pkgs {
		visit(p)
	}
	return &loadResult{eng: eng, overlay: ov, scratch: scratch, pkgDirs: pkgRels}, nil
}

func (e *Engine) findFunc(pkgRel, name string) *ssa.Function {
	sp := e.pkgs[e.modPath+"/"+pkgRel]
	if sp == nil {
		return nil
	}
	return sp.Func(name)
}
