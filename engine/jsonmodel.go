package main

// A model of encoding/json for code executed by vfExec (the generated union wrappers call
// json.Marshal / json.Unmarshal). Documents are trees (jnode) whose scalars are terms; the byte
// slices handed to the interpreted code are the real rendering of those trees, and a side table
// maps a rendered slice back to its tree, so that Unmarshal never has to parse symbolic bytes.
// The model follows encoding/json's documented rules: struct tags (name, "-", omitempty), embedded
// structs flattened, nil slices/maps/pointers/interfaces as null, map keys sorted, Marshaler /
// Unmarshaler methods (called in the interpreter), json.RawMessage, case-insensitive field match,
// unknown keys ignored, null leaving non-nullable destinations untouched.
// Bounds (stated in the evidence): symbolic integers are single decimal digits on the wire, symbolic
// string bytes are printable ASCII that JSON does not escape; floats, []byte (base64), TextMarshaler
// keys are not modelled (the path is reported unsupported); a name reached through several embedded
// structs follows the dominant-field rule (least depth, then the single tagged one, else dropped). The differential twin compares every sampled path with the real encoding/json.

import (
	"bytes"
	"encoding/json"
	"fmt"
	"go/types"
	"reflect"
	"sort"
	"strings"

	"golang.org/x/tools/go/ssa"
)

type jkind int

const (
	jNull jkind = iota
	jBool
	jNum
	jStr
	jArr
	jObj
)

type jnode struct {
	kind jkind
	b    *Term // jBool (concrete on the path)
	n    *Term // jNum: 64-bit value
	s    Str   // jStr
	arr  []*jnode
	keys []Str
	vals []*jnode
}

func (p *path) jsonDocs() map[*value]*jnode {
	if p.jdocs == nil {
		p.jdocs = map[*value]*jnode{}
	}
	return p.jdocs
}

// ---------------------------------------------------------------------------
// rendering

func (p *path) jsonRender(n *jnode, out []*Term) []*Term {
	lit := func(s string) {
		out = append(out, p.mkStr(s).b...)
	}
	switch n.kind {
	case jNull:
		lit("null")
	case jBool:
		if n.b.IsTrue() {
			lit("true")
		} else {
			lit("false")
		}
	case jNum:
		if n.n.IsConst() {
			lit(fmt.Sprint(n.n.Int64()))
		} else {
			p.note("encoding/json model: symbolic integers are single decimal digits 0..9 on the wire")
			p.assumeTerm(p.tc.And(p.tc.Cmp(OpSLe, p.tc.BV(64, 0), n.n), p.tc.Cmp(OpSLe, n.n, p.tc.BV(64, 9))))
			out = append(out, p.tc.Bin(OpAdd, p.tc.Resize(n.n, 8, false), p.byteConst(0x30)))
		}
	case jStr:
		out = p.jsonRenderString(n.s, out)
	case jArr:
		lit("[")
		for i, e := range n.arr {
			if i > 0 {
				lit(",")
			}
			out = p.jsonRender(e, out)
		}
		lit("]")
	case jObj:
		lit("{")
		for i := range n.keys {
			if i > 0 {
				lit(",")
			}
			out = p.jsonRenderString(n.keys[i], out)
			lit(":")
			out = p.jsonRender(n.vals[i], out)
		}
		lit("}")
	}
	return out
}

func (p *path) jsonRenderString(s Str, out []*Term) []*Term {
	if s.IsConcrete() {
		b, _ := json.Marshal(s.Concrete())
		return append(out, p.mkStr(string(b)).b...)
	}
	p.note("encoding/json model: symbolic string bytes are printable ASCII that JSON does not escape")
	out = append(out, p.byteConst('"'))
	for _, b := range s.b {
		if b.IsConst() {
			q, _ := json.Marshal(string([]byte{byte(b.val)}))
			out = append(out, p.mkStr(string(q[1:len(q)-1])).b...)
			continue
		}
		tc := p.tc
		ok := tc.And(tc.Cmp(OpULe, p.byteConst(0x20), b), tc.Cmp(OpULe, b, p.byteConst(0x7e)))
		for _, c := range []byte{'"', '\\', '<', '>', '&'} {
			ok = tc.And(ok, tc.Not(tc.Eq(b, p.byteConst(c))))
		}
		p.assumeTerm(ok)
		out = append(out, b)
	}
	return append(out, p.byteConst('"'))
}

// jsonBytes renders a document and registers the slice so that it can be read back.
func (p *path) jsonBytes(n *jnode) []value {
	ts := p.jsonRender(n, nil)
	out := make([]value, len(ts))
	for i, t := range ts {
		out[i] = t
	}
	if len(out) > 0 {
		p.jsonDocs()[&out[0]] = n
	}
	return out
}

// jsonOfBytes: the document of a byte slice: one rendered by the model, or concrete text.
func (p *path) jsonOfBytes(data []value) (*jnode, bool) {
	if len(data) > 0 {
		if n, ok := p.jsonDocs()[&data[0]]; ok {
			return n, true
		}
	}
	bs := make([]byte, len(data))
	for i, v := range data {
		t, ok := v.(*Term)
		if !ok || !t.IsConst() {
			p.unsupported("encoding/json model: parsing symbolic bytes that the model did not produce")
		}
		bs[i] = byte(t.val)
	}
	dec := json.NewDecoder(bytes.NewReader(bs))
	dec.UseNumber()
	var v interface{}
	if err := dec.Decode(&v); err != nil {
		return nil, false
	}
	if dec.More() {
		return nil, false
	}
	return p.jsonFromGeneric(v, bs), true
}

func (p *path) jsonFromGeneric(v interface{}, src []byte) *jnode {
	switch v := v.(type) {
	case nil:
		return &jnode{kind: jNull}
	case bool:
		return &jnode{kind: jBool, b: p.tc.Bool(v)}
	case json.Number:
		n, err := v.Int64()
		if err != nil {
			p.unsupported("encoding/json model: non-integer number")
		}
		return &jnode{kind: jNum, n: p.tc.BV(64, uint64(n))}
	case string:
		return &jnode{kind: jStr, s: p.mkStr(v)}
	case []interface{}:
		n := &jnode{kind: jArr}
		for _, e := range v {
			n.arr = append(n.arr, p.jsonFromGeneric(e, src))
		}
		return n
	case map[string]interface{}:
		// key order of the source text is not kept by the generic decoder: sorted (only matters for re-rendering)
		keys := make([]string, 0, len(v))
		for k := range v {
			keys = append(keys, k)
		}
		sort.Strings(keys)
		n := &jnode{kind: jObj}
		for _, k := range keys {
			n.keys = append(n.keys, p.mkStr(k))
			n.vals = append(n.vals, p.jsonFromGeneric(v[k], src))
		}
		return n
	}
	p.unsupported(fmt.Sprintf("encoding/json model: generic value %T", v))
	return nil
}

// ---------------------------------------------------------------------------
// struct fields

type jfield struct {
	name      string
	index     []int // path through embedded structs
	typ       types.Type
	omitEmpty bool
	tagged    bool // the name comes from the json tag
}

// jsonFields: the fields encoding/json (de)codes for a struct, in index order. For a name reached several
// times (embedded structs are flattened) the dominant field is kept: the one of least depth; among several
// of least depth the single tagged one; otherwise none of them.
func jsonFields(t *types.Struct, prefix []int, out []jfield, depth int) []jfield {
	all := jsonFieldsAll(t, prefix, out, depth)
	var kept []jfield
	for i, f := range all {
		dominant := true
		ties, taggedTies := 0, 0
		for j, g := range all {
			if i == j || g.name != f.name {
				continue
			}
			if len(g.index) < len(f.index) {
				dominant = false
			} else if len(g.index) == len(f.index) {
				ties++
				if g.tagged {
					taggedTies++
				}
			}
		}
		if dominant && ties > 0 && !(f.tagged && taggedTies == 0) {
			dominant = false
		}
		if dominant {
			kept = append(kept, f)
		}
	}
	return kept
}

func jsonFieldsAll(t *types.Struct, prefix []int, out []jfield, depth int) []jfield {
	if depth > 6 {
		return out
	}
	for i := 0; i < t.NumFields(); i++ {
		f := t.Field(i)
		tag := reflect.StructTag(t.Tag(i)).Get("json")
		if tag == "-" {
			continue
		}
		name, opts, _ := strings.Cut(tag, ",")
		idx := append(append([]int{}, prefix...), i)
		if f.Embedded() && name == "" {
			ft := f.Type()
			if pt, ok := ft.Underlying().(*types.Pointer); ok {
				ft = pt.Elem()
			}
			if st, ok := ft.Underlying().(*types.Struct); ok {
				if _, isPtr := f.Type().Underlying().(*types.Pointer); isPtr {
					continue // embedded pointers to structs: not modelled (skipped with a note by the caller)
				}
				out = jsonFieldsAll(st, idx, out, depth+1)
				continue
			}
		}
		if !f.Exported() {
			continue
		}
		tagged := true
		if name == "" || !jsonValidTag(name) {
			name, tagged = f.Name(), false
		}
		out = append(out, jfield{name: name, index: idx, typ: f.Type(), omitEmpty: strings.Contains(","+opts+",", ",omitempty,"), tagged: tagged})
	}
	return out
}

func jsonValidTag(s string) bool {
	if s == "" {
		return false
	}
	for _, c := range s {
		switch {
		case strings.ContainsRune("!#$%&()*+-./:;<=>?@[]^_{|}~ ", c):
		case c >= '0' && c <= '9', c >= 'a' && c <= 'z', c >= 'A' && c <= 'Z', c > 127:
		default:
			return false
		}
	}
	return true
}

func fieldAt(v value, index []int) value {
	for _, i := range index {
		v = v.(structure)[i]
	}
	return v
}

func fieldCell(c *value, index []int) *value {
	for _, i := range index {
		st := (*c).(structure)
		c = &st[i]
	}
	return c
}

// ---------------------------------------------------------------------------
// methods

// isStdTime: time.Time itself (a user-defined type over it has no MarshalJSON and is not concerned).
func isStdTime(t types.Type) bool {
	n, ok := t.(*types.Named)
	return ok && n.Obj().Pkg() != nil && n.Obj().Pkg().Path() == "time" && n.Obj().Name() == "Time"
}

const zeroTimeJSON = "0001-01-01T00:00:00Z"

func isRawMessage(t types.Type) bool {
	n, ok := t.(*types.Named)
	return ok && n.Obj().Pkg() != nil && n.Obj().Pkg().Path() == "encoding/json" && n.Obj().Name() == "RawMessage"
}

// jsonMethod finds an interpreted method (MarshalJSON / UnmarshalJSON) in the method set of t.
func jsonMethod(prog *ssa.Program, t types.Type, name string) *ssa.Function {
	if _, isItf := t.Underlying().(*types.Interface); isItf {
		return nil
	}
	ms := prog.MethodSets.MethodSet(t)
	for i := 0; i < ms.Len(); i++ {
		if ms.At(i).Obj().Name() == name {
			f := prog.MethodValue(ms.At(i))
			if f != nil && (f.Blocks != nil || f.Synthetic != "") {
				return f
			}
		}
	}
	return nil
}

func (p *path) jsonError(msg string) iface { return p.mkErrorIface(p.mkStr(msg)) }

// ---------------------------------------------------------------------------
// Marshal

type jsonAbort struct{ err iface }

func (p *path) jsonMarshal(caller *frame, t types.Type, v value, addressable bool) *jnode {
	prog := caller.fn.Prog
	if isRawMessage(t) {
		raw, _ := v.([]value)
		if raw == nil {
			return &jnode{kind: jNull}
		}
		n, ok := p.jsonOfBytes(raw)
		if !ok {
			panic(jsonAbort{p.jsonError("json: error calling MarshalJSON for type json.RawMessage: invalid document")})
		}
		return n
	}
	if isStdTime(t) {
		p.note("encoding/json model: time.Time values are the zero instant (time.Unix/Date/Now are opaque)")
		return &jnode{kind: jStr, s: p.mkStr(zeroTimeJSON)}
	}
	// Marshaler
	{
		callWith := func(f *ssa.Function, recv value) *jnode {
			res := p.call(caller, f, []value{recv}, nil).(tuple)
			if e, _ := res[1].(iface); e.t != nil {
				panic(jsonAbort{e})
			}
			raw, _ := res[0].([]value)
			n, ok := p.jsonOfBytes(raw)
			if !ok {
				panic(jsonAbort{p.jsonError("json: error calling MarshalJSON: invalid document")})
			}
			return n
		}
		if _, ok := t.Underlying().(*types.Pointer); ok {
			if ptr, _ := v.(*value); ptr == nil {
				return &jnode{kind: jNull}
			}
		}
		if f := jsonMethod(prog, t, "MarshalJSON"); f != nil {
			return callWith(f, copyVal(v))
		}
		if _, isPtr := t.Underlying().(*types.Pointer); !isPtr && addressable {
			if f := jsonMethod(prog, types.NewPointer(t), "MarshalJSON"); f != nil {
				c := new(value)
				*c = copyVal(v)
				return callWith(f, c)
			}
		}
	}
	switch u := t.Underlying().(type) {
	case *types.Basic:
		switch {
		case u.Info()&types.IsBoolean != 0:
			b := v.(*Term)
			return &jnode{kind: jBool, b: p.tc.Bool(p.branch(b))}
		case u.Info()&types.IsInteger != 0:
			x := v.(*Term)
			return &jnode{kind: jNum, n: p.tc.Resize(x, 64, !isUnsigned(u))}
		case u.Info()&types.IsString != 0:
			return &jnode{kind: jStr, s: v.(Str)}
		}
		p.unsupported("encoding/json model: value of type " + u.String())
	case *types.Pointer:
		ptr, _ := v.(*value)
		if ptr == nil {
			return &jnode{kind: jNull}
		}
		return p.jsonMarshal(caller, u.Elem(), *ptr, true)
	case *types.Interface:
		i, _ := v.(iface)
		if i.t == nil {
			return &jnode{kind: jNull}
		}
		return p.jsonMarshal(caller, i.t, i.v, false)
	case *types.Struct:
		n := &jnode{kind: jObj}
		for _, f := range jsonFields(u, nil, nil, 0) {
			fv := fieldAt(v, f.index)
			if f.omitEmpty && p.jsonIsEmpty(f.typ, fv) {
				continue
			}
			n.keys = append(n.keys, p.mkStr(f.name))
			n.vals = append(n.vals, p.jsonMarshal(caller, f.typ, fv, addressable))
		}
		return n
	case *types.Slice:
		s, _ := v.([]value)
		if s == nil {
			return &jnode{kind: jNull}
		}
		if b, ok := u.Elem().Underlying().(*types.Basic); ok && b.Kind() == types.Uint8 {
			p.unsupported("encoding/json model: []byte (base64)")
		}
		n := &jnode{kind: jArr, arr: []*jnode{}}
		for _, e := range s {
			n.arr = append(n.arr, p.jsonMarshal(caller, u.Elem(), e, true))
		}
		return n
	case *types.Array:
		n := &jnode{kind: jArr, arr: []*jnode{}}
		for _, e := range v.(array) {
			n.arr = append(n.arr, p.jsonMarshal(caller, u.Elem(), e, addressable))
		}
		return n
	case *types.Map:
		m, _ := v.(*smap)
		if m == nil {
			return &jnode{kind: jNull}
		}
		type kv struct {
			k Str
			v *jnode
		}
		var kvs []kv
		for i := range m.keys {
			var ks Str
			switch k := m.keys[i].(type) {
			case Str:
				ks = k
			case *Term:
				kb, isB := u.Key().Underlying().(*types.Basic)
				if !isB || kb.Info()&types.IsInteger == 0 {
					p.unsupported("encoding/json model: map key type")
				}
				if !k.IsConst() {
					p.unsupported("encoding/json model: symbolic integer map key")
				}
				if isUnsigned(kb) {
					ks = p.mkStr(fmt.Sprint(k.val))
				} else {
					ks = p.mkStr(fmt.Sprint(k.Int64()))
				}
			default:
				p.unsupported("encoding/json model: map key")
			}
			kvs = append(kvs, kv{ks, p.jsonMarshal(caller, u.Elem(), m.vals[i], false)})
		}
		// keys are written sorted (byte-wise)
		for i := 1; i < len(kvs); i++ {
			for j := i; j > 0 && p.branch(p.strLess(kvs[j].k, kvs[j-1].k, false)); j-- {
				kvs[j], kvs[j-1] = kvs[j-1], kvs[j]
			}
		}
		n := &jnode{kind: jObj}
		for _, e := range kvs {
			n.keys = append(n.keys, e.k)
			n.vals = append(n.vals, e.v)
		}
		return n
	}
	p.unsupported("encoding/json model: marshal of " + t.String())
	return nil
}

func (p *path) jsonIsEmpty(t types.Type, v value) bool {
	switch u := t.Underlying().(type) {
	case *types.Basic:
		switch x := v.(type) {
		case *Term:
			if x.sort == 0 {
				return !p.branch(x)
			}
			return p.branch(p.tc.Eq(x, p.tc.BV(x.sort, 0)))
		case Str:
			return len(x.b) == 0
		}
	case *types.Pointer:
		ptr, _ := v.(*value)
		return ptr == nil
	case *types.Interface:
		i, _ := v.(iface)
		return i.t == nil
	case *types.Slice:
		s, _ := v.([]value)
		return len(s) == 0
	case *types.Map:
		m, _ := v.(*smap)
		return m == nil || len(m.keys) == 0
	case *types.Array:
		return u.Len() == 0
	}
	return false
}

func stubJSONMarshal(p *path, caller *frame, a []value) (res value) {
	defer func() {
		if r := recover(); r != nil {
			if ja, ok := r.(jsonAbort); ok {
				res = tuple{[]value(nil), ja.err}
				return
			}
			panic(r)
		}
	}()
	x, _ := a[0].(iface)
	var n *jnode
	if x.t == nil {
		n = &jnode{kind: jNull}
	} else {
		n = p.jsonMarshal(caller, x.t, x.v, false)
	}
	return tuple{p.jsonBytes(n), iface{}}
}

// ---------------------------------------------------------------------------
// Unmarshal

func jsonKindName(k jkind) string {
	return [...]string{"null", "bool", "number", "string", "array", "object"}[k]
}

// jsonUnmarshal stores the document into the cell of type t. The first error is returned (decoding goes on, as in encoding/json).
func (p *path) jsonUnmarshal(caller *frame, n *jnode, t types.Type, dest *value) (err iface) {
	prog := caller.fn.Prog
	keep := func(e iface) {
		if err.t == nil {
			err = e
		}
	}
	mismatch := func() {
		keep(p.jsonError("json: cannot unmarshal " + jsonKindName(n.kind) + " into Go value of type " + t.String()))
	}
	if isRawMessage(t) {
		*dest = p.jsonBytes(n)
		return
	}
	if isStdTime(t) {
		if n.kind == jNull {
			return
		}
		if n.kind != jStr || !n.s.IsConcrete() || n.s.Concrete() != zeroTimeJSON {
			p.unsupported("encoding/json model: decoding a time other than the zero instant")
		}
		*dest = p.zero(t)
		return
	}
	// Unmarshaler on *t (the destination is addressable)
	if _, isPtr := t.Underlying().(*types.Pointer); !isPtr {
		if f := jsonMethod(prog, types.NewPointer(t), "UnmarshalJSON"); f != nil {
			res := p.call(caller, f, []value{dest, p.jsonBytes(n)}, nil)
			if e, _ := res.(iface); e.t != nil {
				keep(e)
			}
			return
		}
	}
	switch u := t.Underlying().(type) {
	case *types.Pointer:
		if n.kind == jNull {
			*dest = (*value)(nil)
			return
		}
		ptr, _ := (*dest).(*value)
		if ptr == nil {
			ptr = new(value)
			*ptr = p.zero(u.Elem())
			*dest = ptr
		}
		return p.jsonUnmarshal(caller, n, u.Elem(), ptr)
	case *types.Interface:
		if n.kind == jNull {
			*dest = iface{}
			return
		}
		if u.NumMethods() == 0 {
			p.unsupported("encoding/json model: decoding into interface{}")
		}
		mismatch()
		return
	case *types.Basic:
		if n.kind == jNull {
			return
		}
		switch {
		case u.Info()&types.IsBoolean != 0:
			if n.kind != jBool {
				mismatch()
				return
			}
			*dest = n.b
		case u.Info()&types.IsInteger != 0:
			if n.kind != jNum {
				mismatch()
				return
			}
			*dest = p.tc.Resize(n.n, bvWidth(u), !isUnsigned(u))
		case u.Info()&types.IsString != 0:
			if n.kind != jStr {
				mismatch()
				return
			}
			*dest = n.s
		default:
			p.unsupported("encoding/json model: decoding into " + u.String())
		}
		return
	case *types.Struct:
		if n.kind == jNull {
			return
		}
		if n.kind != jObj {
			mismatch()
			return
		}
		fields := jsonFields(u, nil, nil, 0)
		for i, k := range n.keys {
			if !k.IsConcrete() {
				p.unsupported("encoding/json model: symbolic object key decoded into a struct")
			}
			key := k.Concrete()
			var hit *jfield
			for fi := range fields {
				if fields[fi].name == key {
					hit = &fields[fi]
					break
				}
			}
			if hit == nil {
				for fi := range fields {
					if strings.EqualFold(fields[fi].name, key) {
						hit = &fields[fi]
						break
					}
				}
			}
			if hit == nil {
				continue
			}
			if e := p.jsonUnmarshal(caller, n.vals[i], hit.typ, fieldCell(dest, hit.index)); e.t != nil {
				keep(e)
			}
		}
		return
	case *types.Slice:
		if n.kind == jNull {
			*dest = []value(nil)
			return
		}
		if n.kind != jArr {
			mismatch()
			return
		}
		s := make([]value, len(n.arr))
		for i := range s {
			s[i] = p.zero(u.Elem())
			if e := p.jsonUnmarshal(caller, n.arr[i], u.Elem(), &s[i]); e.t != nil {
				keep(e)
			}
		}
		*dest = s
		return
	case *types.Array:
		if n.kind == jNull {
			return
		}
		if n.kind != jArr {
			mismatch()
			return
		}
		a := (*dest).(array)
		for i := range a {
			if i < len(n.arr) {
				if e := p.jsonUnmarshal(caller, n.arr[i], u.Elem(), &a[i]); e.t != nil {
					keep(e)
				}
			} else {
				a[i] = p.zero(u.Elem())
			}
		}
		return
	case *types.Map:
		if n.kind == jNull {
			*dest = (*smap)(nil)
			return
		}
		if n.kind != jObj {
			mismatch()
			return
		}
		m, _ := (*dest).(*smap)
		if m == nil {
			m = &smap{keyT: u.Key()}
			*dest = m
		}
		for i, k := range n.keys {
			var key value = k
			if kb, ok := u.Key().Underlying().(*types.Basic); ok && kb.Info()&types.IsInteger != 0 {
				if !k.IsConcrete() {
					p.unsupported("encoding/json model: symbolic integer map key")
				}
				var x int64
				if _, e := fmt.Sscan(k.Concrete(), &x); e != nil {
					keep(p.jsonError("json: cannot unmarshal number " + k.Concrete() + " into Go value of type " + u.Key().String()))
					continue
				}
				key = p.tc.BV(bvWidth(kb), uint64(x))
			}
			c := new(value)
			*c = p.zero(u.Elem())
			if e := p.jsonUnmarshal(caller, n.vals[i], u.Elem(), c); e.t != nil {
				keep(e)
			}
			p.mapInsert(m, key, *c)
		}
		return
	}
	p.unsupported("encoding/json model: decoding into " + t.String())
	return
}

func stubJSONUnmarshal(p *path, caller *frame, a []value) value {
	data, _ := a[0].([]value)
	x, _ := a[1].(iface)
	if x.t == nil {
		return p.jsonError("json: Unmarshal(nil)")
	}
	pt, isPtr := x.t.Underlying().(*types.Pointer)
	ptr, _ := x.v.(*value)
	if !isPtr || ptr == nil {
		return p.jsonError("json: Unmarshal(non-pointer " + x.t.String() + ")")
	}
	n, ok := p.jsonOfBytes(data)
	if !ok {
		return p.jsonError("invalid character: syntax error in JSON document")
	}
	return p.jsonUnmarshal(caller, n, pt.Elem(), ptr)
}

// ---------------------------------------------------------------------------
// vfDeepEqual(a, b any) bool: reflect.DeepEqual, a nil and an empty slice or map counting as equal.

func (p *path) deepEqual(a, b value) *Term {
	tc := p.tc
	switch x := a.(type) {
	case iface:
		y, ok := b.(iface)
		if !ok {
			return tc.ff
		}
		if x.t == nil || y.t == nil {
			return tc.Bool(x.t == nil && y.t == nil)
		}
		if !types.Identical(x.t, y.t) {
			return tc.ff
		}
		return p.deepEqual(x.v, y.v)
	case *value:
		y, ok := b.(*value)
		if !ok {
			return tc.ff
		}
		if x == nil || y == nil {
			return tc.Bool(x == nil && y == nil)
		}
		return p.deepEqual(*x, *y)
	case []value:
		y, ok := b.([]value)
		if !ok || len(x) != len(y) {
			return tc.ff
		}
		r := tc.tt
		for i := range x {
			r = tc.And(r, p.deepEqual(x[i], y[i]))
		}
		return r
	case array:
		y, ok := b.(array)
		if !ok || len(x) != len(y) {
			return tc.ff
		}
		r := tc.tt
		for i := range x {
			r = tc.And(r, p.deepEqual(x[i], y[i]))
		}
		return r
	case structure:
		y, ok := b.(structure)
		if !ok || len(x) != len(y) {
			return tc.ff
		}
		r := tc.tt
		for i := range x {
			r = tc.And(r, p.deepEqual(x[i], y[i]))
		}
		return r
	case *smap:
		y, ok := b.(*smap)
		if !ok {
			return tc.ff
		}
		nx, ny := 0, 0
		if x != nil {
			nx = len(x.keys)
		}
		if y != nil {
			ny = len(y.keys)
		}
		if nx != ny {
			return tc.ff
		}
		r := tc.tt
		for i := 0; i < nx; i++ {
			j := p.mapFind(y, x.keys[i])
			if j < 0 {
				return tc.ff
			}
			r = tc.And(r, p.deepEqual(x.vals[i], y.vals[j]))
		}
		return r
	}
	return p.equals(a, b)
}

func vfDeepEqual(p *path, _ *frame, a []value) value { return p.deepEqual(a[0], a[1]) }

func registerJSONStubs() {
	stubs["encoding/json.Marshal"] = stubJSONMarshal
	stubs["encoding/json.Unmarshal"] = stubJSONUnmarshal
}
