package main

// Threads and the os/exec / sync environment (C20). Placeholder: single thread.

import (
	"golang.org/x/tools/go/ssa"
)

type thread struct{ id int }

type threadWorld struct{}

var threadStubs = map[string]stubFn{}

func (p *path) currentThread() *thread { return nil }

func (p *path) memAccess(fr *frame, ptr *value, write bool, instr ssa.Instruction) {}

func (p *path) noteAlloc(fr *frame, ptr *value) {}

func (p *path) spawn(fr *frame, fn value, args []value, instr *ssa.Go) {
	p.unsupported("go statement")
}

func vfExecLog(p *path, _ *frame, a []value) value { p.unsupported("vfExecLog"); return nil }
func vfExecErr(p *path, _ *frame, a []value) value { p.unsupported("vfExecErr"); return nil }
