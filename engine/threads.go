package main

// Threads, sync and os/exec environment (C20).
//
// Every `go` statement creates an engine thread, run by its own host goroutine; exactly one
// thread runs at a time. Scheduling points: sync operations, the exec stub and thread exit; at
// each of them the engine case-splits on which runnable thread moves next (all choices).
// Happens-before is tracked with vector clocks (spawn, unlock->lock, Done->Wait); two conflicting
// accesses to one memory cell that are not ordered are a data race.

import (
	"fmt"
	"path/filepath"
	"strings"

	"golang.org/x/tools/go/ssa"
)

type thread struct {
	id     int
	vc     []int
	resume chan struct{}
	done   bool
	waitM  *mutexState
	waitWG *wgState
}

type mutexState struct {
	held  bool
	owner int
	relVC []int
}

type wgState struct {
	count int
	vc    []int
}

type accessRec struct {
	tid, clk int
	site     string
}

type cellInfo struct {
	w     accessRec
	reads map[int]accessRec
}

type cmdV struct{ argv []string }

type execRule struct {
	tool, file string
	ok         *Term
}

type threadWorld struct {
	threads  []*thread
	cur      *thread
	cells    map[*value]*cellInfo
	mutexes  map[*value]*mutexState
	wgs      map[*value]*wgState
	execLog  []string
	onces    map[*value]*onceFn
	written  map[string]Str // os.WriteFile model: last content per file name
	execPlan []execRule
	fatal    interface{}
	killed   bool

	preemptions int // context switches away from a runnable thread on this path

	raceClause, deadlockClause string
	raceReported               map[string]bool
}

type threadKilled struct{}

var threadStubs = map[string]stubFn{
	"(*sync.Mutex).Lock":                         stubMutexLock,
	"(*sync.Mutex).Unlock":                       stubMutexUnlock,
	"(*sync.WaitGroup).Add":                      stubWGAdd,
	"(*sync.WaitGroup).Done":                     stubWGDone,
	"(*sync.WaitGroup).Wait":                     stubWGWait,
	"os/exec.Command":                            stubExecCommand,
	"(*os/exec.Cmd).Run":                         stubCmdRun,
	"(*os/exec.Cmd).Output":                      stubCmdOutput,
	"(*os/exec.Cmd).CombinedOutput":              stubCmdOutput,
	"os.WriteFile":                               stubWriteFile,
	"os.Stat":                                    stubStat,
	"path/filepath.Abs":                          stubAbs,
	"os.Getwd":                                   func(p *path, _ *frame, a []value) value { return tuple{p.mkStr(engineWorkDir), iface{}} },
	"sync.OnceValue":                             stubOnceValue,
	"sync.OnceFunc":                              stubOnceValue,
	"(*sync.Once).Do":                            stubOnceDo,
	"(*sync.Map).Load":                           stubSyncMapLoad,
	"(*sync.Map).Store":                          stubSyncMapStore,
	"(*sync.Map).LoadOrStore":                    stubSyncMapLoadOrStore,
	"(*sync.Map).Delete":                         stubSyncMapDelete,
	"golang.org/x/tools/go/packages.Load":        stubPackagesLoad,
	"golang.org/x/tools/go/packages.PrintErrors": stubPrintErrors,
}

func (p *path) ensureWorld() *threadWorld {
	if p.world == nil {
		main := &thread{id: 0, vc: []int{1}, resume: make(chan struct{})}
		p.world = &threadWorld{
			threads: []*thread{main}, cur: main, cells: map[*value]*cellInfo{}, mutexes: map[*value]*mutexState{},
			wgs: map[*value]*wgState{}, raceClause: "RACE", deadlockClause: "DEADLOCK",
			raceReported: map[string]bool{},
		}
	}
	return p.world
}

func (p *path) currentThread() *thread {
	if p.world == nil {
		return nil
	}
	return p.world.cur
}

func vcGet(vc []int, i int) int {
	if i < len(vc) {
		return vc[i]
	}
	return 0
}

func vcJoin(a, b []int) []int {
	n := len(a)
	if len(b) > n {
		n = len(b)
	}
	out := make([]int, n)
	for i := range out {
		out[i] = vcGet(a, i)
		if x := vcGet(b, i); x > out[i] {
			out[i] = x
		}
	}
	return out
}

func (t *thread) tick() {
	for len(t.vc) <= t.id {
		t.vc = append(t.vc, 0)
	}
	t.vc[t.id]++
}

func (p *path) runnable(t *thread) bool {
	if t.done {
		return false
	}
	if t.waitM != nil && t.waitM.held {
		return false
	}
	if t.waitWG != nil && t.waitWG.count > 0 {
		return false
	}
	return true
}

// afterResume is called by a thread that has just been woken up.
func (p *path) afterResume(t *thread) {
	w := p.world
	if w.killed {
		panic(threadKilled{})
	}
	if t.id == 0 && w.fatal != nil {
		f := w.fatal
		w.fatal = nil
		panic(f)
	}
}

// schedule is a scheduling point: any runnable thread may move next.
func (p *path) schedule() {
	w := p.world
	if w == nil || len(w.threads) < 2 {
		return
	}
	if p.spec > 0 {
		panic(specAbort{})
	}
	cur := w.cur
	var run []*thread
	if p.runnable(cur) {
		run = append(run, cur) // choice 0 = keep running
	}
	for _, t := range w.threads {
		if t != cur && p.runnable(t) {
			run = append(run, t)
		}
	}
	if len(run) == 0 {
		p.reportThreadViolation(w.deadlockClause, "all threads are blocked")
		p.abort(abortDone, "")
	}
	k := 0
	if len(run) > 1 {
		// preemption bound (context bounding): leaving a thread that could go on costs one preemption;
		// once the budget of the path is spent the running thread keeps running until it blocks or ends
		bound, bounded := p.cfg.Params["VF.preemptions"]
		if bounded && run[0] == cur && w.preemptions >= bound {
			k = 0
		} else {
			k = p.choose(len(run))
			p.envChoices++
			p.envDeviations++ // every schedule is an environment choice
			if run[0] == cur && k != 0 {
				w.preemptions++
			}
		}
	}
	next := run[k]
	if next == cur {
		return
	}
	w.cur = next
	next.resume <- struct{}{}
	if cur.done {
		return
	}
	<-cur.resume
	p.afterResume(cur)
}

func (p *path) reportThreadViolation(clause, detail string) {
	w := p.world
	if w.raceReported[clause+detail] {
		return
	}
	w.raceReported[clause+detail] = true
	p.reached[clause]++
	r, m := p.sol.Check(purposeWitness, true, p.allVars())
	if r != "sat" {
		return
	}
	p.violations = append(p.violations, &Violation{
		Property: p.propertyOf(clause), Clause: clause, Model: p.modelToInputs(m),
		Decisions: append([]int{}, p.decisions...), EnvChoice: true, Detail: detail,
	})
}

func (p *path) spawn(fr *frame, fn value, args []value, instr *ssa.Go) {
	w := p.ensureWorld()
	parent := w.cur
	child := &thread{id: len(w.threads), resume: make(chan struct{})}
	child.vc = append([]int{}, parent.vc...)
	for len(child.vc) <= child.id {
		child.vc = append(child.vc, 0)
	}
	child.vc[child.id] = 1
	parent.tick()
	w.threads = append(w.threads, child)
	go func() {
		<-child.resume
		defer func() {
			r := recover()
			if _, killed := r.(threadKilled); killed || w.killed {
				return
			}
			if r != nil {
				// hand the abort / panic over to the main thread
				child.done = true
				w.fatal = r
				w.cur = w.threads[0]
				w.threads[0].resume <- struct{}{}
				return
			}
		}()
		if w.killed {
			panic(threadKilled{})
		}
		p.call(nil, fn, args, &instr.Call)
		child.done = true
		child.tick()
		p.schedule() // thread exit: somebody else moves (or deadlock)
	}()
}

// killThreads releases the goroutines of a finished path.
func (p *path) killThreads() {
	w := p.world
	if w == nil {
		return
	}
	w.killed = true
	for _, t := range w.threads {
		if t.id != 0 && !t.done {
			close(t.resume)
		}
	}
}

// memAccess: data-race detection on every load/store through a pointer.
func (p *path) memAccess(fr *frame, ptr *value, write bool, instr ssa.Instruction) {
	w := p.world
	if w == nil || len(w.threads) < 2 {
		return
	}
	t := w.cur
	ci := w.cells[ptr]
	if ci == nil {
		ci = &cellInfo{w: accessRec{tid: -1}, reads: map[int]accessRec{}}
		w.cells[ptr] = ci
	}
	site := fr.pos(instr)
	me := accessRec{tid: t.id, clk: vcGet(t.vc, t.id), site: site}
	conflict := func(o accessRec, kind string) {
		if o.tid >= 0 && o.tid != t.id && o.clk > vcGet(t.vc, o.tid) {
			p.reportThreadViolation(w.raceClause, fmt.Sprintf("%s: %s (thread %d) vs %s (thread %d)", kind, o.site, o.tid, site, t.id))
		}
	}
	if write {
		conflict(ci.w, "write-write")
		for _, r := range ci.reads {
			conflict(r, "read-write")
		}
		ci.w = me
		ci.reads = map[int]accessRec{}
	} else {
		conflict(ci.w, "write-read")
		ci.reads[t.id] = me
	}
}

func (p *path) noteAlloc(fr *frame, ptr *value) {}

// --- sync.Once / sync.OnceValue / sync.OnceFunc: the function runs under a lock of its own on the first
// call; later calls (and concurrent callers, once the first has finished) get the stored result. The
// happens-before edges are those of the lock.

type onceFn struct {
	mu   *value // identity of the internal lock
	f    value
	done bool
	res  value
}

func stubOnceValue(p *path, _ *frame, a []value) value {
	return &onceFn{mu: new(value), f: a[0]}
}

func (p *path) callOnce(caller *frame, o *onceFn) value {
	stubMutexLock(p, caller, []value{o.mu})
	if !o.done {
		o.res = p.call(caller, o.f, nil, nil)
		o.done = true
	}
	stubMutexUnlock(p, caller, []value{o.mu})
	return o.res
}

func stubOnceDo(p *path, fr *frame, a []value) value {
	ptr, ok := a[0].(*value)
	if !ok || ptr == nil {
		p.runtimePanic("nil pointer dereference", "sync.Once")
	}
	w := p.ensureWorld()
	if w.onces == nil {
		w.onces = map[*value]*onceFn{}
	}
	o := w.onces[ptr]
	if o == nil {
		o = &onceFn{mu: new(value)}
		w.onces[ptr] = o
	}
	o.f = a[1]
	p.callOnce(fr, o)
	return nil
}

// --- sync.Mutex

func (p *path) mutexOf(v value) *mutexState {
	ptr, ok := v.(*value)
	if !ok || ptr == nil {
		p.runtimePanic("nil pointer dereference", "sync.Mutex")
	}
	w := p.ensureWorld()
	m := w.mutexes[ptr]
	if m == nil {
		m = &mutexState{}
		w.mutexes[ptr] = m
	}
	return m
}

func stubMutexLock(p *path, _ *frame, a []value) value {
	m := p.mutexOf(a[0])
	w := p.world
	p.schedule()
	t := w.cur
	for m.held {
		if len(w.threads) < 2 {
			p.reportThreadViolation(w.deadlockClause, "Lock of a mutex held by the only thread")
			p.abort(abortDone, "")
		}
		t.waitM = m
		p.schedule()
		t.waitM = nil
	}
	m.held = true
	m.owner = t.id
	t.vc = vcJoin(t.vc, m.relVC)
	return nil
}

func stubMutexUnlock(p *path, _ *frame, a []value) value {
	m := p.mutexOf(a[0])
	w := p.world
	if !m.held {
		panic(targetPanic{v: p.mkStr("fatal error: sync: unlock of unlocked mutex"), where: "sync.Mutex.Unlock"})
	}
	p.schedule() // scheduling point before the visible operation
	t := w.cur
	m.held = false
	m.relVC = append([]int{}, t.vc...)
	t.tick()
	return nil
}

// --- sync.WaitGroup

func (p *path) wgOf(v value) *wgState {
	ptr, ok := v.(*value)
	if !ok || ptr == nil {
		p.runtimePanic("nil pointer dereference", "sync.WaitGroup")
	}
	w := p.ensureWorld()
	g := w.wgs[ptr]
	if g == nil {
		g = &wgState{}
		w.wgs[ptr] = g
	}
	return g
}

func stubWGAdd(p *path, _ *frame, a []value) value {
	g := p.wgOf(a[0])
	g.count += int(p.concreteInt(a[1].(*Term), -8, 8, "WaitGroup.Add"))
	if g.count < 0 {
		panic(targetPanic{v: p.mkStr("sync: negative WaitGroup counter"), where: "sync.WaitGroup.Add"})
	}
	return nil
}

func stubWGDone(p *path, _ *frame, a []value) value {
	g := p.wgOf(a[0])
	t := p.world.cur
	g.count--
	if g.count < 0 {
		panic(targetPanic{v: p.mkStr("sync: negative WaitGroup counter"), where: "sync.WaitGroup.Done"})
	}
	// Done commutes with every operation of the other threads except Wait, which it can only
	// enable: no scheduling point is needed here (the waiter is chosen at the next one)
	g.vc = vcJoin(g.vc, t.vc)
	t.tick()
	return nil
}

func stubWGWait(p *path, _ *frame, a []value) value {
	g := p.wgOf(a[0])
	w := p.world
	t := w.cur
	p.schedule()
	for g.count > 0 {
		t.waitWG = g
		p.schedule()
		t.waitWG = nil
	}
	t.vc = vcJoin(t.vc, g.vc)
	return nil
}

// --- os/exec

func stubExecCommand(p *path, _ *frame, a []value) value {
	name := a[0].(Str)
	if !name.IsConcrete() {
		p.unsupported("exec.Command with a symbolic name")
	}
	c := &cmdV{argv: []string{name.Concrete()}}
	args, _ := a[1].([]value)
	for _, x := range args {
		s := x.(Str)
		if !s.IsConcrete() {
			p.unsupported("exec.Command with a symbolic argument")
		}
		c.argv = append(c.argv, s.Concrete())
	}
	return host{c}
}

// normalise maps a command line to (tool, file): tool is argv[0] (the probed tool for `which`),
// file the first argument that is a planned file name ("" for a probe).
func (w *threadWorld) normalise(argv []string) (string, string) {
	tool := argv[0]
	if tool == "which" && len(argv) > 1 {
		tool = argv[1]
	}
	for _, a := range argv[1:] {
		for _, r := range w.execPlan {
			if r.file != "" && r.file == a {
				return tool, a
			}
		}
	}
	return tool, ""
}

func (p *path) execOutcome(recv value) bool {
	h, ok := recv.(host)
	if !ok {
		p.unsupported("exec.Cmd receiver")
	}
	c := h.v.(*cmdV)
	w := p.ensureWorld()
	tool, file := w.normalise(c.argv)
	p.schedule()
	w.execLog = append(w.execLog, tool+"|"+file)
	for _, r := range w.execPlan {
		if r.tool == tool && r.file == file {
			return p.branch(r.ok)
		}
	}
	p.unsupported("exec of a command the harness did not plan: " + strings.Join(c.argv, " "))
	return false
}

func (p *path) execError() value {
	return iface{t: errorDynType, v: p.newError(p.mkStr("exit status 1"), "exec")}
}

func stubCmdRun(p *path, _ *frame, a []value) value {
	if p.execOutcome(a[0]) {
		return iface{}
	}
	return p.execError()
}

// Output / CombinedOutput: same outcome, some bytes on success.
func stubCmdOutput(p *path, _ *frame, a []value) value {
	if p.execOutcome(a[0]) {
		out := []value{}
		for _, b := range p.mkStr("output\n").b {
			out = append(out, b)
		}
		return tuple{out, iface{}}
	}
	return tuple{[]value(nil), p.execError()}
}

// os.WriteFile: recorded in the command log as "write|<name>"; succeeds.
func stubWriteFile(p *path, _ *frame, a []value) value {
	name := a[0].(Str)
	if !name.IsConcrete() {
		p.unsupported("os.WriteFile with a symbolic name")
	}
	w := p.ensureWorld()
	p.schedule()
	w.execLog = append(w.execLog, "write|"+name.Concrete())
	if w.written == nil {
		w.written = map[string]Str{}
	}
	if bs, ok := a[1].([]value); ok {
		c := Str{b: make([]*Term, len(bs))}
		for i, b := range bs {
			c.b[i], _ = b.(*Term)
			if c.b[i] == nil {
				p.unsupported("os.WriteFile of a non-byte slice")
			}
		}
		w.written[name.Concrete()] = c
	}
	return iface{}
}

// vfWritten(name) (string, bool): the last content given to os.WriteFile for that name.
func vfWritten(p *path, _ *frame, a []value) value {
	w := p.ensureWorld()
	c, ok := w.written[p.argName(a[0])]
	return tuple{c, p.tc.Bool(ok)}
}

// vfExecSet(tool, file, succeeds): plans the outcome of the commands of `tool` that mention
// `file` (file == "": the commands that mention no planned file, i.e. the probe).
func vfExecSet(p *path, _ *frame, a []value) value {
	w := p.ensureWorld()
	w.execPlan = append(w.execPlan, execRule{p.argName(a[0]), p.argName(a[1]), a[2].(*Term)})
	return nil
}

// vfExecReset(): the environment changes: the planned outcomes and the log are forgotten (tools may be
// installed or removed between two uses of the code under test).
func vfExecResetI(p *path, _ *frame, a []value) value {
	w := p.ensureWorld()
	w.execPlan = nil
	w.execLog = nil
	return nil
}

// vfExecLog() []string: the command lines run so far, in order.
func vfExecLog(p *path, _ *frame, a []value) value {
	w := p.ensureWorld()
	out := make([]value, len(w.execLog))
	for i, l := range w.execLog {
		out[i] = p.mkStr(l)
	}
	return out
}

func vfExecErr(p *path, _ *frame, a []value) value { p.unsupported("vfExecErr"); return nil }

// vfThreads(raceClause, deadlockClause): names the clauses under which races and deadlocks are reported.
func vfThreads(p *path, _ *frame, a []value) value {
	w := p.ensureWorld()
	w.raceClause, w.deadlockClause = p.argName(a[0]), p.argName(a[1])
	p.reached[w.raceClause]++
	p.reached[w.deadlockClause]++
	return nil
}

// --- file system / packages.Load model (C17): the harness plans which files exist and what
// packages.Load returns.

type loadPlan struct {
	files    map[string]bool // existing files
	result   value           // []*packages.Package returned by packages.Load
	nbErrors int
	loadErr  bool
	calls    int
	dir      string
}

func (p *path) plan() *loadPlan {
	if p.loadPlan == nil {
		p.loadPlan = &loadPlan{files: map[string]bool{}}
	}
	return p.loadPlan
}

func vfFileExists(p *path, _ *frame, a []value) value {
	p.plan().files[p.argName(a[0])] = a[1].(*Term).IsTrue()
	return nil
}

func vfLoadResult(p *path, _ *frame, a []value) value {
	pl := p.plan()
	pl.result = a[0]
	if i, ok := a[0].(iface); ok {
		pl.result = i.v
		if i.t == nil {
			pl.result = []value(nil)
		}
	}
	pl.nbErrors = int(p.argInt(a[1]))
	return nil
}

func vfLoadDir(p *path, _ *frame, a []value) value { return p.mkStr(p.plan().dir) }

func stubStat(p *path, _ *frame, a []value) value {
	name := a[0].(Str)
	if !name.IsConcrete() {
		p.unsupported("os.Stat on a symbolic name")
	}
	clean := name.Concrete()
	if !strings.HasPrefix(clean, "/") {
		clean = filepath.Join(engineWorkDir, clean)
	}
	clean = filepath.Clean(clean)
	exists, planned := p.plan().files[clean]
	if !planned {
		p.unsupported("os.Stat on a file the harness did not plan: " + name.Concrete())
	}
	if exists {
		return tuple{iface{}, iface{}}
	}
	return tuple{iface{}, iface{t: errorDynType, v: p.newError(p.mkStr("stat "+name.Concrete()+": no such file or directory"), "")}}
}

// engineWorkDir: the working directory of the modelled process (os.Getwd, relative paths of filepath.Abs).
const engineWorkDir = "/work"

func stubAbs(p *path, _ *frame, a []value) value {
	name := a[0].(Str)
	if !name.IsConcrete() {
		p.unsupported("filepath.Abs on a symbolic path")
	}
	s := name.Concrete()
	if !strings.HasPrefix(s, "/") {
		s = filepath.Join(engineWorkDir, s)
	}
	return tuple{p.mkStr(filepath.Clean(s)), iface{}}
}

// sync.Map: a map from interface keys to interface values, keyed by the address of the sync.Map
// (package-level caches: the state lives for the whole path, like any global).
func (p *path) syncMap(recv value) *smap {
	c, ok := recv.(*value)
	if !ok || c == nil {
		p.runtimePanic("nil pointer dereference", "sync.Map")
	}
	if p.syncMaps == nil {
		p.syncMaps = map[*value]*smap{}
	}
	m := p.syncMaps[c]
	if m == nil {
		m = &smap{}
		p.syncMaps[c] = m
	}
	return m
}

func stubSyncMapLoad(p *path, _ *frame, a []value) value {
	m := p.syncMap(a[0])
	if i := p.mapFind(m, a[1]); i >= 0 {
		return tuple{copyVal(m.vals[i]), p.tc.tt}
	}
	return tuple{iface{}, p.tc.ff}
}

func stubSyncMapStore(p *path, _ *frame, a []value) value {
	p.mapInsert(p.syncMap(a[0]), a[1], a[2])
	return nil
}

func stubSyncMapLoadOrStore(p *path, _ *frame, a []value) value {
	m := p.syncMap(a[0])
	if i := p.mapFind(m, a[1]); i >= 0 {
		return tuple{copyVal(m.vals[i]), p.tc.tt}
	}
	p.mapInsert(m, a[1], a[2])
	return tuple{a[2], p.tc.ff}
}

func stubSyncMapDelete(p *path, _ *frame, a []value) value {
	p.mapDelete(p.syncMap(a[0]), a[1])
	return nil
}

func stubPackagesLoad(p *path, fr *frame, a []value) value {
	pl := p.plan()
	pl.calls++
	// record Config.Dir (first field access by name through the struct layout of the config)
	if cfgPtr, ok := a[0].(*value); ok && cfgPtr != nil {
		if st, isSt := (*cfgPtr).(structure); isSt {
			for _, f := range st {
				if s, isStr := f.(Str); isStr && s.IsConcrete() && strings.HasPrefix(s.Concrete(), "/") {
					pl.dir = s.Concrete()
				}
			}
		}
	}
	if pl.result == nil {
		p.unsupported("packages.Load without a planned result")
	}
	return tuple{pl.result, iface{}}
}

func stubPrintErrors(p *path, _ *frame, a []value) value {
	return p.tc.BV(64, uint64(p.plan().nbErrors))
}
