package main

// Interpreter values ("concrete structure, symbolic scalars").
//
//   *Term            bool and every integer type (sort Bool / BitVec 8,16,32,64)
//   Str              string: concrete length, one BV8 term per byte
//   []value          slice (Go slice header gives off/len/cap)
//   array            array value
//   structure        struct value
//   *value           pointer (address of a cell); (*value)(nil) is the nil pointer
//   iface            interface value; iface{} is nil
//   *smap            map (insertion-ordered entry list); (*smap)(nil) is the nil map
//   *closure, *ssa.Function, *ssa.Builtin   function values
//   tuple            multiple results
//   host             a real Go object of the environment world (go/types, go/constant, regexp ...)
//   *errorV          error values created by the engine's fmt.Errorf / errors.New stubs
//   unsupportedV     placeholder for float/complex/chan zero values (any use aborts the path)

import (
	"fmt"
	"go/types"
	"reflect"
	"strings"

	"golang.org/x/tools/go/ssa"
)

type value = interface{}

type tuple []value
type array []value
type structure []value

type iface struct {
	t types.Type
	v value
}

type closure struct {
	Fn  *ssa.Function
	Env []value
}

type Str struct{ b []*Term }

type host struct{ v interface{} }

type unsupportedV struct{ what string }

type errorV struct {
	msg  Str
	id   int
	kind string // "" ordinary, "exec" = error returned by the exec stub
}

type smap struct {
	keyT types.Type
	keys []value
	vals []value
}

// mapIter iterates over a snapshot of the keys.
type mapIter struct {
	m       *smap
	order   []value
	i       int
	permute bool
}

type strIter struct {
	s Str
	i int
}

func (s Str) Len() int { return len(s.b) }

func (s Str) IsConcrete() bool {
	for _, t := range s.b {
		if !t.IsConst() {
			return false
		}
	}
	return true
}

// Concrete returns the Go string of a fully concrete Str.
func (s Str) Concrete() string {
	bs := make([]byte, len(s.b))
	for i, t := range s.b {
		if !t.IsConst() {
			panic("Str.Concrete on symbolic string")
		}
		bs[i] = byte(t.val)
	}
	return string(bs)
}

// Show renders a string for diagnostics: symbolic bytes as '?'.
func (s Str) Show() string {
	var sb strings.Builder
	for _, t := range s.b {
		if t.IsConst() {
			sb.WriteByte(byte(t.val))
		} else {
			sb.WriteByte('?')
		}
	}
	return sb.String()
}

func (p *path) mkStr(s string) Str {
	b := make([]*Term, len(s))
	for i := 0; i < len(s); i++ {
		b[i] = p.byteConst(s[i])
	}
	return Str{b}
}

func (p *path) byteConst(c byte) *Term {
	if p.bytes[c] == nil {
		p.bytes[c] = p.tc.BV(8, uint64(c))
	}
	return p.bytes[c]
}

func concatStr(a, b Str) Str {
	out := make([]*Term, 0, len(a.b)+len(b.b))
	out = append(out, a.b...)
	out = append(out, b.b...)
	return Str{out}
}

// ---------------------------------------------------------------------------
// type helpers

func bvWidth(t types.Type) int {
	b, ok := t.Underlying().(*types.Basic)
	if !ok {
		return -1
	}
	switch b.Kind() {
	case types.Bool, types.UntypedBool:
		return 0
	case types.Int8, types.Uint8:
		return 8
	case types.Int16, types.Uint16:
		return 16
	case types.Int32, types.Uint32, types.UntypedRune:
		return 32
	case types.Int, types.Uint, types.Uintptr, types.Int64, types.Uint64, types.UntypedInt:
		return 64
	}
	return -1
}

func isUnsigned(t types.Type) bool {
	b, ok := t.Underlying().(*types.Basic)
	return ok && b.Info()&types.IsUnsigned != 0
}

func isString(t types.Type) bool {
	b, ok := t.Underlying().(*types.Basic)
	return ok && b.Info()&types.IsString != 0
}

var hostPkgs = map[string]bool{
	"go/types": true, "go/constant": true, "regexp": true, "go/token": true,
}

// isHostNamed reports whether t is a named (non-basic) type of an environment-world package.
func isHostNamed(t types.Type) bool {
	n, ok := t.(*types.Named)
	if !ok || n.Obj().Pkg() == nil {
		return false
	}
	if !hostPkgs[n.Obj().Pkg().Path()] {
		return false
	}
	switch n.Underlying().(type) {
	case *types.Basic, *types.Signature:
		return false // e.g. types.BasicKind, constant.Kind, types.Qualifier: ordinary values
	}
	return true
}

func (p *path) zero(t types.Type) value {
	switch t := t.(type) {
	case *types.Basic:
		if w := bvWidth(t); w == 0 {
			return p.tc.ff
		} else if w > 0 {
			return p.tc.BV(w, 0)
		}
		if t.Info()&types.IsString != 0 {
			return Str{}
		}
		if t.Kind() == types.UnsafePointer {
			return (*value)(nil)
		}
		if t.Kind() == types.UntypedNil {
			return iface{}
		}
		return unsupportedV{t.String()}
	case *types.Pointer:
		return (*value)(nil)
	case *types.Array:
		a := make(array, t.Len())
		for i := range a {
			a[i] = p.zero(t.Elem())
		}
		return a
	case *types.Named, *types.Alias:
		if isHostNamed(types.Unalias(t)) {
			if _, isItf := t.Underlying().(*types.Interface); isItf {
				return iface{}
			}
			if _, isStruct := t.Underlying().(*types.Struct); isStruct {
				return host{nil} // zero struct of a host type: only ever used through its address
			}
		}
		return p.zero(t.Underlying())
	case *types.Interface:
		return iface{}
	case *types.Slice:
		return []value(nil)
	case *types.Struct:
		s := make(structure, t.NumFields())
		for i := range s {
			s[i] = p.zero(t.Field(i).Type())
		}
		return s
	case *types.Tuple:
		if t.Len() == 1 {
			return p.zero(t.At(0).Type())
		}
		s := make(tuple, t.Len())
		for i := range s {
			s[i] = p.zero(t.At(i).Type())
		}
		return s
	case *types.Chan:
		return unsupportedV{"chan"}
	case *types.Map:
		return (*smap)(nil)
	case *types.Signature:
		return (*ssa.Function)(nil)
	case *types.TypeParam:
		return unsupportedV{"typeparam"}
	}
	panic(fmt.Sprintf("zero: unexpected type %T", t))
}

// copyVal returns a copy of v that shares no mutable cell with v (structs, arrays by value).
func copyVal(v value) value {
	switch v := v.(type) {
	case structure:
		a := make(structure, len(v))
		for i := range v {
			a[i] = copyVal(v[i])
		}
		return a
	case array:
		a := make(array, len(v))
		for i := range v {
			a[i] = copyVal(v[i])
		}
		return a
	}
	return v
}

// store writes v into *addr, element-wise for aggregates so that interior pointers stay valid.
func store(addr *value, v value) {
	switch lhs := (*addr).(type) {
	case structure:
		if rhs, ok := v.(structure); ok && len(rhs) == len(lhs) {
			for i := range lhs {
				store(&lhs[i], rhs[i])
			}
			return
		}
	case array:
		if rhs, ok := v.(array); ok && len(rhs) == len(lhs) {
			for i := range lhs {
				store(&lhs[i], rhs[i])
			}
			return
		}
	}
	*addr = copyVal(v)
}

func isNilValue(v value) (isNil, known bool) {
	switch v := v.(type) {
	case *value:
		return v == nil, true
	case []value:
		return v == nil, true
	case *smap:
		return v == nil, true
	case iface:
		return v.t == nil, true
	case *ssa.Function:
		return v == nil, true
	case *closure:
		return v == nil, true
	case *ssa.Builtin:
		return false, true
	case host:
		if v.v == nil {
			return true, true
		}
		rv := reflect.ValueOf(v.v)
		switch rv.Kind() {
		case reflect.Ptr, reflect.Map, reflect.Slice, reflect.Func, reflect.Interface:
			return rv.IsNil(), true
		}
		return false, true
	case *errorV:
		return v == nil, true
	}
	return false, false
}

// equals builds the Bool term of x == y.
func (p *path) equals(x, y value) *Term {
	tc := p.tc
	switch x := x.(type) {
	case *Term:
		if yt, ok := y.(*Term); ok {
			return tc.Eq(x, yt)
		}
	case Str:
		if ys, ok := y.(Str); ok {
			if len(x.b) != len(ys.b) {
				return tc.ff
			}
			r := tc.tt
			for i := range x.b {
				r = tc.And(r, tc.Eq(x.b[i], ys.b[i]))
				if r.IsFalse() {
					return r
				}
			}
			return r
		}
	case structure:
		if ys, ok := y.(structure); ok {
			r := tc.tt
			for i := range x {
				r = tc.And(r, p.equals(x[i], ys[i]))
			}
			return r
		}
	case array:
		if ys, ok := y.(array); ok {
			r := tc.tt
			for i := range x {
				r = tc.And(r, p.equals(x[i], ys[i]))
			}
			return r
		}
	case iface:
		if yi, ok := y.(iface); ok {
			if x.t == nil || yi.t == nil {
				return tc.Bool(x.t == nil && yi.t == nil)
			}
			if !types.Identical(x.t, yi.t) {
				return tc.ff
			}
			return p.equals(x.v, yi.v)
		}
	case *value:
		if yp, ok := y.(*value); ok {
			return tc.Bool(x == yp)
		}
	case host:
		if yh, ok := y.(host); ok {
			xn, _ := isNilValue(x)
			yn, _ := isNilValue(yh)
			if xn || yn {
				return tc.Bool(xn && yn)
			}
			return tc.Bool(hostIdentical(x.v, yh.v))
		}
	case *errorV:
		if ye, ok := y.(*errorV); ok {
			return tc.Bool(x == ye)
		}
	case *smap:
		if ym, ok := y.(*smap); ok {
			return tc.Bool(x == ym)
		}
	case *closure:
		if yc, ok := y.(*closure); ok {
			return tc.Bool(x == yc)
		}
	case *ssa.Function:
		if yf, ok := y.(*ssa.Function); ok {
			return tc.Bool(x == yf)
		}
	}
	// nil comparisons between different representations
	xn, xk := isNilValue(x)
	yn, yk := isNilValue(y)
	if xk && yk && (xn || yn) {
		return tc.Bool(xn && yn)
	}
	p.unsupported(fmt.Sprintf("equals(%T, %T)", x, y))
	return nil
}

func hostIdentical(a, b interface{}) (same bool) {
	defer func() {
		if recover() != nil {
			same = false
		}
	}()
	return a == b
}
