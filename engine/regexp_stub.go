package main

// Symbolic regular-expression matching. Patterns are concrete (the real *regexp.Regexp objects
// built by the package initialisers); they are compiled with the real regexp/syntax and run by a
// priority-ordered backtracking matcher over syntax.Prog (leftmost-first, the semantics Go
// documents), in which "does this byte match this class" is a term decided by forking.
// Subject strings are ASCII where symbolic (assumption recorded).

import (
	"regexp"
	"regexp/syntax"
	"strconv"
	"strings"
	"sync"
	"unicode"
)

type reProg struct {
	prog   *syntax.Prog
	numCap int
}

var (
	reCache   = map[string]*reProg{}
	reCacheMu sync.Mutex
)

func compileRe(re *regexp.Regexp) (*reProg, error) {
	reCacheMu.Lock()
	defer reCacheMu.Unlock()
	pat := re.String()
	if rp, ok := reCache[pat]; ok {
		return rp, nil
	}
	rx, err := syntax.Parse(pat, syntax.Perl)
	if err != nil {
		return nil, err
	}
	n := rx.MaxCap()
	prog, err := syntax.Compile(rx.Simplify())
	if err != nil {
		return nil, err
	}
	rp := &reProg{prog: prog, numCap: 2 * (n + 1)}
	reCache[pat] = rp
	return rp, nil
}

// runeCond: the condition under which byte b (ASCII) matches instruction i.
func (p *path) runeCond(i *syntax.Inst, b *Term) *Term {
	tc := p.tc
	switch i.Op {
	case syntax.InstRuneAny:
		return tc.tt
	case syntax.InstRuneAnyNotNL:
		return tc.Not(tc.Eq(b, p.byteConst('\n')))
	case syntax.InstRune1:
		if i.Rune[0] >= 0x80 {
			return tc.ff
		}
		return tc.Eq(b, p.byteConst(byte(i.Rune[0])))
	case syntax.InstRune:
		fold := syntax.Flags(i.Arg)&syntax.FoldCase != 0
		if len(i.Rune) == 1 {
			r := i.Rune[0]
			c := tc.ff
			if r < 0x80 {
				c = tc.Eq(b, p.byteConst(byte(r)))
			}
			if fold {
				for f := unicode.SimpleFold(r); f != r; f = unicode.SimpleFold(f) {
					if f < 0x80 {
						c = tc.Or(c, tc.Eq(b, p.byteConst(byte(f))))
					}
				}
			}
			return c
		}
		c := tc.ff
		for k := 0; k+1 < len(i.Rune); k += 2 {
			lo, hi := i.Rune[k], i.Rune[k+1]
			if lo >= 0x80 {
				continue
			}
			if hi >= 0x80 {
				hi = 0x7f
			}
			c = tc.Or(c, p.inRange(b, byte(lo), byte(hi)))
		}
		return c
	}
	return tc.ff
}

func (p *path) isWordByte(b *Term) *Term { return p.classTerm(b, "word", false) }

// emptyCond: condition of an empty-width assertion at position pos of s.
func (p *path) emptyCond(op syntax.EmptyOp, s Str, pos int) *Term {
	tc := p.tc
	c := tc.tt
	n := len(s.b)
	if op&syntax.EmptyBeginText != 0 {
		c = tc.And(c, tc.Bool(pos == 0))
	}
	if op&syntax.EmptyEndText != 0 {
		c = tc.And(c, tc.Bool(pos == n))
	}
	if op&syntax.EmptyBeginLine != 0 {
		if pos > 0 {
			c = tc.And(c, tc.Eq(s.b[pos-1], p.byteConst('\n')))
		}
	}
	if op&syntax.EmptyEndLine != 0 {
		if pos < n {
			c = tc.And(c, tc.Eq(s.b[pos], p.byteConst('\n')))
		}
	}
	if op&(syntax.EmptyWordBoundary|syntax.EmptyNoWordBoundary) != 0 {
		before, after := tc.ff, tc.ff
		if pos > 0 {
			before = p.isWordByte(s.b[pos-1])
		}
		if pos < n {
			after = p.isWordByte(s.b[pos])
		}
		boundary := tc.Not(tc.Eq(before, after))
		if op&syntax.EmptyWordBoundary != 0 {
			c = tc.And(c, boundary)
		}
		if op&syntax.EmptyNoWordBoundary != 0 {
			c = tc.And(c, tc.Not(boundary))
		}
	}
	return c
}

// reExec finds the leftmost-first match starting the search at position from.
// Returns the capture positions (len = numCap, -1 for unset) or nil.
func (p *path) reExec(rp *reProg, s Str, from int) []int {
	n := len(s.b)
	prog := rp.prog
	for start := from; start <= n; start++ {
		visited := map[[2]int]bool{}
		caps := make([]int, rp.numCap)
		for i := range caps {
			caps[i] = -1
		}
		var run func(pc, pos int, caps []int) []int
		run = func(pc, pos int, caps []int) []int {
			for {
				key := [2]int{pc, pos}
				if visited[key] {
					return nil
				}
				visited[key] = true
				inst := &prog.Inst[pc]
				switch inst.Op {
				case syntax.InstFail:
					return nil
				case syntax.InstMatch:
					out := append([]int{}, caps...)
					out[1] = pos
					return out
				case syntax.InstNop:
					pc = int(inst.Out)
				case syntax.InstCapture:
					if int(inst.Arg) < len(caps) {
						nc := append([]int{}, caps...)
						nc[inst.Arg] = pos
						caps = nc
					}
					pc = int(inst.Out)
				case syntax.InstAlt, syntax.InstAltMatch:
					if r := run(int(inst.Out), pos, caps); r != nil {
						return r
					}
					pc = int(inst.Arg)
				case syntax.InstEmptyWidth:
					if !p.branch(p.emptyCond(syntax.EmptyOp(inst.Arg), s, pos)) {
						return nil
					}
					pc = int(inst.Out)
				case syntax.InstRune, syntax.InstRune1, syntax.InstRuneAny, syntax.InstRuneAnyNotNL:
					if pos >= n {
						return nil
					}
					if !p.branch(p.runeCond(inst, s.b[pos])) {
						return nil
					}
					pos++
					pc = int(inst.Out)
				default:
					p.unsupported("regexp instruction " + inst.Op.String())
				}
			}
		}
		c0 := append([]int{}, caps...)
		c0[0] = start
		if r := run(prog.Start, start, c0); r != nil {
			r[0] = start
			return r
		}
		// an anchored pattern (^...) cannot match later: the emptyCond test fails at once
	}
	return nil
}

func (p *path) reSubject(s Str) {
	for _, b := range s.b {
		if b.IsConst() && b.val >= 0x80 {
			p.unsupported("regexp on a partly symbolic non-ASCII subject")
		}
	}
	p.asciiOnly(s, "regexp matching")
}

func subStr(s Str, caps []int, k int) Str {
	if 2*k+1 >= len(caps) || caps[2*k] < 0 || caps[2*k+1] < 0 {
		return Str{}
	}
	return Str{s.b[caps[2*k]:caps[2*k+1]]}
}

// allMatches mirrors (*Regexp).allMatches for n = -1.
func (p *path) reAll(rp *reProg, s Str) [][]int {
	var out [][]int
	end := len(s.b)
	for pos, prevMatchEnd := 0, -1; pos <= end; {
		m := p.reExec(rp, s, pos)
		if m == nil {
			break
		}
		accept := true
		if m[1] == pos {
			if m[0] == prevMatchEnd {
				accept = false
			}
			pos++
		} else {
			pos = m[1]
		}
		prevMatchEnd = m[1]
		if accept {
			out = append(out, m)
		}
	}
	return out
}

// expandTemplate implements Regexp.expand for templates with $n, ${n} and $$ (named groups unsupported).
func (p *path) expandTemplate(tmpl string, s Str, caps []int) Str {
	var out []*Term
	for len(tmpl) > 0 {
		i := strings.IndexByte(tmpl, '$')
		if i < 0 {
			break
		}
		out = append(out, p.mkStr(tmpl[:i]).b...)
		tmpl = tmpl[i:]
		if len(tmpl) > 1 && tmpl[1] == '$' {
			out = append(out, p.byteConst('$'))
			tmpl = tmpl[2:]
			continue
		}
		name, num, rest, ok := reExtract(tmpl)
		if !ok {
			out = append(out, p.byteConst('$'))
			tmpl = tmpl[1:]
			continue
		}
		tmpl = rest
		if num >= 0 {
			out = append(out, subStr(s, caps, num).b...)
		} else {
			p.unsupported("regexp template with named group " + name)
		}
	}
	out = append(out, p.mkStr(tmpl).b...)
	return Str{out}
}

// reExtract mirrors regexp.extract.
func reExtract(str string) (name string, num int, rest string, ok bool) {
	if len(str) < 2 || str[0] != '$' {
		return
	}
	brace := false
	if str[1] == '{' {
		brace = true
		str = str[2:]
	} else {
		str = str[1:]
	}
	i := 0
	for i < len(str) {
		c := str[i]
		if !(c == '_' || (c >= '0' && c <= '9') || (c >= 'a' && c <= 'z') || (c >= 'A' && c <= 'Z')) {
			break
		}
		i++
	}
	if i == 0 {
		return
	}
	name = str[:i]
	if brace {
		if i >= len(str) || str[i] != '}' {
			return
		}
		i++
	}
	num = 0
	for k := 0; k < len(name); k++ {
		if name[k] < '0' || '9' < name[k] || num >= 1e8 {
			num = -1
			break
		}
		num = num*10 + int(name[k]) - '0'
	}
	if name[0] == '0' && len(name) > 1 {
		num = -1
	}
	rest = str[i:]
	ok = true
	return
}

// reReplaceAll mirrors (*Regexp).replaceAll.
func (p *path) reReplaceAll(rp *reProg, s Str, repl func(caps []int) Str) Str {
	var buf []*Term
	lastMatchEnd, searchPos := 0, 0
	n := len(s.b)
	for searchPos <= n {
		a := p.reExec(rp, s, searchPos)
		if a == nil {
			break
		}
		buf = append(buf, s.b[lastMatchEnd:a[0]]...)
		if a[1] > lastMatchEnd || a[0] == 0 {
			buf = append(buf, repl(a).b...)
		}
		lastMatchEnd = a[1]
		width := 0
		if searchPos < n {
			width = 1
		}
		if searchPos+width > a[1] {
			searchPos += width
		} else if searchPos+1 > a[1] {
			searchPos++
		} else {
			searchPos = a[1]
		}
	}
	buf = append(buf, s.b[lastMatchEnd:]...)
	return Str{buf}
}

func (p *path) regexpSymbolic(re *regexp.Regexp, method string, args []value) value {
	rp, err := compileRe(re)
	if err != nil {
		p.unsupported("regexp compile: " + err.Error())
	}
	p.stubs["regexp."+method+" (symbolic matcher over regexp/syntax.Prog) /"+re.String()+"/"] = true
	s := args[0].(Str)
	p.reSubject(s)
	groups := func(m []int) value {
		out := make([]value, rp.numCap/2)
		for k := range out {
			out[k] = subStr(s, m, k)
		}
		return out
	}
	switch method {
	case "MatchString":
		return p.tc.Bool(p.reExec(rp, s, 0) != nil)
	case "FindString":
		m := p.reExec(rp, s, 0)
		if m == nil {
			return Str{}
		}
		return subStr(s, m, 0)
	case "FindStringIndex":
		m := p.reExec(rp, s, 0)
		if m == nil {
			return []value(nil)
		}
		return []value{p.tc.BV(64, uint64(m[0])), p.tc.BV(64, uint64(m[1]))}
	case "FindStringSubmatch":
		m := p.reExec(rp, s, 0)
		if m == nil {
			return []value(nil)
		}
		return groups(m)
	case "FindAllStringSubmatch":
		lim := args[1].(*Term)
		if !lim.IsConst() || lim.Int64() >= 0 {
			p.unsupported("FindAllStringSubmatch with a limit")
		}
		var out []value
		for _, m := range p.reAll(rp, s) {
			out = append(out, groups(m))
		}
		return out
	case "FindAllString":
		var out []value
		for _, m := range p.reAll(rp, s) {
			out = append(out, subStr(s, m, 0))
		}
		return out
	case "ReplaceAllString":
		t := args[1].(Str)
		if !t.IsConcrete() {
			p.unsupported("ReplaceAllString with a symbolic template")
		}
		tmpl := t.Concrete()
		return p.reReplaceAll(rp, s, func(caps []int) Str { return p.expandTemplate(tmpl, s, caps) })
	case "ReplaceAllStringFunc":
		f := args[1]
		return p.reReplaceAll(rp, s, func(caps []int) Str {
			r := p.call(nil, f, []value{subStr(s, caps, 0)}, nil)
			return r.(Str)
		})
	}
	p.unsupported("regexp." + method + " on a symbolic subject")
	return nil
}

var _ = strconv.Itoa
