package main

import "regexp"

func (p *path) regexpSymbolic(re *regexp.Regexp, method string, args []value) value {
	p.unsupported("regexp." + method + " on a symbolic subject")
	return nil
}
