package main

// Terms: hash-consed Bool / bit-vector expressions with constant folding.
// A TermCtx lives for one symbolic path (one worker, one solver frame).

import (
	"fmt"
	"strings"
)

type Op uint8

const (
	OpConst Op = iota
	OpVar
	OpNot
	OpAnd
	OpOr
	OpEq
	OpIte
	OpAdd
	OpSub
	OpMul
	OpUDiv
	OpURem
	OpSDiv
	OpSRem
	OpBAnd
	OpBOr
	OpBXor
	OpShl
	OpLShr
	OpAShr
	OpULt
	OpULe
	OpSLt
	OpSLe
	OpNeg
	OpBNot
	OpZExt    // val = target width
	OpSExt    // val = target width
	OpExtract // val = hi<<8 | lo
)

var opNames = map[Op]string{
	OpNot: "not", OpAnd: "and", OpOr: "or", OpEq: "=", OpIte: "ite",
	OpAdd: "bvadd", OpSub: "bvsub", OpMul: "bvmul", OpUDiv: "bvudiv", OpURem: "bvurem",
	OpSDiv: "bvsdiv", OpSRem: "bvsrem", OpBAnd: "bvand", OpBOr: "bvor", OpBXor: "bvxor",
	OpShl: "bvshl", OpLShr: "bvlshr", OpAShr: "bvashr", OpULt: "bvult", OpULe: "bvule",
	OpSLt: "bvslt", OpSLe: "bvsle", OpNeg: "bvneg", OpBNot: "bvnot",
}

// Term sort: 0 = Bool, n>0 = (_ BitVec n).
type Term struct {
	op   Op
	sort int
	a    [3]*Term
	val  uint64 // constant value (masked), or parameter for ext/extract
	name string // variables
	id   int
}

type termKey struct {
	op      Op
	sort    int
	a, b, c int
	val     uint64
	name    string
}

type TermCtx struct {
	tab    map[termKey]*Term
	nextID int
	vars   []*Term // declared variables in creation order
	varBy  map[string]*Term
	tt, ff *Term
}

func NewTermCtx() *TermCtx {
	c := &TermCtx{tab: map[termKey]*Term{}, varBy: map[string]*Term{}}
	c.tt = c.mk(OpConst, 0, nil, nil, nil, 1, "")
	c.ff = c.mk(OpConst, 0, nil, nil, nil, 0, "")
	return c
}

func tid(t *Term) int {
	if t == nil {
		return -1
	}
	return t.id
}

func (c *TermCtx) mk(op Op, sort int, a, b, d *Term, val uint64, name string) *Term {
	k := termKey{op, sort, tid(a), tid(b), tid(d), val, name}
	if t, ok := c.tab[k]; ok {
		return t
	}
	t := &Term{op: op, sort: sort, a: [3]*Term{a, b, d}, val: val, name: name, id: c.nextID}
	c.nextID++
	c.tab[k] = t
	return t
}

func mask(w int) uint64 {
	if w >= 64 {
		return ^uint64(0)
	}
	return (uint64(1) << uint(w)) - 1
}

func (t *Term) IsConst() bool { return t.op == OpConst }
func (t *Term) IsTrue() bool  { return t.op == OpConst && t.sort == 0 && t.val == 1 }
func (t *Term) IsFalse() bool { return t.op == OpConst && t.sort == 0 && t.val == 0 }

// signed value of a constant
func (t *Term) Int64() int64 {
	w := t.sort
	v := t.val
	if w < 64 && v&(1<<uint(w-1)) != 0 {
		v |= ^mask(w)
	}
	return int64(v)
}

func (c *TermCtx) Bool(b bool) *Term {
	if b {
		return c.tt
	}
	return c.ff
}

func (c *TermCtx) BV(w int, v uint64) *Term {
	return c.mk(OpConst, w, nil, nil, nil, v&mask(w), "")
}

func (c *TermCtx) Var(name string, sort int) *Term {
	if t, ok := c.varBy[name]; ok {
		if t.sort != sort {
			panic(fmt.Sprintf("variable %s redeclared with another sort", name))
		}
		return t
	}
	t := c.mk(OpVar, sort, nil, nil, nil, 0, name)
	c.varBy[name] = t
	c.vars = append(c.vars, t)
	return t
}

func (c *TermCtx) Not(a *Term) *Term {
	if a.IsConst() {
		return c.Bool(a.val == 0)
	}
	if a.op == OpNot {
		return a.a[0]
	}
	return c.mk(OpNot, 0, a, nil, nil, 0, "")
}

func (c *TermCtx) And(a, b *Term) *Term {
	if a.IsConst() {
		if a.val == 0 {
			return a
		}
		return b
	}
	if b.IsConst() {
		if b.val == 0 {
			return b
		}
		return a
	}
	if a == b {
		return a
	}
	if (a.op == OpNot && a.a[0] == b) || (b.op == OpNot && b.a[0] == a) {
		return c.ff
	}
	if a.id > b.id {
		a, b = b, a
	}
	return c.mk(OpAnd, 0, a, b, nil, 0, "")
}

func (c *TermCtx) Or(a, b *Term) *Term {
	if a.IsConst() {
		if a.val == 1 {
			return a
		}
		return b
	}
	if b.IsConst() {
		if b.val == 1 {
			return b
		}
		return a
	}
	if a == b {
		return a
	}
	if (a.op == OpNot && a.a[0] == b) || (b.op == OpNot && b.a[0] == a) {
		return c.tt
	}
	if a.id > b.id {
		a, b = b, a
	}
	return c.mk(OpOr, 0, a, b, nil, 0, "")
}

func (c *TermCtx) Implies(a, b *Term) *Term { return c.Or(c.Not(a), b) }

func (c *TermCtx) Eq(a, b *Term) *Term {
	if a.sort != b.sort {
		panic(fmt.Sprintf("Eq: sort mismatch %d vs %d", a.sort, b.sort))
	}
	if a == b {
		return c.tt
	}
	if a.IsConst() && b.IsConst() {
		return c.Bool(a.val == b.val)
	}
	if a.sort == 0 {
		if a.IsConst() {
			a, b = b, a
		}
		if b.IsConst() {
			if b.val == 1 {
				return a
			}
			return c.Not(a)
		}
	}
	// ite(c, k1, k2) == k  with constants folds
	if b.IsConst() && a.op == OpIte && a.a[1].IsConst() && a.a[2].IsConst() {
		t1 := a.a[1].val == b.val
		t2 := a.a[2].val == b.val
		switch {
		case t1 && t2:
			return c.tt
		case t1:
			return a.a[0]
		case t2:
			return c.Not(a.a[0])
		default:
			return c.ff
		}
	}
	if a.IsConst() && b.op == OpIte && b.a[1].IsConst() && b.a[2].IsConst() {
		return c.Eq(b, a)
	}
	if a.id > b.id {
		a, b = b, a
	}
	return c.mk(OpEq, 0, a, b, nil, 0, "")
}

func (c *TermCtx) Ite(cond, a, b *Term) *Term {
	if a.sort != b.sort {
		panic("Ite: sort mismatch")
	}
	if cond.IsConst() {
		if cond.val == 1 {
			return a
		}
		return b
	}
	if a == b {
		return a
	}
	if a.sort == 0 {
		if a.IsTrue() && b.IsFalse() {
			return cond
		}
		if a.IsFalse() && b.IsTrue() {
			return c.Not(cond)
		}
		if a.IsTrue() {
			return c.Or(cond, b)
		}
		if a.IsFalse() {
			return c.And(c.Not(cond), b)
		}
		if b.IsTrue() {
			return c.Or(c.Not(cond), a)
		}
		if b.IsFalse() {
			return c.And(cond, a)
		}
	}
	return c.mk(OpIte, a.sort, cond, a, b, 0, "")
}

func sx(v uint64, w int) int64 {
	if w < 64 && v&(1<<uint(w-1)) != 0 {
		v |= ^mask(w)
	}
	return int64(v)
}

// Bin builds a bit-vector binary operation (arithmetic result sort = operand sort).
func (c *TermCtx) Bin(op Op, a, b *Term) *Term {
	if a.sort != b.sort || a.sort == 0 {
		panic(fmt.Sprintf("Bin %v: sorts %d %d", opNames[op], a.sort, b.sort))
	}
	w := a.sort
	if a.IsConst() && b.IsConst() {
		x, y := a.val, b.val
		var r uint64
		ok := true
		switch op {
		case OpAdd:
			r = x + y
		case OpSub:
			r = x - y
		case OpMul:
			r = x * y
		case OpUDiv:
			if y == 0 {
				r = mask(w)
			} else {
				r = x / y
			}
		case OpURem:
			if y == 0 {
				r = x
			} else {
				r = x % y
			}
		case OpSDiv:
			if y == 0 {
				ok = false
			} else {
				r = uint64(sx(x, w) / sx(y, w))
			}
		case OpSRem:
			if y == 0 {
				ok = false
			} else {
				r = uint64(sx(x, w) % sx(y, w))
			}
		case OpBAnd:
			r = x & y
		case OpBOr:
			r = x | y
		case OpBXor:
			r = x ^ y
		case OpShl:
			if y >= uint64(w) {
				r = 0
			} else {
				r = x << y
			}
		case OpLShr:
			if y >= uint64(w) {
				r = 0
			} else {
				r = x >> y
			}
		case OpAShr:
			if y >= uint64(w) {
				if sx(x, w) < 0 {
					r = mask(w)
				} else {
					r = 0
				}
			} else {
				r = uint64(sx(x, w) >> y)
			}
		default:
			ok = false
		}
		if ok {
			return c.BV(w, r)
		}
	}
	switch op {
	case OpAdd, OpBOr, OpBXor:
		if a.IsConst() && a.val == 0 {
			return b
		}
		if b.IsConst() && b.val == 0 {
			return a
		}
	case OpSub:
		if b.IsConst() && b.val == 0 {
			return a
		}
		if a == b {
			return c.BV(w, 0)
		}
	case OpMul:
		if a.IsConst() && a.val == 1 {
			return b
		}
		if b.IsConst() && b.val == 1 {
			return a
		}
	case OpBAnd:
		if a == b {
			return a
		}
	}
	return c.mk(op, w, a, b, nil, 0, "")
}

// Cmp builds a comparison (Bool result).
func (c *TermCtx) Cmp(op Op, a, b *Term) *Term {
	if a.sort != b.sort || a.sort == 0 {
		panic(fmt.Sprintf("Cmp %v: sorts %d %d", opNames[op], a.sort, b.sort))
	}
	w := a.sort
	if a.IsConst() && b.IsConst() {
		switch op {
		case OpULt:
			return c.Bool(a.val < b.val)
		case OpULe:
			return c.Bool(a.val <= b.val)
		case OpSLt:
			return c.Bool(sx(a.val, w) < sx(b.val, w))
		case OpSLe:
			return c.Bool(sx(a.val, w) <= sx(b.val, w))
		}
	}
	if a == b {
		return c.Bool(op == OpULe || op == OpSLe)
	}
	return c.mk(op, 0, a, b, nil, 0, "")
}

func (c *TermCtx) Neg(a *Term) *Term {
	if a.IsConst() {
		return c.BV(a.sort, -a.val)
	}
	return c.mk(OpNeg, a.sort, a, nil, nil, 0, "")
}

func (c *TermCtx) BNot(a *Term) *Term {
	if a.IsConst() {
		return c.BV(a.sort, ^a.val)
	}
	return c.mk(OpBNot, a.sort, a, nil, nil, 0, "")
}

// Resize converts a bit-vector to width w (signed selects sign extension).
func (c *TermCtx) Resize(a *Term, w int, signed bool) *Term {
	if a.sort == w {
		return a
	}
	if a.IsConst() {
		if w > a.sort && signed {
			return c.BV(w, uint64(sx(a.val, a.sort)))
		}
		return c.BV(w, a.val)
	}
	if w < a.sort {
		return c.mk(OpExtract, w, a, nil, nil, uint64(w-1)<<8, "")
	}
	if signed {
		return c.mk(OpSExt, w, a, nil, nil, uint64(w), "")
	}
	return c.mk(OpZExt, w, a, nil, nil, uint64(w), "")
}

func sortSMT(s int) string {
	if s == 0 {
		return "Bool"
	}
	return fmt.Sprintf("(_ BitVec %d)", s)
}

func constSMT(t *Term) string {
	if t.sort == 0 {
		if t.val == 1 {
			return "true"
		}
		return "false"
	}
	if t.sort%4 == 0 {
		return fmt.Sprintf("#x%0*x", t.sort/4, t.val)
	}
	return fmt.Sprintf("(_ bv%d %d)", t.val, t.sort)
}

// smtName is the symbol used for a variable in SMT-LIB text.
func smtName(name string) string {
	return "|" + strings.NewReplacer("|", "_", "\\", "_").Replace(name) + "|"
}

// ref returns the SMT reference of a term that has been defined already.
func (t *Term) ref() string {
	switch t.op {
	case OpConst:
		return constSMT(t)
	case OpVar:
		return smtName(t.name)
	}
	return fmt.Sprintf("t%d", t.id)
}

// body returns the SMT expression of a non-leaf term over the refs of its children.
func (t *Term) body() string {
	switch t.op {
	case OpZExt:
		return fmt.Sprintf("((_ zero_extend %d) %s)", t.sort-t.a[0].sort, t.a[0].ref())
	case OpSExt:
		return fmt.Sprintf("((_ sign_extend %d) %s)", t.sort-t.a[0].sort, t.a[0].ref())
	case OpExtract:
		return fmt.Sprintf("((_ extract %d %d) %s)", t.val>>8, t.val&0xff, t.a[0].ref())
	}
	var sb strings.Builder
	sb.WriteByte('(')
	sb.WriteString(opNames[t.op])
	for _, x := range t.a {
		if x != nil {
			sb.WriteByte(' ')
			sb.WriteString(x.ref())
		}
	}
	sb.WriteByte(')')
	return sb.String()
}

// Eval evaluates a term under a model (variable name -> value); missing variables are 0.
func (t *Term) Eval(m map[string]uint64) uint64 {
	cache := map[*Term]uint64{}
	var ev func(t *Term) uint64
	ev = func(t *Term) uint64 {
		if v, ok := cache[t]; ok {
			return v
		}
		var r uint64
		b2u := func(b bool) uint64 {
			if b {
				return 1
			}
			return 0
		}
		switch t.op {
		case OpConst:
			r = t.val
		case OpVar:
			r = m[t.name] & mask64(t.sort)
		case OpNot:
			r = 1 - ev(t.a[0])
		case OpAnd:
			r = ev(t.a[0]) & ev(t.a[1])
		case OpOr:
			r = ev(t.a[0]) | ev(t.a[1])
		case OpEq:
			r = b2u(ev(t.a[0]) == ev(t.a[1]))
		case OpIte:
			if ev(t.a[0]) == 1 {
				r = ev(t.a[1])
			} else {
				r = ev(t.a[2])
			}
		case OpZExt:
			r = ev(t.a[0])
		case OpSExt:
			r = uint64(sx(ev(t.a[0]), t.a[0].sort)) & mask(t.sort)
		case OpExtract:
			r = (ev(t.a[0]) >> (t.val & 0xff)) & mask(t.sort)
		case OpNeg:
			r = (-ev(t.a[0])) & mask(t.sort)
		case OpBNot:
			r = (^ev(t.a[0])) & mask(t.sort)
		case OpULt:
			r = b2u(ev(t.a[0]) < ev(t.a[1]))
		case OpULe:
			r = b2u(ev(t.a[0]) <= ev(t.a[1]))
		case OpSLt:
			r = b2u(sx(ev(t.a[0]), t.a[0].sort) < sx(ev(t.a[1]), t.a[0].sort))
		case OpSLe:
			r = b2u(sx(ev(t.a[0]), t.a[0].sort) <= sx(ev(t.a[1]), t.a[0].sort))
		default:
			// binary arithmetic: reuse the constant folder
			c := NewTermCtx()
			x := c.BV(t.sort, ev(t.a[0]))
			y := c.BV(t.sort, ev(t.a[1]))
			res := c.Bin(t.op, x, y)
			if !res.IsConst() {
				panic("Eval: division by zero in model evaluation")
			}
			r = res.val
		}
		cache[t] = r
		return r
	}
	return ev(t)
}

func mask64(sort int) uint64 {
	if sort == 0 {
		return 1
	}
	return mask(sort)
}
