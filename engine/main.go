package main

import (
	"crypto/sha1"
	"encoding/json"
	"flag"
	"fmt"
	"os"
	"os/exec"
	"path/filepath"
	"runtime"
	"sort"
	"strconv"
	"strings"
	"time"
)

type tierSpec struct {
	Params        map[string]int `json:"params"`
	MaxPaths      int            `json:"max_paths"`
	MaxSteps      int            `json:"max_steps"`
	PermuteSingle bool           `json:"permute_single"`
	Diff          int            `json:"diff"` // number of random concrete vectors for the differential twin
}

type harnessSpec struct {
	Property    string   `json:"property"`
	Pkg         string   `json:"pkg"` // directory relative to the module root
	Func        string   `json:"func"`
	PermuteMaps bool     `json:"permute_maps"`
	Quick       tierSpec `json:"quick"`
	Thorough    tierSpec `json:"thorough"`
	Bounds      string   `json:"bounds"`
	Replay      string   `json:"replay"` // kind of extra end-to-end replay
	NoDiff      bool     `json:"no_diff"`
	RaceReplay  bool     `json:"race_replay"` // replay natively under the race detector, several attempts
	ReplayPad   *struct {
		Param  string `json:"param"`
		Values []int  `json:"values"`
	} `json:"replay_pad"`
}

type knownFinding struct {
	Property string `json:"property"`
	Class    string `json:"class"`
	Status   string `json:"status"` // "known" or "fixed"
	Commit   string `json:"commit,omitempty"`
	What     string `json:"what"`
}

func loadRegistry() ([]harnessSpec, error) {
	b, err := os.ReadFile(filepath.Join(verifDir, "harness", "registry.json"))
	if err != nil {
		return nil, err
	}
	var r []harnessSpec
	if err := json.Unmarshal(b, &r); err != nil {
		return nil, fmt.Errorf("registry.json: %v", err)
	}
	return r, nil
}

func loadKnown() ([]knownFinding, error) {
	b, err := os.ReadFile(filepath.Join(verifDir, "known_findings.json"))
	if err != nil {
		if os.IsNotExist(err) {
			return nil, nil
		}
		return nil, err
	}
	var r []knownFinding
	if err := json.Unmarshal(b, &r); err != nil {
		return nil, fmt.Errorf("known_findings.json: %v", err)
	}
	return r, nil
}

func main() {
	if len(os.Args) < 2 {
		fmt.Fprintln(os.Stderr, "usage: vcheck run --property ID [--tier quick|thorough] | vcheck replay FILE | vcheck list")
		os.Exit(2)
	}
	if d := os.Getenv("VERIF_DIR"); d != "" {
		verifDir = d
	}
	switch os.Args[1] {
	case "run":
		os.Exit(cmdRun(os.Args[2:]))
	case "replay":
		os.Exit(cmdReplay(os.Args[2:]))
	case "debug":
		os.Exit(cmdDebug(os.Args[2:]))
	case "concrete":
		os.Exit(cmdConcrete(os.Args[2:]))
	case "list":
		reg, err := loadRegistry()
		if err != nil {
			fmt.Fprintln(os.Stderr, err)
			os.Exit(2)
		}
		for _, h := range reg {
			fmt.Printf("%s %s %s\n", h.Property, h.Pkg, h.Func)
		}
	default:
		fmt.Fprintln(os.Stderr, "unknown command", os.Args[1])
		os.Exit(2)
	}
}

type harnessReport struct {
	Spec         harnessSpec
	Res          *HarnessResult
	Confirmed    []*Violation
	Unconfirmed  []*Violation
	KnownPrinted []string
	Inconclusive []string
	DiffRuns     int
	DiffAgree    int
	ReplayRuns   int
	ReplayAgree  int
	Vacuity      map[string]string
}

func cmdRun(args []string) int {
	fs := flag.NewFlagSet("run", flag.ExitOnError)
	prop := fs.String("property", "", "property id")
	tier := fs.String("tier", "", "quick or thorough")
	only := fs.String("harness", "", "run only this harness function")
	workers := fs.Int("workers", 0, "worker count (default: all cores)")
	trace := fs.Bool("trace", false, "engine stack traces in inconclusive reasons")
	noNative := fs.Bool("no-native", false, "skip native replays and differential runs (debugging only; never registered)")
	fs.Parse(args)
	if *tier == "" {
		*tier = os.Getenv("VERIF_TIER")
	}
	if *tier == "" {
		*tier = "quick"
	}
	seed := int64(1)
	if s := os.Getenv("VERIF_SEED"); s != "" {
		if v, err := strconv.ParseInt(s, 10, 64); err == nil {
			seed = v
		}
	}
	if *workers <= 0 {
		*workers = runtime.NumCPU()
	}
	t0 := time.Now()
	reg, err := loadRegistry()
	if err != nil {
		fmt.Fprintln(os.Stderr, err)
		return 2
	}
	known, err := loadKnown()
	if err != nil {
		fmt.Fprintln(os.Stderr, err)
		return 2
	}
	knownActive := map[string]bool{}
	knownWhat := map[string]string{}
	for _, k := range known {
		if k.Status == "known" {
			knownActive[k.Class] = true
			knownWhat[k.Class] = k.What
		}
	}
	var hs []harnessSpec
	pkgSet := map[string]bool{}
	for _, h := range reg {
		if h.Property == *prop && (*only == "" || *only == h.Func) {
			hs = append(hs, h)
			pkgSet[h.Pkg] = true
		}
	}
	if len(hs) == 0 {
		fmt.Fprintf(os.Stderr, "no harness registered for property %q\n", *prop)
		return 2
	}
	var pkgRels []string
	for p := range pkgSet {
		pkgRels = append(pkgRels, p)
	}
	sort.Strings(pkgRels)
	// harness packages may need constructor helpers injected in other packages (analysis ctor file)
	pkgRels = withSupportPkgs(pkgRels)

	lr, err := loadProgram(pkgRels)
	if err != nil {
		fmt.Printf("INCONCLUSIVE property=%s reason=cannot load /repo with harness overlay: %v\n", *prop, err)
		writeEvidenceFailure(*prop, *tier, seed, time.Since(t0), "load failure: "+err.Error())
		return 0
	}
	defer os.RemoveAll(lr.scratch)
	loadTime := time.Since(t0)

	solvers := []string{"z3"}
	if *tier == "thorough" {
		solvers = []string{"z3", "z3-new", "cvc5"}
	}
	var reports []*harnessReport
	for _, h := range hs {
		ts := h.Quick
		if *tier == "thorough" {
			ts = h.Thorough
			if ts.MaxPaths == 0 && ts.Params == nil {
				ts = h.Quick
			}
		}
		if ts.MaxPaths == 0 {
			ts.MaxPaths = 200000
		}
		if ts.MaxSteps == 0 {
			ts.MaxSteps = 2000000
		}
		fn := lr.eng.findFunc(h.Pkg, h.Func)
		rep := &harnessReport{Spec: h, Vacuity: map[string]string{}}
		reports = append(reports, rep)
		if fn == nil {
			why := "harness function not found: " + h.Func
			for file, msg := range excludedHarness {
				if strings.Contains(file, "/"+h.Pkg+"/") {
					why = "harness " + h.Func + " left out: its file " + filepath.Base(file) + " does not compile against the current tree (" + msg + ")"
				}
			}
			rep.Inconclusive = append(rep.Inconclusive, why)
			continue
		}
		cfg := RunConfig{
			Workers: *workers, Solvers: solvers, MaxPaths: ts.MaxPaths, MaxSteps: ts.MaxSteps,
			PermuteMaps: h.PermuteMaps, PermuteSingle: ts.PermuteSingle, Params: ts.Params, KnownActive: knownActive, Trace: *trace,
			SampleModels: diffCount(h, ts, *tier), Seed: seed,
		}
		res := lr.eng.RunHarness(fn, cfg)
		rep.Res = res
		for r, n := range res.Inconclusive {
			rep.Inconclusive = append(rep.Inconclusive, fmt.Sprintf("%s (x%d)", r, n))
		}
		sort.Strings(rep.Inconclusive)
		for _, v := range res.Violations {
			v.Harness = h.Func
		}
		for _, v := range res.KnownHits {
			v.Harness = h.Func
		}
		// vacuity: at least one complete path, every assertion site reached
		if res.Paths == 0 {
			rep.Inconclusive = append(rep.Inconclusive, "vacuity: no feasible path reached the end of the harness")
		}
		rep.Vacuity["complete_paths"] = fmt.Sprint(res.Paths)
		rep.Vacuity["assert_sites_reached"] = fmt.Sprint(len(res.Reached))
		if len(res.Reached) == 0 {
			rep.Inconclusive = append(rep.Inconclusive, "vacuity: no assertion was reached")
		}
		fmt.Printf("harness %s: paths=%d infeasible=%d steps=%d queries(branch=%d assert=%d witness=%d) folded=%d solver=%.1fs wall=%.1fs violations=%d known-hits=%d\n",
			h.Func, res.Paths, res.Infeasible, res.Steps, res.Stats.Branch, res.Stats.Assert, res.Stats.Witness, res.Stats.Folded,
			res.Stats.SolverTime.Seconds(), res.Wall.Seconds(), len(res.Violations), len(res.KnownHits))
	}

	// native replays (violations + known-finding witnesses) and the differential twin
	if !*noNative {
		runNative(lr, reports, *tier, seed)
	} else {
		for _, rep := range reports {
			if rep.Res != nil {
				rep.Confirmed = rep.Res.Violations
			}
		}
	}

	var scan *scanResult
	if *prop == "C07" && *only == "" {
		var serr error
		scan, serr = scanMapRanges(lr.scratch)
		if serr != nil {
			fmt.Printf("INCONCLUSIVE property=C07 harness=map-range-scan reason=%v\n", serr)
		} else {
			fmt.Printf("map-range scan: %d sites in %d functions; uncovered=%d stale=%d\n", len(scan.Sites), len(scan.Sites)-0, len(scan.Uncovered), len(scan.Stale))
			for _, u := range scan.Uncovered {
				fmt.Printf("INCONCLUSIVE property=C07 harness=map-range-scan reason=uncovered map range in %s (no harness, no recorded argument)\n", u)
			}
			for _, u := range scan.GoUncovered {
				fmt.Printf("INCONCLUSIVE property=C07 harness=map-range-scan reason=goroutines started in %s: completion order is a source of nondeterminism that no harness covers and no recorded argument discharges\n", u)
			}
			for _, u := range scan.RunDependent {
				fmt.Printf("INCONCLUSIVE property=C07 harness=map-range-scan reason=run-dependent value source %s: its result differs from one process to the next; no harness compares two processes\n", u)
			}
			for _, u := range scan.PointerPrint {
				fmt.Printf("INCONCLUSIVE property=C07 harness=map-range-scan reason=%%p verb (pointer value printed) at %s\n", u)
			}
		}
	}
	exit := 0
	var printedKnown = map[string]bool{}
	for _, rep := range reports {
		seenV := map[string]bool{}
		for _, v := range rep.Confirmed {
			key := v.Clause + compactJSON(v.Model)
			if seenV[key] {
				continue
			}
			seenV[key] = true
			path := writeReplay(v)
			fmt.Printf("VIOLATION property=%s replay=%s\n", v.Property, path)
			fmt.Printf("  harness=%s clause=%s inputs=%s\n", v.Harness, v.Clause, compactJSON(v.Model))
			exit = 1
		}
		for _, v := range rep.Unconfirmed {
			path := writeReplay(v)
			fmt.Printf("UNCONFIRMED property=%s harness=%s clause=%s replay=%s (solver model does not reproduce natively: %s)\n", v.Property, v.Harness, v.Clause, path, v.Native)
			rep.Inconclusive = append(rep.Inconclusive, "unconfirmed counterexample for "+v.Clause)
		}
		if rep.Res != nil {
			var classes []string
			for c := range rep.Res.KnownHits {
				classes = append(classes, c)
			}
			sort.Strings(classes)
			for _, c := range classes {
				v := rep.Res.KnownHits[c]
				if !printedKnown[c] {
					printedKnown[c] = true
					fmt.Printf("KNOWN-FINDING: property=%s class=%s %s [witness %s native=%s]\n", v.Property, c, knownWhat[c], compactJSON(v.Model), v.Native)
				}
				rep.KnownPrinted = append(rep.KnownPrinted, c)
			}
		}
		rep.Inconclusive = dedupe(rep.Inconclusive)
		for _, r := range rep.Inconclusive {
			fmt.Printf("INCONCLUSIVE property=%s harness=%s reason=%s\n", *prop, rep.Spec.Func, r)
		}
	}
	writeEvidence(*prop, *tier, seed, reports, solvers, loadTime, time.Since(t0), known, scan)
	fmt.Printf("property %s tier %s: exit %d (%.1fs)\n", *prop, *tier, exit, time.Since(t0).Seconds())
	return exit
}

func withSupportPkgs(pkgRels []string) []string {
	has := map[string]bool{}
	for _, p := range pkgRels {
		has[p] = true
	}
	// every harness package other than analysis uses the constructors injected into analysis
	need := false
	for _, p := range pkgRels {
		if p != "analysis" {
			need = true
		}
	}
	if need && !has["analysis"] {
		if _, err := os.Stat(filepath.Join(verifDir, "harness", "analysis")); err == nil {
			pkgRels = append(pkgRels, "analysis")
		}
	}
	if has["generator/go/sqlcrud"] || has["generator/sql"] || has["generator"] {
		if !has["analysis/sql"] {
			if _, err := os.Stat(filepath.Join(verifDir, "harness", "analysis", "sql")); err == nil {
				pkgRels = append(pkgRels, "analysis/sql")
			}
		}
	}
	sort.Strings(pkgRels)
	return pkgRels
}

func compactJSON(v any) string {
	b, _ := json.Marshal(v)
	s := string(b)
	if len(s) > 600 {
		s = s[:600] + "..."
	}
	return s
}

func writeReplay(v *Violation) string {
	b, _ := json.MarshalIndent(v, "", " ")
	h := sha1.Sum(b)
	dir := filepath.Join(verifDir, "replays", v.Property)
	os.MkdirAll(dir, 0o755)
	path := filepath.Join(dir, fmt.Sprintf("%s-%x.json", v.Harness, h[:5]))
	os.WriteFile(path, b, 0o644)
	return path
}

// ---------------------------------------------------------------------------
// native runs

type nativeCase struct {
	ID      string         `json:"id"`
	Harness string         `json:"harness"`
	Inputs  map[string]any `json:"inputs"`
	Params  map[string]int `json:"params"`
}

type nativeOutcome struct {
	ID       string      `json:"id"`
	Outcome  string      `json:"outcome"`
	Panic    string      `json:"panic"`
	Failed   []string    `json:"failed"`
	Reached  []string    `json:"reached"`
	Known    []string    `json:"known"`
	Observes [][2]string `json:"observes"`
}

func runNativeCases(lr *loadResult, pkgRel string, cases []nativeCase, race bool) (map[string]*nativeOutcome, error) {
	ov, err := harnessOverlay(lr.pkgDirs, true)
	if err != nil {
		return nil, err
	}
	tmp, err := os.MkdirTemp("", "vnative-")
	if err != nil {
		return nil, err
	}
	defer os.RemoveAll(tmp)
	repl := map[string]string{}
	i := 0
	for virt, content := range ov {
		real := filepath.Join(tmp, fmt.Sprintf("f%d.go", i))
		i++
		if err := os.WriteFile(real, content, 0o644); err != nil {
			return nil, err
		}
		repl[virt] = real
	}
	ovJSON, _ := json.Marshal(map[string]any{"Replace": repl})
	ovFile := filepath.Join(tmp, "overlay.json")
	os.WriteFile(ovFile, ovJSON, 0o644)
	inFile := filepath.Join(tmp, "in.json")
	outFile := filepath.Join(tmp, "out.json")
	b, _ := json.Marshal(cases)
	os.WriteFile(inFile, b, 0o644)
	argv := []string{"test", "-vet=off", "-count=1", "-timeout=20m", "-run", "^TestVerifNative$", "-overlay", ovFile, "-modfile=" + filepath.Join(lr.scratch, "go.mod")}
	if race {
		argv = append(argv, "-race")
	}
	argv = append(argv, "./"+pkgRel)
	cmd := exec.Command("go", argv...)
	cmd.Dir = repoDir
	cmd.Env = append(goEnv(lr.scratch), "VERIF_NATIVE_IN="+inFile, "VERIF_NATIVE_OUT="+outFile)
	out, err := cmd.CombinedOutput()
	ob, rerr := os.ReadFile(outFile)
	if rerr != nil {
		return nil, fmt.Errorf("native run failed: %v\n%s\n...\n%s", err, head(string(out), 1500), tail(string(out), 2000))
	}
	var outs []*nativeOutcome
	if err := json.Unmarshal(ob, &outs); err != nil {
		return nil, err
	}
	m := map[string]*nativeOutcome{}
	for _, o := range outs {
		m[o.ID] = o
	}
	return m, nil
}

func head(s string, n int) string {
	if len(s) > n {
		return s[:n]
	}
	return s
}

func tail(s string, n int) string {
	if len(s) > n {
		return s[len(s)-n:]
	}
	return s
}

func contains(xs []string, x string) bool {
	for _, y := range xs {
		if y == x {
			return true
		}
	}
	return false
}

func runNative(lr *loadResult, reports []*harnessReport, tier string, seed int64) {
	byPkg := map[string][]*harnessReport{}
	for _, rep := range reports {
		if rep.Res != nil {
			byPkg[rep.Spec.Pkg] = append(byPkg[rep.Spec.Pkg], rep)
		}
	}
	for pkg, reps := range byPkg {
		var cases []nativeCase
		type ref struct {
			rep  *harnessReport
			v    *Violation
			kind string
			diff *diffCase
		}
		refs := map[string]ref{}
		padOf := map[string]string{}
		for _, rep := range reps {
			ts := rep.Spec.Quick
			if tier == "thorough" && (rep.Spec.Thorough.MaxPaths != 0 || rep.Spec.Thorough.Params != nil) {
				ts = rep.Spec.Thorough
			}
			add := func(v *Violation, kind string) {
				id := fmt.Sprintf("%s-%s-%d", rep.Spec.Func, kind, len(cases))
				cases = append(cases, nativeCase{ID: id, Harness: rep.Spec.Func, Inputs: v.Model, Params: ts.Params})
				refs[id] = ref{rep: rep, v: v, kind: kind}
				if rep.Spec.ReplayPad != nil && v.EnvChoice {
					// padded variants: let the real (unstable) sort show what its contract allows
					for _, pv := range rep.Spec.ReplayPad.Values {
						pp := map[string]int{}
						for k, x := range ts.Params {
							pp[k] = x
						}
						pp[rep.Spec.ReplayPad.Param] = pv
						pid := fmt.Sprintf("%s+pad%d", id, pv)
						cases = append(cases, nativeCase{ID: pid, Harness: rep.Spec.Func, Inputs: v.Model, Params: pp})
						padOf[pid] = id
					}
				}
			}
			for _, v := range rep.Res.Violations {
				add(v, "violation")
			}
			for _, v := range rep.Res.KnownHits {
				add(v, "known")
			}
			if !rep.Spec.NoDiff {
				n := diffCount(rep.Spec, ts, tier)
				for _, dc := range lr.eng.diffCases(rep, ts, n, seed) {
					id := fmt.Sprintf("%s-diff-%d", rep.Spec.Func, len(cases))
					cases = append(cases, nativeCase{ID: id, Harness: rep.Spec.Func, Inputs: dc.model, Params: ts.Params})
					d := dc
					refs[id] = ref{rep: rep, kind: "diff", diff: d}
				}
			}
		}
		if len(cases) == 0 {
			continue
		}
		var outs map[string]*nativeOutcome
		var err error
		raced := map[string]bool{}
		raceMode := false
		for _, rep := range reps {
			if rep.Spec.RaceReplay {
				raceMode = true
			}
		}
		if raceMode {
			// counterexamples are replayed under the race detector (several attempts); the
			// differential vectors run on the ordinary build
			var raceCases, plain []nativeCase
			for _, c := range cases {
				if refs[c.ID].kind == "diff" {
					plain = append(plain, c)
				} else {
					raceCases = append(raceCases, c)
				}
			}
			outs = map[string]*nativeOutcome{}
			if len(plain) > 0 {
				o1, e1 := runNativeCases(lr, pkg, plain, false)
				err = e1
				for k, v := range o1 {
					outs[k] = v
				}
			}
			if len(raceCases) > 0 && err == nil {
				attempts := 8
				if tier == "thorough" {
					attempts = 20
				}
				o2, r2, e2 := runNativeRace(lr, pkg, raceCases, attempts)
				err = e2
				raced = r2
				for k, v := range o2 {
					outs[k] = v
				}
			}
		} else {
			// counterexamples of termination clauses kill the process they run in (stack overflow): each
			// runs alone, so that the batch of the other cases survives
			var isolated, batch []nativeCase
			for _, c := range cases {
				if r := refs[c.ID]; r.v != nil && r.kind != "diff" && strings.Contains(r.v.Clause, "terminates") {
					isolated = append(isolated, c)
				} else {
					batch = append(batch, c)
				}
			}
			outs = map[string]*nativeOutcome{}
			if len(batch) > 0 {
				outs, err = runNativeCases(lr, pkg, batch, false)
				if outs == nil {
					outs = map[string]*nativeOutcome{}
				}
			}
			for _, c := range isolated {
				o1, e1 := runNativeCases(lr, pkg, []nativeCase{c}, false)
				if e1 == nil {
					for k, v := range o1 {
						outs[k] = v
					}
					continue
				}
				if strings.Contains(e1.Error(), "stack overflow") || strings.Contains(e1.Error(), "goroutine stack exceeds") {
					outs[c.ID] = &nativeOutcome{ID: c.ID, Outcome: "fatal: stack overflow", Failed: []string{refs[c.ID].v.Clause}}
				}
			}
		}
		if err != nil && !raceMode {
			// the batch died (e.g. a non-terminating recursion overflowed the stack of the test
			// process): run the cases one by one
			batchErr := err
			outs = map[string]*nativeOutcome{}
			for _, c := range cases {
				if refs[c.ID].kind == "diff" && len(cases) > 40 {
					continue
				}
				o1, e1 := runNativeCases(lr, pkg, []nativeCase{c}, false)
				if e1 == nil {
					for k, v := range o1 {
						outs[k] = v
					}
					continue
				}
				r := refs[c.ID]
				if r.kind != "diff" && strings.Contains(r.v.Clause, "terminates") &&
					(strings.Contains(e1.Error(), "stack overflow") || strings.Contains(e1.Error(), "goroutine stack exceeds")) {
					outs[c.ID] = &nativeOutcome{ID: c.ID, Outcome: "fatal: stack overflow", Failed: []string{r.v.Clause}}
				}
			}
			err = nil
			if len(outs) == 0 {
				err = batchErr
			}
		}
		if err != nil {
			for _, rep := range reps {
				rep.Inconclusive = append(rep.Inconclusive, "native run failed: "+strings.ReplaceAll(err.Error(), "\n", " | "))
				rep.Unconfirmed = append(rep.Unconfirmed, rep.Res.Violations...)
			}
			continue
		}
		for id, r := range refs {
			o := outs[id]
			switch r.kind {
			case "violation", "known":
				r.rep.ReplayRuns++
				ok := o != nil && contains(o.Failed, r.v.Clause)
				if !ok && raced[id] && strings.Contains(r.v.Clause, "data-race") {
					ok = true
					r.v.Extra = map[string]string{"reproduced_with": "go test -race: DATA RACE reported"}
				}
				if !ok {
					for pid, base := range padOf {
						if base == id && outs[pid] != nil && contains(outs[pid].Failed, r.v.Clause) {
							ok = true
							o = outs[pid]
							r.v.Extra = map[string]string{"reproduced_with": pid}
						}
					}
				}
				if o == nil {
					r.v.Native = "no outcome"
				} else {
					r.v.Native = fmt.Sprintf("outcome=%s failed=%v", o.Outcome, o.Failed)
					if o.Panic != "" {
						r.v.Native += " panic=" + o.Panic
					}
				}
				if ok {
					r.rep.ReplayAgree++
					r.v.Native = "reproduced: " + r.v.Native
				}
				if r.kind == "violation" {
					if ok {
						r.rep.Confirmed = append(r.rep.Confirmed, r.v)
					} else {
						r.rep.Unconfirmed = append(r.rep.Unconfirmed, r.v)
					}
				} else if !ok {
					r.rep.Inconclusive = append(r.rep.Inconclusive, fmt.Sprintf("known-finding witness for %s does not reproduce natively (%s)", r.v.Known, r.v.Native))
				}
			case "diff":
				r.rep.DiffRuns++
				if msg := r.diff.compare(o, r.rep.Spec.PermuteMaps); msg == "" {
					r.rep.DiffAgree++
				} else {
					r.rep.Inconclusive = append(r.rep.Inconclusive, "differential twin mismatch (engine vs native): "+msg+" inputs="+compactJSON(r.diff.model))
				}
			}
		}
	}
}

func cmdReplay(args []string) int {
	if len(args) < 1 {
		fmt.Fprintln(os.Stderr, "usage: vcheck replay FILE")
		return 2
	}
	b, err := os.ReadFile(args[0])
	if err != nil {
		fmt.Fprintln(os.Stderr, err)
		return 2
	}
	var v Violation
	if err := json.Unmarshal(b, &v); err != nil {
		fmt.Fprintln(os.Stderr, err)
		return 2
	}
	reg, err := loadRegistry()
	if err != nil {
		fmt.Fprintln(os.Stderr, err)
		return 2
	}
	var spec *harnessSpec
	for i := range reg {
		if reg[i].Func == v.Harness {
			spec = &reg[i]
		}
	}
	if spec == nil {
		fmt.Fprintln(os.Stderr, "harness not registered:", v.Harness)
		return 2
	}
	scratch, err := scratchMod()
	if err != nil {
		fmt.Fprintln(os.Stderr, err)
		return 2
	}
	defer os.RemoveAll(scratch)
	lr := &loadResult{scratch: scratch, pkgDirs: withSupportPkgs([]string{spec.Pkg})}
	params := spec.Quick.Params
	if os.Getenv("VERIF_TIER") == "thorough" && spec.Thorough.Params != nil {
		params = spec.Thorough.Params
	}
	// a counterexample that needed the padded variant (sort contract) or the race detector is
	// replayed the same way
	pp := map[string]int{}
	for k, x := range params {
		pp[k] = x
	}
	how := v.Extra["reproduced_with"]
	if i := strings.Index(how, "+pad"); i >= 0 && spec.ReplayPad != nil {
		if n, err := strconv.Atoi(how[i+4:]); err == nil {
			pp[spec.ReplayPad.Param] = n
		}
	}
	cases := []nativeCase{{ID: "r", Harness: v.Harness, Inputs: v.Model, Params: pp}}
	var outs map[string]*nativeOutcome
	raced := map[string]bool{}
	if spec.RaceReplay {
		outs, raced, err = runNativeRace(lr, spec.Pkg, cases, 20)
	} else {
		outs, err = runNativeCases(lr, spec.Pkg, cases, false)
	}
	o := outs["r"]
	if o == nil {
		fmt.Println("no outcome")
		return 2
	}
	fmt.Printf("native outcome=%s failed=%v reached=%d observes=%v panic=%s\n", o.Outcome, o.Failed, len(o.Reached), o.Observes, o.Panic)
	if contains(o.Failed, v.Clause) || (raced["r"] && strings.Contains(v.Clause, "data-race")) {
		fmt.Printf("REPRODUCED property=%s clause=%s\n", v.Property, v.Clause)
		return 1
	}
	fmt.Println("not reproduced")
	return 0
}

func dedupe(xs []string) []string {
	seen := map[string]int{}
	var out []string
	for _, x := range xs {
		if seen[x] == 0 {
			out = append(out, x)
		}
		seen[x]++
	}
	return out
}

func diffCount(h harnessSpec, ts tierSpec, tier string) int {
	if h.NoDiff {
		return 0
	}
	if ts.Diff != 0 {
		return ts.Diff
	}
	if tier == "thorough" {
		return 60
	}
	return 16
}

// cmdDebug re-executes the symbolic path of a replay file and prints what the engine observed.
func cmdDebug(args []string) int {
	b, err := os.ReadFile(args[0])
	if err != nil {
		fmt.Println(err)
		return 2
	}
	var v Violation
	json.Unmarshal(b, &v)
	reg, _ := loadRegistry()
	var spec *harnessSpec
	for i := range reg {
		if reg[i].Func == v.Harness {
			spec = &reg[i]
		}
	}
	lr, err := loadProgram(withSupportPkgs([]string{spec.Pkg}))
	if err != nil {
		fmt.Println(err)
		return 2
	}
	defer os.RemoveAll(lr.scratch)
	fn := lr.eng.findFunc(spec.Pkg, spec.Func)
	sol, _ := NewSolver([]string{"z3"})
	defer sol.Close()
	cfg := RunConfig{MaxSteps: 5000000, MaxPaths: 1, Params: spec.Quick.Params, PermuteMaps: spec.PermuteMaps, KnownActive: map[string]bool{}, Trace: true}
	pr := lr.eng.runPath(fn, v.Decisions, sol, cfg)
	fmt.Println("outcome:", pr.outcome, pr.reason)
	for _, o := range pr.p.observes {
		fmt.Println("observe", o.Label, o.Val)
	}
	for _, x := range pr.violations {
		fmt.Println("violation", x.Clause, compactJSON(x.Model))
	}
	return 0
}

// runNativeRace builds the native test binary of pkgRel with the race detector once and runs every
// case up to `attempts` times. A case is reproduced when its clause fails natively, or, for the
// data-race clause, when the race detector reports a race during its run.
func runNativeRace(lr *loadResult, pkgRel string, cases []nativeCase, attempts int) (map[string]*nativeOutcome, map[string]bool, error) {
	ov, err := harnessOverlay(lr.pkgDirs, true)
	if err != nil {
		return nil, nil, err
	}
	tmp, err := os.MkdirTemp("", "vrace-")
	if err != nil {
		return nil, nil, err
	}
	defer os.RemoveAll(tmp)
	repl := map[string]string{}
	i := 0
	for virt, content := range ov {
		real := filepath.Join(tmp, fmt.Sprintf("f%d.go", i))
		i++
		os.WriteFile(real, content, 0o644)
		repl[virt] = real
	}
	ovJSON, _ := json.Marshal(map[string]any{"Replace": repl})
	ovFile := filepath.Join(tmp, "overlay.json")
	os.WriteFile(ovFile, ovJSON, 0o644)
	bin := filepath.Join(tmp, "native.test")
	build := exec.Command("go", "test", "-c", "-race", "-vet=off", "-overlay", ovFile, "-modfile="+filepath.Join(lr.scratch, "go.mod"), "-o", bin, "./"+pkgRel)
	build.Dir = repoDir
	build.Env = goEnv(lr.scratch)
	if out, err := build.CombinedOutput(); err != nil {
		return nil, nil, fmt.Errorf("race build failed: %v %s", err, tail(string(out), 1500))
	}
	outs := map[string]*nativeOutcome{}
	raced := map[string]bool{}
	for _, c := range cases {
		for a := 0; a < attempts; a++ {
			inFile := filepath.Join(tmp, "in.json")
			outFile := filepath.Join(tmp, "out.json")
			os.Remove(outFile)
			b, _ := json.Marshal([]nativeCase{c})
			os.WriteFile(inFile, b, 0o644)
			cmd := exec.Command(bin, "-test.run", "^TestVerifNative$", "-test.count=1")
			cmd.Dir = filepath.Join(repoDir, pkgRel)
			cmd.Env = append(goEnv(lr.scratch), "VERIF_NATIVE_IN="+inFile, "VERIF_NATIVE_OUT="+outFile, "GORACE=halt_on_error=0")
			out, _ := cmd.CombinedOutput()
			if strings.Contains(string(out), "DATA RACE") {
				raced[c.ID] = true
			}
			if ob, err := os.ReadFile(outFile); err == nil {
				var os_ []*nativeOutcome
				if json.Unmarshal(ob, &os_) == nil && len(os_) == 1 {
					if prev := outs[c.ID]; prev == nil || len(os_[0].Failed) > 0 {
						outs[c.ID] = os_[0]
					}
				}
			}
			if raced[c.ID] || (outs[c.ID] != nil && len(outs[c.ID].Failed) > 0) {
				break
			}
		}
	}
	return outs, raced, nil
}

// cmdConcrete runs a harness in the engine on fixed inputs (JSON object) and prints the observations.
func cmdConcrete(args []string) int {
	reg, _ := loadRegistry()
	var spec *harnessSpec
	for i := range reg {
		if reg[i].Func == args[0] {
			spec = &reg[i]
		}
	}
	var model map[string]any
	if err := json.Unmarshal([]byte(args[1]), &model); err != nil {
		fmt.Println(err)
		return 2
	}
	lr, err := loadProgram(withSupportPkgs([]string{spec.Pkg}))
	if err != nil {
		fmt.Println(err)
		return 2
	}
	defer os.RemoveAll(lr.scratch)
	fn := lr.eng.findFunc(spec.Pkg, spec.Func)
	sol, _ := NewSolver([]string{"z3"})
	defer sol.Close()
	cfg := RunConfig{MaxSteps: 50000000, MaxPaths: 1, Params: spec.Quick.Params, FixedModel: model, KnownActive: map[string]bool{}, Trace: true}
	pr := lr.eng.runPath(fn, nil, sol, cfg)
	fmt.Println("outcome:", pr.outcome, pr.reason, "failed:", pr.p.failed)
	for _, o := range pr.p.observes {
		fmt.Println("observe", o.Label, o.Val)
	}
	return 0
}
