package main

// Running generated code (vfExec). A harness hands over the source text of a package — typically
// the declarations a generator was run on, the Go file the generator emitted for them, and a file
// of assertions about the values the generated functions return — and the engine type-checks it with
// the real go/types, builds its SSA with the real go/ssa and interprets the entry function in the
// current symbolic path. The generated code is therefore decided by the solver like any other code:
// its random source is an input (math/rand stubs), its assertions are vfAssert calls.
//
// The SSA program of a source text is built once per process (keyed by the text) and shared by all
// paths: SSA functions are immutable once built.

import (
	"crypto/sha256"
	"fmt"
	"go/ast"
	"go/parser"
	"go/token"
	"go/types"
	"sort"
	"strings"
	"sync"

	"golang.org/x/tools/go/ssa"
)

// execAPI is appended to the executed package: the harness API as external (body-less) functions.
const execAPI = `

func vfAssert(cond bool, clause string)
func vfAssume(cond bool)
func vfObserve(label string, v any)
func vfChoice(name string, n int) int
func vfInt(name string, lo, hi int64) int64
func vfBool(name string) bool
func vfString(name string, minLen, maxLen int, class string) string
func vfKnown(class string, cond bool)
func vfCatch(f func()) (panicked, runtimeErr bool, msg string)
func vfTerminates(f func()) bool
func vfStop()
func vfAssertTerminates(f func(), clause string)
func vfDeepEqual(a, b any) bool
func vfRandConcrete(on bool)
func vfAnd(a, b bool) bool
func vfOr(a, b bool) bool
func vfNot(a bool) bool
func vfImplies(a, b bool) bool
`

type execUnit struct {
	once sync.Once
	errs []string
	prog *ssa.Program
	pkg  *ssa.Package
}

var (
	execMu    sync.Mutex
	execUnits = map[string]*execUnit{}
)

// srcKey identifies a source package by its text and the text of its imports.
func (hp *hostPackage) srcKey() string {
	if hp.key != "" {
		return hp.key
	}
	h := sha256.New()
	fmt.Fprintf(h, "%s\x00", hp.path)
	for i := range hp.names {
		fmt.Fprintf(h, "%s\x00%s\x00", hp.names[i], hp.srcs[i])
	}
	for _, d := range hp.deps {
		fmt.Fprintf(h, "%s\x00", d.srcKey())
	}
	hp.key = fmt.Sprintf("%x", h.Sum(nil))
	return hp.key
}

type checkedPkg struct {
	types *types.Package
	files []*ast.File
	info  *types.Info
}

func (u *execUnit) build(root *hostPackage) {
	fset := token.NewFileSet()
	checked := map[string]*checkedPkg{}
	var check func(hp *hostPackage) *types.Package
	check = func(hp *hostPackage) *types.Package {
		if c, ok := checked[hp.path]; ok {
			return c.types
		}
		for _, d := range hp.deps {
			check(d)
		}
		var files []*ast.File
		for i := range hp.names {
			f, err := parser.ParseFile(fset, hp.names[i], hp.srcs[i], parser.ParseComments|parser.SkipObjectResolution)
			if err != nil {
				u.errs = append(u.errs, "syntax: "+err.Error())
				continue
			}
			files = append(files, f)
		}
		info := &types.Info{Types: map[ast.Expr]types.TypeAndValue{}, Defs: map[*ast.Ident]types.Object{}, Uses: map[*ast.Ident]types.Object{},
			Selections: map[*ast.SelectorExpr]*types.Selection{}, Implicits: map[ast.Node]types.Object{}, Scopes: map[ast.Node]*types.Scope{},
			Instances: map[*ast.Ident]types.Instance{}, FileVersions: map[*ast.File]string{}}
		conf := types.Config{
			Importer: importerFunc(func(path string) (*types.Package, error) {
				if c, ok := checked[path]; ok {
					return c.types, nil
				}
				return importStd(path)
			}),
			Error: func(err error) { u.errs = append(u.errs, err.Error()) },
		}
		tpkg, _ := conf.Check(hp.path, fset, files, info)
		checked[hp.path] = &checkedPkg{types: tpkg, files: files, info: info}
		return tpkg
	}
	rootT := check(root)
	if len(u.errs) > 0 {
		return
	}
	prog := ssa.NewProgram(fset, ssa.InstantiateGenerics)
	created := map[*types.Package]bool{}
	var create func(tp *types.Package)
	create = func(tp *types.Package) {
		if created[tp] {
			return
		}
		created[tp] = true
		for _, imp := range tp.Imports() {
			create(imp)
		}
		if c, ok := checked[tp.Path()]; ok && c.types == tp {
			prog.CreatePackage(tp, c.files, c.info, true)
		} else {
			prog.CreatePackage(tp, nil, nil, true)
		}
	}
	create(rootT)
	prog.Build()
	u.prog = prog
	u.pkg = prog.Package(rootT)
}

// srcPackage reads (pkgPath, fileNames, sources, imports) without type-checking.
func (p *path) srcPackage(args []value) *hostPackage {
	hp := &hostPackage{path: p.argName(args[0])}
	names, _ := args[1].([]value)
	srcs, _ := args[2].([]value)
	imps, _ := args[3].([]value)
	for i := range names {
		s := srcs[i].(Str)
		if !s.IsConcrete() {
			p.unsupported("source text must be concrete")
		}
		hp.names = append(hp.names, p.argName(names[i]))
		hp.srcs = append(hp.srcs, s.Concrete())
	}
	l := p.links()
	for _, ip := range imps {
		if cell, ok := ip.(*value); ok && cell != nil {
			if d := l.pkg[cell]; d != nil {
				hp.deps = append(hp.deps, d)
			}
		}
	}
	sort.Slice(hp.deps, func(i, j int) bool { return hp.deps[i].path < hp.deps[j].path })
	return hp
}

// vfExec(pkgPath, fileNames, sources, imports, entry) []string: type-checks the package, and when it
// has no error runs its function `entry` (after the package initialiser) in the current path.
// Returns the type errors.
func vfExec(p *path, caller *frame, args []value) value {
	hp := p.srcPackage(args)
	if len(hp.srcs) == 0 {
		p.unsupported("vfExec: no source")
	}
	// the harness API, declared in the package of the executed code
	pkgClause := "package main"
	for _, line := range strings.Split(hp.srcs[0], "\n") {
		if strings.HasPrefix(line, "package ") {
			pkgClause = strings.TrimSpace(line)
			break
		}
	}
	hp.names = append(hp.names, "zz_vfapi.go")
	hp.srcs = append(hp.srcs, pkgClause+"\n"+execAPI)
	key := hp.srcKey()
	execMu.Lock()
	u := execUnits[key]
	if u == nil {
		u = &execUnit{}
		execUnits[key] = u
	}
	execMu.Unlock()
	u.once.Do(func() { u.build(hp) })
	out := []value{}
	if len(u.errs) > 0 {
		for _, e := range u.errs {
			out = append(out, p.mkStr(e))
		}
		return out
	}
	entry := p.argName(args[4])
	fn := u.pkg.Func(entry)
	if fn == nil {
		p.unsupported("vfExec: no function " + entry)
	}
	if p.execInit == nil {
		p.execInit = map[*execUnit]bool{}
	}
	if !p.execInit[u] {
		p.execInit[u] = true
		if init := u.pkg.Func("init"); init != nil {
			p.callFunction(nil, init, nil, nil)
		}
	}
	p.note("generated code executed: package " + hp.path + " (type-checked by go/types, SSA by go/ssa, interpreted in the path)")
	p.callFunction(caller, fn, nil, nil)
	return out
}

// ---------------------------------------------------------------------------
// math/rand as an input

// randInput: the k-th draw of the path. Small ranges (choices, lengths) are symbolic; large ranges,
// whose value generated code never branches on, follow one concrete stream.
func (p *path) randInput(n int64) *Term {
	p.randCount++
	name := fmt.Sprintf("rand#%d", p.randCount)
	if n <= 0 {
		p.runtimePanic("invalid argument to rand.Intn", "math/rand")
	}
	if n <= 16 && !p.randConcrete {
		return vfInt(p, nil, []value{p.mkStr(name), p.tc.BV(64, 0), p.tc.BV(64, uint64(n-1))}).(*Term)
	}
	p.note("math/rand: ranges above 16 follow one concrete stream (stated bound)")
	in := p.newInput(name, "int")
	v := (int64(p.randCount)*7919 + 13) % n
	if fx, ok := p.fixed(name); ok {
		v = toInt64(fx)
	}
	t := p.tc.BV(64, uint64(v))
	in.Bits = []*Term{t}
	return t
}

func stubRandIntn(width int) stubFn {
	return func(p *path, caller *frame, a []value) value {
		nt := a[0].(*Term)
		var n int64
		if nt.IsConst() {
			n = nt.Int64()
		} else {
			n = p.concreteInt(nt, 0, 1<<31, "rand.Intn argument")
		}
		return p.tc.Resize(p.randInput(n), width, true)
	}
}

func registerExecStubs() {
	stubs["math/rand.Intn"] = stubRandIntn(64)
	stubs["math/rand.Int63n"] = stubRandIntn(64)
	stubs["math/rand.Int31n"] = stubRandIntn(32)
	stubs["math/rand.Int31"] = func(p *path, caller *frame, a []value) value {
		return p.tc.Resize(p.randInput(1<<31-1), 32, true)
	}
	stubs["math/rand.Int63"] = func(p *path, caller *frame, a []value) value { return p.randInput(1<<62 - 1) }
	stubs["math/rand.Int"] = func(p *path, caller *frame, a []value) value { return p.randInput(1<<62 - 1) }
	stubs["math/rand.Float64"] = func(p *path, caller *frame, a []value) value { return unsupportedV{"float"} }
	stubs["math/rand.Float32"] = func(p *path, caller *frame, a []value) value { return unsupportedV{"float"} }
}

// zeroResultExternals: external functions of the executed universe whose result is only stored by
// generated code; they return the zero value of their result type.
var zeroResultExternals = map[string]bool{"time.Unix": true, "time.Now": true, "time.Date": true}
