#!/bin/bash
# Runs the repository's pinned test suite with the verif guard OFF on a scratch copy of /repo
# (the suite rewrites committed fixtures and go.sum in place, so it is never run inside /repo),
# then compares with the stable-pass list of /root/.vp/BASELINE.json. Exit 0 iff all of them pass.
set -u
export GOFLAGS=-mod=mod GOPROXY=off GOTOOLCHAIN=local
SCRATCH=$(mktemp -d /tmp/gomacro-baseline.XXXXXX)
trap 'rm -rf "$SCRATCH"' EXIT
rsync -a --exclude .git /repo/ "$SCRATCH/repo/"
cd "$SCRATCH/repo"
go test -json -vet=off -count=1 -timeout 25m ./... > "$SCRATCH/out.json" 2> "$SCRATCH/err.txt"
python3 - "$SCRATCH/out.json" <<'PY'
import json,sys
passed=set(); failed=set()
for line in open(sys.argv[1]):
    try: e=json.loads(line)
    except Exception: continue
    if e.get('Test') and '/' not in e['Test']:
        k=e['Package']+'::'+e['Test']
        if e['Action']=='pass': passed.add(k)
        if e['Action']=='fail': failed.add(k)
base=json.load(open('/root/.vp/BASELINE.json'))
missing=[t for t in base['stable_pass'] if t not in passed]
print("passed=%d failed=%d baseline=%d missing=%d"%(len(passed),len(failed),len(base['stable_pass']),len(missing)))
for t in missing: print("MISSING",t)
for t in sorted(failed): print("FAILED",t)
sys.exit(1 if missing else 0)
PY
