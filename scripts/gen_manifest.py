#!/usr/bin/env python3
"""Regenerates /verif/MANIFEST.json from the table below (single source of truth for claims)."""
import json, os

V = os.path.dirname(os.path.dirname(os.path.abspath(__file__)))
props = [json.loads(l) for l in open(os.path.join(V, "properties.jsonl"))]

TECH = "bounded symbolic execution of /repo's go/ssa + SMT (QF_BV, z3; z3 5.1 and cvc5 cross-check in thorough), native replay of every counterexample"
NOTE = ("Trusted: go/packages+go/ssa IR; the engine's SSA semantics and library contract stubs (validated on every run by the "
        "differential twin: same harness run natively on the real build); the SMT solvers; the oracle written in the harness. "
        "Bounds are per harness (evidence: coverage.bounds); nothing outside them is claimed.")

# id -> (level text, design ref, extra note)
CLAIMS = {
 "C17": ("Decides the root-computation clause: for every set of k<=3 directories (each up to 4 bytes quick / 7 bytes thorough, all 256 byte values, "
         "constrained only to what filepath.Dir(filepath.Abs(f)) can return) the root computed by LoadSources' commonPrefix is non-empty and a "
         "component-wise ancestor of every directory, and LoadSources on an empty list does not crash. Every path of the real SSA is explored and "
         "every assertion is an unsat query. The per-file package matching and error reporting of LoadSources are decided on a catalogue of layouts (two files of one package, a sibling package whose directory name extends the first, a sub-package, "
         "a non-Go file, a missing file; 1..3(4) listed files in any order with repetitions) against an environment model of os.Stat/packages.Load that is validated on every run by executing the real LoadSources on the same layout in a temporary module (differential twin). "
         "NOT decided: packages with type errors, the Go toolchain itself. Also: every file in 5 spellings (clean absolute, with /./, with /a/../, relative, ./relative); a sound package importing an ill-typed package of the module (error expected).",
         "DESIGN.md section 4 (C17)", ""),
 "C19": ("Decides the whole statement within the bounds: for every list of n<=3 (quick) / n<=4 (thorough) declarations whose IDs are any mix of 0- and 1-byte "
         "strings or all 2-byte strings (all byte values), 1-byte contents, symbolic priorities, equal IDs carrying equal content, "
         "WriteDeclarations(decls) equals a sort-free reference (distinct IDs once, content+newline, priority IDs first, each group in increasing ID order) "
         "for EVERY arrangement sort.Slice's contract allows (not only the one pdqsort happens to produce), and WriteDeclarations(perm(decls)) == WriteDeclarations(decls) "
         "for every permutation (n<=3). Counterexamples that need the sort's freedom are replayed natively inside >=13 padding declarations.",
         "DESIGN.md section 3 (C19)", ""),
 "C10": ("Decides the detection and iota clauses on the functions that implement them. (A) Enum.setIsIota on n<=3 (quick) / n<=4 (thorough) members with full 64-bit symbolic "
         "values, symbolic 1-byte names (hence symbolic exportedness), int/int64/uint8/uint64/string backing, under the sort.Sort contract (any sorted arrangement): the member "
         "list is only permuted (each constant once, comment attached), IsIota implies integer backing and exported values 0,1,2,... in the reported order, and every all-exported "
         "permutation of 0..n-1 is flagged. (B) fetchPkgEnums on a package scope of up to 3 (4) symbolic-named objects (constants of two named types, of a basic type, variables) with a real "
         "go/ast const declaration carrying no / a label / the opt-out trailing comment: T is an enum iff some typed constant is not opted out; members are exactly those, each once, with their comment. "
         "The real fetchConstComment/nodeAt/ast.Inspect code is executed. NOT decided: the walk over imported packages, constant values other than int64/uint64/string. Also: function-local declarations shadowing member names earlier in the file (real parser). Also: multi-line constant declarations with trailing comments; 66 exported constants with a gap or duplicate after 64 consecutive values.",
         "DESIGN.md section 4 (C10)", ""),
 "C09": ("Decides the selection and naming clauses. (A) StructField.Exported/JSONName against a transcription of encoding/json's typeFields/isValidTag rule, for every Go field name of 1..2 (3) identifier bytes, "
         "every json tag value of 0..3 (5) printable bytes, gomacro tag absent/ignore/other; on every native run the transcription itself is compared with the real encoding/json (reflect.StructOf + Marshal). "
         "(B) for typescript.codeForStruct, dart codeForStruct+jsonForStruct and the SQL JSON validator codeForStruct: adding one ignored field (unexported, json:\"-\", gomacro:\"ignore\") of any type at any position "
         "leaves the emitted text byte-identical; (C) the three texts depend on a field only through Exported()/JSONName() (rename of a tagged field; tagged F json:\"K\" vs untagged K). "
         "One residual class is a listed known finding (json tag names with characters encoding/json rejects). NOT decided: embedded-struct flattening conflicts, omitempty/string option effects on values. Also: 2..3 fields carrying byte-identical tags without a json name; an outer field sharing the Go name of a promoted field.",
         "DESIGN.md section 4 (C09)", ""),
 "C11": ("Decides the filter and back-link clauses. fetchPkgUnions/allNamedTypes on a package scope of 1..3 (4) named types with symbolic names, each an interface ({isA}, {isA;isB}, empty) or a struct/basic "
         "type whose methods isA/isB are absent, value-receiver or pointer-receiver, with go/types' real method-set algorithm deciding Implements: an interface is a union iff some non-interface type has a value "
         "method set implementing it; members are exactly those, each once, in name order. Struct.setImplements on 0..3 (4) unions (listing the struct or not, analysed or not, symbolic names) for every iteration "
         "order of the unions map: Implements is exactly the analysed unions listing the struct, in name order. NOT decided: reachability of unions/structs through the type graph (C12's traversal), cross-package members. Also: alias declarations of members and of the interface (real parser). Also: a type with the marker method's name but another signature; an interface made only of embedded interfaces; two structs of two packages sharing a local name.",
         "DESIGN.md section 4 (C11)", ""),
 "C07": ("Decides the map-iteration-order clause by self-composition: the engine treats every `range` over a map as a nondeterministic permutation and each harness compares the result under every order "
         "with the result under a reference order, on symbolic data where data matters (import paths, union names, constant names). Solved sites: Cache.Imports and the randdata header built from it, "
         "Struct.setImplements, fetchEnumsAndUnions (diamond import graph), fetchPkgEnums' final loop, PkgSelector.findPackage, NewLinker/OutputFiles/GetOutput, dart.Generate (file name -> text). "
         "A static scan of all 17 map-range sites of the non-test gomacro packages runs on every check; a site without harness or recorded argument is reported INCONCLUSIVE. Argued, not solved: populateTypes, "
         "the two httpapi import walks. For dart.Generate and NewLinker the quick tier varies one map range at a time (thorough: full product). Iteration orders are case-split exhaustively, "
         "the solver decides the data-dependent branches (string orderings). NOT decided: pointer-value and visiting-order sources (argued: no %p verb, Source sorted by position), cross-process runs, formatter output. Also: the constants of an enum spread over two files of a real source package parsed in both orders; the static scan also lists goroutine starts (an uncovered one is reported INCONCLUSIVE, not decided). The scan also lists run-dependent value sources (hash/maphash, math/rand, time.Now, os.Getpid in generator code): INCONCLUSIVE when present. A diamond of real source packages with a foreign constant of an enum's type under every order of the import walk.",
         "DESIGN.md section 4 (C07)", ""),
 "C18": ("Decides the crash mechanisms the statement names, on the functions that contain them; the assertion is always 'no Go runtime error outcome' (explicit panics with a string/error are diagnostics). "
         "Fixed-width slicing with symbolic identifiers: gounions.jsonForUnion (union name 1..3(5) bytes), randdata.functionID (package name 1..4(6) bytes), dart.codeForEnum (constant names 1..3(4) bytes incl. underscores). "
         "Type-argument assumption: typescript.typeName on G[int64], G[Named], G[[]string] built with the real types.Instantiate. Node lookup: fetchPkgEnums/fetchConstComment on real go/ast const declarations, "
         "grouped or not, 1..2 specs x 1..2 names, typed or converted, with/without comment. Directive kernels: ReplaceEnums with #[T.C] naming an enum/struct/variable/undeclared name, member or not; "
         "_SELECT KEY / UNIQUE directives naming unknown columns through sql.NewTable and sqlcrud.generateTable. Sweeps: typescript, dart (incl. Generate), SQL validators, gounions, randdata on every analysis.Type skeleton "
         "of depth<=1 (quick) / 2 (thorough) over the nine node kinds. NOT decided: the full statement over all well-typed packages (createType on arbitrary go/types graphs, unbounded recursion, packages.Load). Also: 7 self-referential declarations through the analysis (termination; natively a stack overflow, run isolated); the package selector for root import paths of 1..4 elements; the SQL validator names of self-referential named slices/maps (known finding: unbounded recursion). Also: the CRUD generator with the id field after unexported fields; six interface shapes next to a union.",
         "DESIGN.md section 4 (C18)", ""),
 "C13": ("Decides a bounded kernel. The route file, a fake echo package and an imported package are given as source text, parsed and type-checked by the real go/parser and go/types inside the engine (and natively in the twin); the syntax trees are copied into engine values "
         "with a two-way map so that the interpreted httpapi code consults the real types.Info, types.Eval and types.ExprString. Route files register 1 (2) routes over: 4 verbs; URL as literal, package-constant concatenation, imported-constant concatenation, local constant; "
         "handler as method, function, function of an imported package, function literal, form handler (file, value, JSON field, blob return), bool query parameter. Asserted: one endpoint per registration in source order (a non-route call is ignored), verb, constant-folded URL, "
         "contract name, bound input, JSON/blob return, query parameters with types, form values/file/JSON field with its resolved type; the prefix filter keeps exactly the routes whose URL has a SYMBOLIC prefix (solver-decided). Mostly a structural catalogue executed by the engine. "
         "NOT decided: arbitrary route files, other frameworks, generic handlers. Also: a generic typed helper of an imported package called with explicit type arguments; a handler answering early inside a condition before reading further inputs; two controllers with a same-named method; local constants shadowing package-level ones. Also: JSON form destinations that are a pointer variable or a field address; variadic verb methods with 0..2 middlewares.",
         "DESIGN.md section 6c (C13)", ""),
 "C12": ("Decides a bounded kernel of the statement on Analysis.handleType/createType/handleStructFields/NewTime with the real go/types objects: root struct with 1..1(2) fields whose types have depth<=1 over basic kinds, the root itself (self recursion), a second struct "
         "referring back into the world (mutual recursion), an enum, a union, type N []S, time.Time, a user-defined time type whose name has a symbolic part (date detection decided by the solver), a named int64, slices, arrays (length 0..2), maps, pointers. Asserted: no runtime error, "
         "termination (step bound = unwinding assertion), every reachable type registered and classified with the kind/length/key/element/fields/tags go/types reports, every node converting back to an identical Go type (time and date predefined, also inside composites). "
         "Mostly structural enumeration executed by the engine; the solver decides the name-dependent date classification. NOT decided: arbitrary programs, source order of declarations, aliases, generics. Also: chains of alias declarations on a real source package; a self-referential named map in the bounded world. Also: an alias declaration at every position of the source order; a struct with fields named like time.Time's.",
         "DESIGN.md section 6b (C12)", ""),
 "C06": ("Bug hunting only for the headline (Dart semantics are not encoded). Decided text clauses: fromJson reads and toJson writes exactly the Go JSON keys in field order with one constructor argument per exported field (symbolic names/tags); "
         "a class implements exactly its exported unions; the enum value table lists exactly the exported constants parallel to the enum names, iota enums convert by position only when the listed values are their positions (real setIsIota), "
         "enum names are distinct identifiers (symbolic constant names with underscores); through dart.Generate on every named type skeleton of depth<=2: no file imports itself, every imported file exists, JSON helpers are defined once per file and "
         "every helper used is defined in the file or in an imported file. Two listed known findings (enum prefix trimming; helper of a basic type reached only through a named type of another file). Union dispatch is covered under C02. Also: real source packages (embedded structs, tags with options) with hand-listed key lists; the file assigned to a package whose path has a symbolic component (siblings of the root's parent directory); enums of up to 4 one-letter constants for the order of the Dart enum names.",
         "DESIGN.md section 5 (C06)", ""),
 "C15": ("Two layers. (1) The headline on a catalogue of REAL source packages, by EXECUTING the generated code: source text -> real go/parser + go/types -> analysis -> randdata.Generate -> the generated file, its source package and a file of assertions are "
         "type-checked (go/types) and compiled to SSA (go/ssa) inside the engine and the entry function is interpreted in the symbolic path with math/rand as an input: for every outcome of every draw of range <= 16 (enum and union choices, slice lengths) rand<T>() "
         "returns without panicking, enum components are exported constants (int and string enums with unexported members in the middle), union components are non-nil members with well-formed content (struct and slice members, an unexported member), slices are populated "
         "with well-formed elements, non-square fixed arrays are filled, pointers are set, skipped and unexported fields keep their zero value. Draws of larger ranges (integers, runes) follow one concrete stream; floats and times are opaque. "
         "One listed known finding: recursive types never terminate (shown by executing the generated code; natively a stack overflow). (2) Solver-decided text clauses on symbolic skeletons: the union function picks among exactly one call per member; the struct "
         "function assigns exactly the exported fields not tagged gomacro-data:\"ignore\"; fixed arrays filled over their length; enum choices = exported constants. NOT decided: variation between calls, maps with more than one distinct key, the C02 round trip of random values.",
         "DESIGN.md sections 0b (generated code executed) and 5 (C15)", ""),
 "C04": ("Two layers. (1) The headline on one REAL source package, by EVALUATING the generated validators: source text -> real go/parser + go/types -> analysis -> generator/sql Generate (the script) and gounions Generate (the wrappers); inside the engine (vfExec) a value of the jsonb "
         "column's type is built (one component varying at a time; symbolic integers 0..9, strings of 0..2 bytes; nil/empty/populated slices and maps; union members struct / nil slice / empty slice / slice; recursive struct), marshalled under the encoding/json model, and the "
         "column's CHECK function is evaluated on the document by an interpreter of the PL/pgSQL subset the generator emits, written in the checking file (three-valued logic with symbolic truth values, ->, ->>, #>>, ::int, IN, IF, CASE incl. case-not-found, DECLARE initialisers, "
         "bool_and over jsonb_each / jsonb_array_elements ignoring NULLs and NULL on no row, a CHECK passing on TRUE or NULL): documents Go emits are admitted; 19 foreign documents (unknown key at two depths, wrong kinds, unknown Kind, Kind/Data mismatch, non-member int and string "
         "enum values, wrong fixed-array lengths, null for a fixed array) evaluate to FALSE or an error. The PostgreSQL semantics is my transcription of its documentation: no PostgreSQL is available to validate it (the native twin runs the same interpreter on the real "
         "encoding/json output). (2) Solver-decided text clauses on symbolic skeletons: def/use closure of gomacro_validate_json_* on every skeleton of depth<=2, null guards, array length clause, enum tuple, struct key list and per-field validation, union dispatch (1..2 members), "
         "one CHECK per jsonb column per table; key lists of embedded structs on real sources. One fixed defect (null Data of a nil slice member rejected), one listed known finding (validator name collisions across packages).",
         "DESIGN.md sections 0b (generated code executed) and 5 (C04)", ""),
 "C03": ("Two layers. (1) The headline on one REAL source package, by EXECUTION: source text -> real go/parser + go/types -> analysis -> typescript Generate (the declarations) and gounions Generate (the wrappers); inside the engine (vfExec) a Doc value is built (one component "
         "varying at a time: named int, int and string enums with an unexported constant, union with struct and slice members, slices nil/empty/populated, fixed arrays and arrays of arrays, maps keyed by string / named int / enum, recursive struct, empty struct, tags, '-', "
         "omitempty and unexported fields; symbolic integers 0..9, strings of 0..2 bytes), marshalled under the encoding/json model, and the document is checked to inhabit the generated declarations, which the checking file parses (subset grammar of the generator: interfaces, "
         "aliases, literal and union types, intersections with the opaque brand, tuples, arrays, Record, constant tables with (typeof X)[keyof typeof X], optional properties): same property names, primitive kinds, null where declared, tuple lengths, enum literal sets, "
         "Kind/Data alternatives, Record keys; no type name declared twice, every name used is declared. The TypeScript semantics (structural typing of JSON values) is my transcription. (2) Real-source text checks (generic structs with permuted type arguments, embedded structs, "
         "string enum literals decoded by the ECMAScript rules) and solver-decided text clauses on symbolic skeletons (closure, null markers, tuple arity, enum literals, one declaration per identifier). One fixed defect (omitempty fields were required properties), one listed "
         "known finding (equal local names in two packages). NOT decided: floats, time values, []byte, the axios client (C14).",
         "DESIGN.md sections 0b (generated code executed) and 5 (C03)", ""),
 "C02": ("Two layers. (1) The headline on one REAL source package, by EXECUTING the generated wrappers: source text -> real go/parser + go/types -> analysis -> gounions.Generate -> source, generated file and a checking file are type-checked and compiled to SSA "
         "inside the engine; the checking function builds a value (one component varying at a time: union field with tag, second union sharing a member, refining interface, nested struct, named slice and named map of unions nil/empty/2 entries; members: struct, "
         "unexported struct, named slice nil/non-nil, named map nil/non-nil, struct of two unions; symbolic integers 0..9 and strings of 0..2 bytes), marshals it, unmarshals the result and asserts deep equality (nil = empty), then reads the wire back: keys and encodings of "
         "the other fields (tags, omitempty, '-'), every union value = {Kind: Go member name, Data: the member's own JSON}. encoding/json is the engine's model of it (tags, omitempty, embedded structs, Marshaler/Unmarshaler dispatch into the interpreted methods, RawMessage, "
         "sorted map keys, null rules), validated against the real package on every sampled path by the native twin (which runs the same files with go run). (2) Solver-decided wire-format text clauses on symbolic skeletons: shadow struct keeps every field, type and tag; "
         "one case per member with the Go member name as Kind; TypeScript, Dart and SQL validator use the same names. NOT decided: floats, []byte, time values, unicode escapes in symbolic strings, packages other than the catalogue.",
         "DESIGN.md sections 0b (generated code executed) and 5 (C02)", ""),
 "C01": ("Two layers. (1) The headline itself on a catalogue of REAL source packages: source text -> real go/parser + go/types (inside the engine and natively) -> NewAnalysisFromFile -> gounions / randdata / sqlcrud Generate -> the generated file is "
         "type-checked together with its source package by the real go/types (unused/self imports, which the tool's goimports pass removes, are ignored; a stand-in pq package): 10 + 5 + 10 variants (tagged siblings, two unions, named slices/maps of unions, "
         "one-letter union name, imported types, byte/rune, string enum with unexported constant, unions with unexported member, recursive struct, foreign keys with UNIQUE/select key read from real doc comments, primary key spelled ID, guard, link table with nullable "
         "key and custom query, enum/array/composite/time columns). (2) Solver-decided necessary conditions on symbolic skeletons: distinct random-function names for distinct named types, def/use closure of rand<ID>() on every skeleton of depth<=2, enum choice "
         "literal = exported constants, distinct Kind constants across unions, selectors on table values name existing fields, declared function/type names are identifiers declared once. Three listed known findings (two naming collisions, id-only tables).",
         "DESIGN.md section 5 (C01)", ""),
 "C14": ("Decides the request-shape clause on generateMethod/generateAxiosCall/typeIn/typeOut/asObjectKey/convertTypedQueryParams/renderTypes/GenerateAxios for endpoints with symbolic handler, URL, form and query names: method named after the handler, "
         "Axios.<verb>(fullUrl, ...) with fullUrl = baseUrl + URL, second argument formData / params / null (body-less POST, PUT) / absent, exactly the declared formData.append calls, query object with exactly the declared parameters converted by kind, "
         "arraybuffer iff blob, `return true` iff no return type, blob + file name for blob routes, every parameter the body uses declared in the signature; file level (1..2 endpoints, concrete names): one method per endpoint, every type a signature mentions "
         "declared exactly once. One listed known finding (JSON body and query parameters share the `params` argument). Assumes (from the statement) a JSON body or a form, not both. NOT decided: behaviour under Node, TypeScript validity. Also: named bool and named float query parameter types; JSON form field of struct, string, named string or integer type. Also: parameter names starting with any alphanumeric byte (signature keys quoted or identifiers).",
         "DESIGN.md section 4 (C14)", ""),
 "C05": ("Decides the statement-shape clause. newColumnsCode on tables of 1..3 (4) columns with symbolic exported names and guard flags: the parallel Go/SQL lists are aligned (equal to lists built from one ordered column list), "
         "placeholders are $1..$n, guards excluded, NoPrimary lists = the same lists without the primary column, columnsCount = n. sqlcrud.Generate + generator/sql.Generate on every table shape of a structural catalogue "
         "(with/without primary key named Id or ID, any subset of {string, foreign key, guard, bool} columns, optional UNIQUE and select key): every Query/QueryRow/Exec call of the generated Go text is parsed, its $k placeholders "
         "are exactly 1..m with m = number of Go arguments, and it names only the generated table and its columns. The second harness runs on concrete names (its assertions fold; it is an exhaustive enumeration of shapes executed by the engine and natively). "
         "NOT decided: execution against a database, histories, scan order vs RETURNING order beyond the shared column list. Also: link tables written as real source with 2..3 foreign keys and a UNIQUE directive on any of them (Delete condition evaluated on symbolic rows, placeholder numbering).",
         "DESIGN.md section 4 (C05)", ""),
 "C08": ("Decides the mapping clauses on generateTable/createStmt/typeConstraint/enumTuple/newType/NewTable/isTableID/newForeignKey/generateForeignConstraint/generateQuardConstraint. Columns: every field type of a 36-entry catalogue covering the "
         "documented Go-to-SQL mapping, symbolic field names (exported or not), optional guard: one column per exported-or-guard field in order, documented SQL type, NOT NULL unless nullable wrapper / variable-length array, enum CHECK listing exactly the values, "
         "fixed-array length CHECK, jsonb CHECK calling its validator, id => serial PRIMARY KEY, snake-case-plural table name (incl. an acronym). Foreign keys: ID type names symbolic (1..4(5) bytes), int64 or not, optional foreign/on-delete tags: exactly one "
         "constraint to the table named by the ID type (affix 'id' in any case) or the tag, ON DELETE as tagged, none otherwise, tag on non-int64 refused. Guards: default + equality CHECK with the same symbolic value. NOT decided: composite declarations across packages, ordering of the whole script. Also: nullable wrappers over every data kind incl. user-defined date/time types; one CHECK per jsonb column across two tables.",
         "DESIGN.md section 4 (C08)", ""),
 "C16": ("Decides the rewriting clauses with a symbolic regular-expression matcher (a priority-ordered backtracker over the real regexp/syntax program of each pattern, byte-class tests decided by the solver). "
         "TableNameReplacer.Replace against a loop-written tokenizer on symbolic text around/inside table names (prefix names included): whole words equal to a table name are replaced, nothing else; "
         "ReplaceEnums: #[E.A] inside symbolic text becomes the SQL literal (digits as written, strings single-quoted) optionally followed by an SQL comment, surroundings untouched; sql.newCustomQuery: $name$ placeholders "
         "numbered by first occurrence with equal names sharing a number, one typed input per distinct name; Table.processComments: select-key directives never reach CustomConstraints, UNIQUE/select-key column lists are "
         "the trimmed names; generateCustomConstraint: REFERENCES <name> rewritten through the real ToSnakeCase, ADD attached to the own table, other content verbatim. "
         "NOT decided: which struct a comment is attributed to (position arithmetic on a type-checked package), guard values beyond the enum placeholder. Also: two analyses declaring the same enum and constant names expanded alternately in one process; a string enum value that reads like the table struct's name inside a custom constraint. Also: four declaration forms of the struct carrying the directive (plain, group with the directive on the first / second spec, single-spec group; one defect fixed); the same directive text on two tables.",
         "DESIGN.md section 4 (C16)", ""),
 "C20": ("Decides the whole statement within the bounds: 2 (quick) / 3 (thorough) goroutines each issuing one FormatFile(format, file) on one shared zero Formatters, format ranging over NoFormat, the four formats and an "
         "out-of-range value, tool presence (4 booleans) and run failure (one per request) symbolic. The real SSA of hasGo/hasDart/hasTypescript/hasPsql/FormatFile runs on engine threads; sync.Mutex/WaitGroup and "
         "os/exec are environment models; every interleaving at the visible operations (Lock, Unlock, command execution, Wait, thread exit) is explored and happens-before is tracked with vector clocks, so that "
         "two unordered conflicting accesses to any memory cell are reported as a data race on every schedule. Assertions: no data race, no deadlock, each tool probed at most once, the formatter runs exactly once "
         "per request when present, error iff the run fails, absent tool => nil error and no command/write naming the file. Commands are matched by tool and mentioned file, not by exact flags. Counterexamples are "
         "replayed natively with fake tools on PATH under `go test -race` (up to 8/20 attempts). Also cmd.saveOutputs itself (HC20_saveOutputs): the formatting goroutines it starts and its WaitGroup under every interleaving: every started formatter request has finished when it returns.",
         "DESIGN.md section 3 (C20)", "Additionally trusted: the sync/os.exec environment model of engine/threads.go; interleavings are case-split at synchronisation points only (unsynchronised accesses are found by the happens-before check, not by finer interleaving)."),
}

NA = {
}
PENDING = "no check registered yet: harnesses for this property are not built/validated at this commit (build order: DESIGN.md section 9)"

checks = []
na = []
# additions of the seventh seeding round (one harness per input class; see DESIGN.md section 0b)
ROUND7 = {
 "C03": "Also by execution: structs whose outer field shadows (by Go name or by tag, 4 types, before/after) a field of a struct embedded at depth 1..2; the engine's encoding/json model applies the dominant-field rule (HC03_execShadowed). One class is a listed known finding (the shadowed property is declared twice in the interface).",
 "C04": "Also by evaluation: a table with two jsonb columns over ordered pairs of 9 nested slice/fixed-array shapes of int or string; each column's own CHECK is evaluated on the documents Go emits and on documents wrong by one kind or one fixed length (HC04_execColumns).",
 "C05": "Also decided by execution: the generated SelectAllXs/ScanXs/ScanX functions of a primary or link table with a jsonb column (5 column types) run in the engine against an in-memory stand-in of database/sql holding 2 (3) symbolic rows; the items returned must be deeply equal to the rows stored (HC05_execSelectAll).",
 "C07": "Also: cmd.Config.run itself is executed on 2 (3) real source files with TypeScript and Dart actions, under every order of the Config map and every completion order of the goroutines it starts (thorough: <=1 preemption), against the sequential run in sorted file order (HC07_configRun; formatters absent); httpapi.ParseEcho on a handler reading 2..3 (4) query parameters, names drawn with repetition, under every map order (HC07_echoQueryParams).",
 "C08": "Also: exactly one CREATE TABLE per struct of the analysed file, for a table of 1..3 (4) distinct fields in any order from a catalogue including Valid bool, a foreign key and a nullable wrapper (HC08_everyStructIsATable).",
 "C09": "Also: 2..3 structs embedding one base struct of 1..3 (6) symbolic fields, analysed together in three orders, each compared with encoding/json's flattening rule (HC09_sharedBase).",
 "C10": "Also: a diamond of four real packages in which importers declare or not constants typed with the owner's enum (5 import shapes, names sorting before/after the owner, 0..3 owner members): the enum exists iff its own package declares constants, with exactly those (HC10_foreignTypedConstants; a genuine defect found there was repaired).",
 "C11": "Also: module paths of 1..4 elements, analysed package at 3 depths, union declared in the tree-root package, a parent, a sibling or a child, reached directly or through an intermediate package (HC11_unionAcrossTree; sibling modules sharing a partial element name are outside the class).",
 "C13": "Also: method handlers for every combination of holder kind (value/pointer parameter, local value, local pointer) and receiver kind, 1..2 controllers (HC13_methodReceivers).",
 "C14": "Form field names are any printable byte (no quote, no backslash) followed by a concrete suffix in the quick tier (the thorough tier, which has more form values and query parameters, keeps alphanumeric names: the bounds that ran clean in time); fmt.Sprintf formats containing symbolic bytes are modelled (each symbolic byte is '%' or a literal).",
 "C15": "Also: structs with 1..2 embedded components (value or pointer) over 4 base structs, generated functions executed with symbolic draws (HC15_execEmbedded).",
 "C16": "Also: type ( ... ) groups of 2..3 structs with a block-level comment (none, plain, SQL directive, QUERY directive) and per-struct comments, through the real parser: each table carries exactly the directives of its own declaration (HC16_groupedDeclarations).",
 "C17": "The packages planned for the engine's packages.Load model are built by the real parser and type checker (Syntax, Fset, Types); the catalogue includes generated files with a //line directive above or below the package clause.",
 "C18": "Also: real source files with 1..2 top-level alias declarations (10 aliased types, 3 names, position, grouped, used, chained) through NewAnalysisFromFile and the typescript, dart, randdata and gounions generators (HC18_*AliasDeclarations).",
 "C19": "Declaration contents may be empty (0..1 bytes).",
 "C20": "Also: two zero caches used one after the other in one process, the set of installed tools (symbolic) changing in between: the second cache behaves according to the tools present now (HC20_freshCache; sync.Once/OnceValue/OnceFunc are modelled as a lock around the first call).",
}

for p in props:
    pid = p["id"]
    if pid in CLAIMS:
        text, ref, extra = CLAIMS[pid]
        if pid in ROUND7:
            text = text + " " + ROUND7[pid]
        checks.append({
            "property_id": pid,
            "quick_cmd": "bin/vcheck run --property %s --tier quick" % pid,
            "thorough_cmd": "bin/vcheck run --property %s --tier thorough" % pid,
            "evidence_file": "/verif/evidence/%s.json" % pid,
            "replay_cmd_template": "bin/vcheck replay {path}",
            "engine": "vcheck",
            "level_claimed": {"category": "model_checking", "text": text, "design_ref": ref},
            "level_note": NOTE + (" " + extra if extra else ""),
            "technique": TECH,
        })
    else:
        na.append({"property_id": pid, "reason": NA.get(pid, PENDING)})

m = {
 "version": 1,
 "setup_cmd": "cd /verif/engine && GOFLAGS=-mod=mod GOPROXY=off GOSUMDB=off GOTOOLCHAIN=local go build -o /verif/bin/vcheck .",
 "hooks": {
  "guard": "verif",
  "enable": "no source hooks: harness files are injected in-package with go/packages overlays (engine) and go test -overlay (native replay); nothing to enable in /repo",
  "baseline_off_cmd": "/verif/scripts/baseline_off.sh",
  "source_commits": [],
  "add_only": True,
 },
 "engines": [{
  "name": "vcheck", "path": "/verif/engine",
  "serves_properties": sorted(CLAIMS),
  "kind_free_text": "forking symbolic interpreter over go/ssa of /repo's working tree (concrete structure, symbolic scalars/bytes), SMT-LIB2 QF_BV over a z3 pipe, contract stubs for library calls, go/types world as real host objects with sentinel-spliced symbolic strings",
 }],
 "checks": checks,
 "notes": "Solver-based checking only. Each check exits 1 only after the solver's counterexample reproduced natively against the real build; unsupported code / timeouts are printed as INCONCLUSIVE with exit 0 and recorded in the evidence. Fixes of genuine defects are 'fix:' commits in /repo listed in known_findings.json.",
 "not_applicable": na,
}
json.dump(m, open(os.path.join(V, "MANIFEST.json"), "w"), indent=1)
print("claimed:", sorted(CLAIMS), "n/a:", len(na))
