#!/usr/bin/env python3
"""save_seed.py <prop> <letter> <demo package dir> <detected_by> — copies a confirmed seeded change into /verif/seeded/<prop>-<letter>/"""
import sys, os, shutil, json, subprocess
prop, letter, pkgdir, detected = sys.argv[1:5]
src = os.environ.get("SEED_SRC") or "/tmp/seed/out_%s/%s" % (prop, letter)
if not os.path.isdir(src):
    src = "/tmp/seed/out2_%s/%s" % (prop, letter)
dst = "/verif/seeded/%s-%s" % (prop, letter)
os.makedirs(dst, exist_ok=True)
for f in ("patch.diff", "demo_test.go", "notes.md"):
    shutil.copy(os.path.join(src, f), os.path.join(dst, f))
notes = open(os.path.join(src, "notes.md")).read()
meta = {
  "property": prop,
  "seed": "%s-%s" % (prop, letter),
  "demo_package_dir": pkgdir,
  "needs_to_manifest": notes.strip().split("\n\n")[0][:1500],
  "confirmed_by": "scripts/confirm_seed.sh in a scratch worktree of /repo HEAD: patch applies, project builds, pinned suite (36 stable tests) passes with the change, demo_test.go passes without the change and fails with it",
  "checked_with": "scripts/try_seed.sh %s/patch.diff %s  (git -C /repo apply; bin/vcheck run --property %s --tier quick; git -C /repo checkout -- .)" % (dst, prop, prop),
  "detected_by": detected,
  "base_commit_of_repo": subprocess.check_output("git -C /repo log --format=%h -1", shell=True).decode().strip(),
}
json.dump(meta, open(os.path.join(dst, "meta.json"), "w"), indent=1)
print("saved", dst)
