#!/usr/bin/env python3
"""Rewrites the seeded-change table of DESIGN.md (between the SEEDS markers) from seeded/*/meta.json."""
import json, glob, os, re
V = os.path.dirname(os.path.dirname(os.path.abspath(__file__)))
rows = []
for d in sorted(x for x in glob.glob(os.path.join(V, "seeded", "*")) if os.path.isdir(x)):
    m = json.load(open(os.path.join(d, "meta.json")))
    notes = open(os.path.join(d, "notes.md")).read().strip().split("\n")
    title = next((l.strip("# ").strip() for l in notes if l.strip()), "")
    det = m["detected_by"]
    first = "missed" if det.startswith("initially MISSED") or det.startswith("MISSED") else ("inconclusive" if det.startswith("initially INCONCLUSIVE") or det.startswith("reported INCONCLUSIVE") else ("unconfirmed" if det.startswith("initially UNCONFIRMED") else "caught"))
    rows.append("| %s | %s | %s | %s |" % (m["seed"], title[:110].replace("|", "/"), first, det.replace("|", "/")[:260]))
table = "| seed | change (first line of its notes) | first run | detection |\n|---|---|---|---|\n" + "\n".join(rows)
p = os.path.join(V, "DESIGN.md")
s = open(p).read()
s2 = re.sub(r"<!-- SEEDS-BEGIN -->.*<!-- SEEDS-END -->", "<!-- SEEDS-BEGIN -->\n" + table + "\n<!-- SEEDS-END -->", s, flags=re.S)
open(p, "w").write(s2)
caught = sum(1 for r in rows if "| caught |" in r)
print(len(rows), "seeds;", caught, "caught at first run")
