#!/bin/bash
# usage: confirm_seed.sh <seed out dir (patch.diff, demo_test.go)> <package dir for the demo> [extra go test flags]
# Confirms in a scratch worktree: patch applies, project builds, pinned suite passes with it,
# the demonstration fails with the change and passes without it. Prints one summary line.
set -u
OUT=$1; PKG=$2; FLAGS=${3:-}
export GOFLAGS=-mod=mod GOPROXY=off GOTOOLCHAIN=local
WT=$(mktemp -d /tmp/confirm.XXXXXX)
git -C /repo worktree add -q --detach "$WT/wt" HEAD
cd "$WT/wt"
res=""
cp "$OUT/demo_test.go" "$PKG/zz_demo_test.go"
go test -vet=off -count=1 $FLAGS -run 'Demo|C[0-9][0-9]' ./$PKG > "$WT/demo_without.log" 2>&1 && res="$res demo_without=pass" || res="$res demo_without=FAIL"
git apply "$OUT/patch.diff" && res="$res apply=ok" || res="$res apply=FAIL"
go build ./analysis ./analysis/sql ./analysis/httpapi ./generator/... ./cmd > "$WT/build.log" 2>&1 && res="$res build=ok" || res="$res build=FAIL"
go test -vet=off -count=1 $FLAGS -run 'Demo|C[0-9][0-9]' ./$PKG > "$WT/demo_with.log" 2>&1 && res="$res demo_with=pass(BAD)" || res="$res demo_with=fail(expected)"
rm -f "$PKG/zz_demo_test.go"
go test -json -vet=off -count=1 -timeout 25m ./... > "$WT/suite.json" 2>/dev/null
suite=$(python3 - "$WT/suite.json" <<'PY'
import json,sys
passed=set()
for line in open(sys.argv[1]):
    try: e=json.loads(line)
    except Exception: continue
    if e.get('Test') and '/' not in e['Test'] and e['Action']=='pass': passed.add(e['Package']+'::'+e['Test'])
base=json.load(open('/root/.vp/BASELINE.json'))
missing=[t for t in base['stable_pass'] if t not in passed]
print("suite_missing=%d"%len(missing), ",".join(missing)[:200])
PY
)
echo "$(basename $(dirname $OUT))/$(basename $OUT):$res $suite"
cd /; git -C /repo worktree remove --force "$WT/wt"; rm -rf "$WT"
