#!/usr/bin/env python3
"""Rewrites the as-built bounds table of DESIGN.md (between the BOUNDS markers) from harness/registry.json."""
import json, os, re
V = os.path.dirname(os.path.dirname(os.path.abspath(__file__)))
reg = json.load(open(os.path.join(V, "harness", "registry.json")))
def tier(t):
    t = t or {}
    p = ", ".join("%s=%s" % (k.split(".", 1)[-1], v) for k, v in sorted((t.get("params") or {}).items()))
    x = []
    if t.get("max_paths"): x.append("paths≤%d" % t["max_paths"])
    if t.get("permute_single"): x.append("one map range at a time")
    return (p or "—") + ((" (" + "; ".join(x) + ")") if x else "")
rows = ["| %s | %s | %s | %s | %s |" % (h["property"], h["func"], h.get("bounds", "").replace("|", "/"), tier(h.get("quick")), tier(h.get("thorough")))
        for h in sorted(reg, key=lambda h: (h["property"], h["func"]))]
table = "| id | harness | what varies (bounds in words) | quick parameters | thorough parameters |\n|---|---|---|---|---|\n" + "\n".join(rows)
p = os.path.join(V, "DESIGN.md")
s = open(p).read()
s2 = re.sub(r"<!-- BOUNDS-BEGIN -->.*<!-- BOUNDS-END -->", lambda m: "<!-- BOUNDS-BEGIN -->\n" + table + "\n<!-- BOUNDS-END -->", s, flags=re.S)
open(p, "w").write(s2)
print(len(rows), "harnesses")
