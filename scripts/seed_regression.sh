#!/bin/bash
# Runs every kept seeded change against the quick check of its property and prints a matrix.
# Usage: scripts/seed_regression.sh [seed ...]   (default: all of /verif/seeded)
cd /verif
seeds="$@"
[ -z "$seeds" ] && seeds=$(ls -d seeded/*/ | xargs -n1 basename)
for s in $seeds; do
  prop=${s%%-*}
  res=$(scripts/try_seed.sh /verif/seeded/$s/patch.diff $prop | head -1)
  echo "$s $res"
done
