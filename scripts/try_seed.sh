#!/bin/bash
# usage: try_seed.sh <patch.diff> <property> [tier]  — applies a seeded change to /repo, runs the check, reverts.
P=$1; ID=$2; TIER=${3:-quick}
if [ -n "$(git -C /repo status --porcelain)" ]; then echo "/repo is dirty: commit or stash first"; exit 3; fi
git -C /repo apply "$P" || { echo "patch does not apply"; exit 2; }
cd /verif && timeout 1800 bin/vcheck run --property $ID --tier $TIER > /tmp/try_seed.log 2>&1
RC=$?
git -C /repo checkout -- .
echo "exit=$RC violations=$(grep -c '^VIOLATION' /tmp/try_seed.log) inconclusive=$(grep -c '^INCONCLUSIVE' /tmp/try_seed.log) unconfirmed=$(grep -c '^UNCONFIRMED' /tmp/try_seed.log)"
grep '^VIOLATION\|^  harness\|^INCONCLUSIVE\|^UNCONFIRMED' /tmp/try_seed.log | cut -c1-260 | head -6
