package generator

import (
	"go/constant"
	"go/types"

	"github.com/benoitkugler/gomacro/analysis"
	"golang.org/x/tools/go/packages"
)

// c18EnumAnalysis: a package declaring an enum E {A, B}, a struct S and a variable V.
func c18EnumAnalysis(stringBacked bool) *analysis.Analysis {
	pkg := types.NewPackage("example.com/mod/pkg", "pkg")
	var under types.Type = types.Typ[types.Int]
	if stringBacked {
		under = types.Typ[types.String]
	}
	en := types.NewNamed(types.NewTypeName(0, pkg, "E", nil), under, nil)
	mk := func(name string, i int64) analysis.EnumMember {
		var v constant.Value = constant.MakeInt64(i)
		if stringBacked {
			v = constant.MakeString("v" + name)
		}
		return analysis.EnumMember{Const: types.NewConst(0, pkg, name, en, v)}
	}
	enum := analysis.VfNewEnum(en, []analysis.EnumMember{mk("A", 3), mk("B", 4)}, false)
	sn := types.NewNamed(types.NewTypeName(0, pkg, "S", nil), types.NewStruct(nil, nil), nil)
	st := &analysis.Struct{Name: sn}
	pkg.Scope().Insert(en.Obj())
	pkg.Scope().Insert(sn.Obj())
	pkg.Scope().Insert(types.NewVar(0, pkg, "V", types.Typ[types.Int]))
	return &analysis.Analysis{
		Pkg:   &packages.Package{PkgPath: "example.com/mod/pkg", Types: pkg},
		Types: map[types.Type]analysis.Type{en: enum, sn: st},
	}
}

// HC18_replaceEnums: a #[Type.Const] placeholder is free text in a comment; whatever it names,
// the expansion must end with a diagnostic, not with a runtime error.
func HC18_replaceEnums() {
	ana := c18EnumAnalysis(vfChoice("stringBacked", 2) == 1)
	typeNames := []string{"E", "S", "V", "Nope"}
	constNames := []string{"A", "B", "Zed"}
	content := "DEFAULT #[" + typeNames[vfChoice("type", len(typeNames))] + "." + constNames[vfChoice("const", len(constNames))] + "] NOT NULL"
	var out string
	panicked, rt, msg := vfCatch(func() { out = ReplaceEnums(ana, content) })
	vfObserve("outcome", msg)
	vfObserve("out", out)
	vfAssert(!rt, "C18/enum-placeholder-naming-anything-no-runtime-error")
	_ = panicked
}
