package sql

import (
	"fmt"
	"go/constant"
	"go/types"
	"strings"

	an "github.com/benoitkugler/gomacro/analysis"
	gen "github.com/benoitkugler/gomacro/generator"
)

func c04FuncNames(text string) []string {
	var out []string
	const pre = "gomacro_validate_json_"
	from := 0
	for {
		i := strings.Index(text[from:], pre)
		if i < 0 {
			return out
		}
		p := from + i
		j := p + len(pre)
		for j < len(text) && (text[j] == '_' || (text[j] >= 'a' && text[j] <= 'z') || (text[j] >= 'A' && text[j] <= 'Z') || (text[j] >= '0' && text[j] <= '9')) {
			j++
		}
		out = append(out, text[p:j])
		from = j
	}
}

// HC04_closure: every validation function a body calls is defined, exactly once, in the script.
func HC04_closure() {
	w := newSkelWorld()
	ty := w.anyType("t", vfParam("C04.depth", 2))
	var decls []gen.Declaration
	panicked, _, _ := vfCatch(func() { decls = codeFor(ty, make(gen.Cache)) })
	if panicked {
		vfStop()
	}
	text := gen.WriteDeclarations(decls)
	defined := map[string]int{}
	for _, chunk := range strings.Split(text, "CREATE OR REPLACE FUNCTION ")[1:] {
		defined[c04FuncNames(chunk)[0]]++
	}
	ok := true
	for _, n := range defined {
		ok = ok && n == 1
	}
	vfAssert(ok, "C04/no-validation-function-defined-twice")
	ok = true
	for _, u := range c04FuncNames(text) {
		if defined[u] == 0 {
			vfObserve("undefined", u)
		}
		ok = ok && defined[u] > 0
	}
	vfAssert(ok, "C04/every-validation-function-called-is-defined")
	vfAssert(defined[functionName(ty)] == 1, "C04/the-validator-of-the-column-type-is-defined")
	vfObserve("defs", len(defined))
}

// HC04_arrays: nil slices and maps are accepted as null, fixed arrays have their length checked.
func HC04_arrays() {
	elem := []an.Type{an.Int, an.String}[vfChoice("elem", 2)]
	lens := []int{-1, 0, 1, 3}
	L := lens[vfChoice("len", len(lens))]
	ar := &an.Array{Elem: elem, Len: L}
	decls := codeForArray(ar, make(gen.Cache))
	text := skelSquash(decls[len(decls)-1].Content)
	nullGuard := skelHas(text, "IF jsonb_typeof(data) = 'null' THEN RETURN TRUE; END IF;")
	vfAssert(nullGuard == (L == -1), "C04/array-accepts-null-iff-it-is-a-slice")
	lengthCheck := skelHas(text, fmt.Sprint("AND jsonb_array_length(data) = ", L))
	vfAssert(lengthCheck == (L >= 0), "C04/fixed-array-length-is-checked")
	vfAssert(skelHas(text, "IF jsonb_typeof(data) != 'array' THEN RETURN FALSE; END IF;"), "C04/non-array-documents-are-rejected")
	vfAssert(skelHas(text, "bool_and( "+functionName(elem)+"(value) )"), "C04/array-elements-are-validated-by-the-element-validator")
	mp := &an.Map{Key: an.String, Elem: elem}
	mdecls := codeForMap(mp, make(gen.Cache))
	mtext := skelSquash(mdecls[len(mdecls)-1].Content)
	vfAssert(skelHas(mtext, "IF jsonb_typeof(data) = 'null' THEN") && skelHas(mtext, "jsonb_typeof(data) = 'object'") && skelHas(mtext, "bool_and( "+functionName(elem)+"(value) )"), "C04/map-accepts-null-objects-and-validates-values")
}

// HC04_enum: the enum validator accepts exactly the constant values.
func HC04_enum() {
	pkg := skelPkg()
	isInt := vfChoice("int", 2) == 1
	var under types.Type = types.Typ[types.String]
	if isInt {
		under = types.Typ[types.Int]
	}
	named := skelNamed(pkg, "E", under)
	n := 1 + vfChoice("n", 3)
	var members []an.EnumMember
	var lits []string
	for i := 0; i < n; i++ {
		var val constant.Value
		if isInt {
			v := vfChoice(fmt.Sprint("val", i), 4) - 1
			val = constant.MakeInt64(int64(v))
			lits = append(lits, fmt.Sprint(v))
		} else {
			s := "v" + vfString(fmt.Sprint("sval", i), 0, 1, "alnum")
			val = constant.MakeString(s)
			lits = append(lits, "'"+s+"'")
		}
		members = append(members, an.EnumMember{Const: types.NewConst(0, pkg, fmt.Sprint("C", i), named, val)})
	}
	text := skelSquash(codeForEnum(an.VfNewEnum(named, members, false)).Content)
	vfObserve("text", text)
	kind, cast := "string", "data#>>'{}'"
	if isInt {
		kind, cast = "number", "data::int"
	}
	vfAssert(skelHas(text, "jsonb_typeof(data) = '"+kind+"' AND "+cast+" IN ("+strings.Join(lits, ", ")+");"), "C04/enum-validator-lists-exactly-the-constant-values")
}

// HC04_struct: unknown keys are rejected, every exported field is validated under its JSON key.
func HC04_struct() {
	pkg := skelPkg()
	n := vfChoice("fields", 3)
	var fields []skelField
	var keys, checks []string
	for i := 0; i < n; i++ {
		f := skelField{name: vfString(fmt.Sprint("name", i), 1, 2, "ident"), typ: []an.Type{an.Int, an.String}[vfChoice(fmt.Sprint("type", i), 2)]}
		for _, o := range fields {
			vfAssume(o.name != f.name)
		}
		f.hasTag = vfChoice(fmt.Sprint("hasTag", i), 2) == 1
		if f.hasTag {
			f.tag = "k" + vfString(fmt.Sprint("tag", i), 0, 1, "alnum")
		}
		fields = append(fields, f)
		if vfFork(skelIncluded(f)) {
			key := f.name
			if f.hasTag {
				key = f.tag
			}
			keys = append(keys, "'"+key+"'")
			checks = append(checks, "AND "+functionName(f.typ)+"(data->'"+key+"')")
		}
	}
	st := skelStruct(pkg, skelNamed(pkg, "S", types.NewStruct(nil, nil)), fields)
	decls := codeForStruct(st, make(gen.Cache))
	text := skelSquash(decls[len(decls)-1].Content)
	vfObserve("text", text)
	if len(keys) == 0 {
		// no exported field: every key is unknown; the per-key condition must not be satisfiable
		vfAssert(!skelHas(text, "SELECT bool_and( TRUE ) FROM jsonb_each(data)"), "C04/unknown-object-keys-are-rejected")
	} else {
		vfAssert(skelHas(text, "SELECT bool_and( key IN ("+strings.Join(keys, ", ")+") ) FROM jsonb_each(data)"), "C04/unknown-object-keys-are-rejected")
	}
	vfAssert(skelHas(text, ") FROM jsonb_each(data)) "+strings.Join(checks, " ")+";"), "C04/every-exported-field-is-validated-under-its-json-key")
	vfAssert(skelHas(text, "IF jsonb_typeof(data) != 'object' THEN RETURN FALSE; END IF;"), "C04/non-object-documents-are-rejected")
}

// HC04_names: two different struct types never share one validation function.
func HC04_names() {
	p1n := vfString("pkg1", 1, vfParam("C04.pkg", 5), "lident")
	p2n := vfString("pkg2", 1, vfParam("C04.pkg", 5), "lident")
	p1 := types.NewPackage("example.com/a/"+p1n, p1n)
	p2 := types.NewPackage("example.com/b/"+p2n, p2n)
	s1 := skelStruct(p1, skelNamed(p1, "S", types.NewStruct(nil, nil)), []skelField{{name: "X", typ: an.Int}})
	s2 := skelStruct(p2, skelNamed(p2, "S", types.NewStruct(nil, nil)), []skelField{{name: "Y", typ: an.String}})
	pre := func(s string) string {
		if len(s) > 4 {
			return s[:4]
		}
		return s
	}
	vfKnown("C04/same-type-name-in-packages-sharing-a-4-letter-prefix", pre(p1n) == pre(p2n))
	vfAssert(functionName(s1) != functionName(s2), "C04/distinct-types-have-distinct-validators")
}

// HC04_checkPerColumn: in the assembled script every jsonb column of every table has its own
// CHECK constraint calling the validator (tables may share column names and column types).
func HC04_checkPerColumn() {
	c04CheckPerColumn("C04/every-jsonb-column-of-every-table-has-its-check-constraint")
}

// HC08_jsonbChecks: the same schema-level statement under C08 (jsonb columns carry a CHECK calling
// their validator, in every table).
func HC08_jsonbChecks() { c04CheckPerColumn("C08/jsonb-column-carries-a-check-calling-its-validator") }

func c04CheckPerColumn(clause string) {
	pkg := skelPkg()
	payload := skelStruct(pkg, skelNamed(pkg, "Payload", types.NewStruct(nil, nil)), []skelField{{name: "A", typ: an.Int}, {name: "S", typ: an.String}})
	other := &an.Map{Key: an.String, Elem: an.Int}
	colNames := []string{"Data", "Meta"}
	mkTable := func(tag, name string) (*an.Struct, []string) {
		var fields []skelField
		fields = append(fields, skelField{name: "Id", typ: &an.Basic{B: types.Typ[types.Int64]}})
		var cols []string
		n := 1 + vfChoice(tag+"cols", 2)
		for i := 0; i < n; i++ {
			var ty an.Type = payload
			if vfChoice(fmt.Sprint(tag, "type", i), 2) == 1 {
				ty = other
			}
			fields = append(fields, skelField{name: colNames[i], typ: ty})
			cols = append(cols, colNames[i])
		}
		return skelStruct(pkg, skelNamed(pkg, name, types.NewStruct(nil, nil)), fields), cols
	}
	t1, c1 := mkTable("t1.", "Alpha")
	t2, c2 := mkTable("t2.", "Beta")
	ana := &an.Analysis{Types: map[types.Type]an.Type{t1.Name: t1, t2.Name: t2}, Source: []types.Type{t1.Name, t2.Name}}
	text := skelSquash(gen.WriteDeclarations(Generate(ana)))
	ok := true
	for ti, cols := range [][]string{c1, c2} {
		table := []string{"alphas", "betas"}[ti]
		for _, c := range cols {
			n := skelCount(text, "ALTER TABLE "+table+" ADD CONSTRAINT "+c+"_gomacro CHECK (gomacro_validate_json_")
			if n != 1 {
				vfObserve("missing", table+"."+c)
			}
			ok = ok && n == 1
		}
	}
	vfAssert(ok, clause)
}
