package sql

import (
	"fmt"
	"strings"

	an "github.com/benoitkugler/gomacro/analysis"
	gen "github.com/benoitkugler/gomacro/generator"
)

// C04 by execution, on SEVERAL jsonb columns of one script: a table with two columns whose types are
// two different two-level arrays over one element type — each level a slice or a fixed array of length
// 2 or 3 ([][]T, [N][]T, [][N]T, [N][M]T) — is run through the real analysis and the SQL generator; the
// CHECK constraint of each column is read from the script, and the validation function it calls is
// evaluated (PL/pgSQL interpreter of h_exec.go) on the documents encoding/json emits for values of the
// column's Go type (nil / empty / populated at both levels: all must be admitted) and on documents that
// differ from an emitted one by one wrong JSON kind or one wrong fixed-array length at either level (all
// must be rejected). The oracle is the Go type of the column alone: a slice is null or an array of any
// length, a fixed array [N] is an array of exactly N elements and never null.

type c04jShape struct{ outer, inner int } // a length, or -1 for a slice

func c04jShapes() []c04jShape {
	lens := []int{-1, 2, 3}
	var out []c04jShape
	for _, o := range lens {
		for _, i := range lens {
			out = append(out, c04jShape{o, i})
		}
	}
	return out
}

func c04jArr(n int) string {
	if n < 0 {
		return "[]"
	}
	return fmt.Sprintf("[%d]", n)
}

func c04jRepeat(items []string, n int) []string {
	var out []string
	for i := 0; i < n; i++ {
		out = append(out, items[i%len(items)])
	}
	return out
}

func c04jList(items []string) string { return "[" + strings.Join(items, ", ") + "]" }

// c04jValues: Go expressions of values of the column type (elems: Go expressions of element values).
func c04jValues(s c04jShape, elem string, elems []string) []string {
	innerT := c04jArr(s.inner) + elem
	outerT := c04jArr(s.outer) + innerT
	var inners []string
	if s.inner < 0 {
		inners = []string{innerT + "{" + strings.Join(c04jRepeat(elems, 4), ", ") + "}", innerT + "(nil)", innerT + "{}", innerT + "{" + elems[0] + "}"}
	} else {
		inners = []string{innerT + "{" + strings.Join(c04jRepeat(elems, s.inner), ", ") + "}", innerT + "{}"}
	}
	if s.outer < 0 {
		return []string{
			outerT + "(nil)", outerT + "{}", outerT + "{" + inners[0] + "}",
			outerT + "{" + strings.Join(c04jRepeat(inners, 4), ", ") + "}", // a slice has any length: 4 is none of the fixed lengths
			outerT + "{" + strings.Join(c04jRepeat(inners[1:], 5), ", ") + "}",
		}
	}
	return []string{
		outerT + "{}", // zero value: nil inner slices are null
		outerT + "{" + strings.Join(c04jRepeat(inners, s.outer), ", ") + "}",
		outerT + "{" + strings.Join(c04jRepeat(inners[1:], s.outer), ", ") + "}",
	}
}

// c04jForeign: JSON documents that no value of the column type marshals to, each one difference away
// from a document of the type, with the clause of the property that rejects it.
func c04jForeign(s c04jShape, elem string) [][2]string {
	good, bad := "1", "\"x\""
	if elem == "string" {
		good, bad = "\"a\"", "1"
	}
	const kind, length = "C04/value-of-the-wrong-json-kind-is-rejected", "C04/wrong-fixed-array-length-is-rejected"
	vi, vo := s.inner, s.outer
	if vi < 0 {
		vi = 1
	}
	if vo < 0 {
		vo = 2
	}
	inner := func(n int) string { return c04jList(c04jRepeat([]string{good}, n)) }
	outer := func(n, pos int, odd string) string { // n valid inner documents, but the one at pos
		items := c04jRepeat([]string{inner(vi)}, n)
		if pos >= 0 {
			items[pos] = odd
		}
		return c04jList(items)
	}
	out := [][2]string{
		{"{}", kind}, {"3", kind}, {"\"x\"", kind}, {"true", kind},
		{outer(vo, 0, "{}"), kind}, {outer(vo, vo-1, "7"), kind},
		{outer(vo, 0, c04jList(append([]string{bad}, c04jRepeat([]string{good}, vi-1)...))), kind},
		{outer(vo, vo-1, c04jList(append(c04jRepeat([]string{good}, vi-1), bad))), kind},
	}
	if s.inner >= 0 {
		out = append(out, [][2]string{
			{outer(vo, 0, inner(s.inner+1)), length}, {outer(vo, vo-1, inner(s.inner-1)), length},
			{outer(vo, vo-1, "[]"), length}, {outer(vo, 0, "null"), kind},
		}...)
	}
	if s.outer >= 0 {
		out = append(out, [][2]string{
			{outer(s.outer+1, -1, ""), length}, {outer(s.outer-1, -1, ""), length}, {"[]", length}, {"null", kind},
		}...)
	}
	return out
}

// c04jCheckOf reads `ADD CONSTRAINT <col>_gomacro CHECK (<fn>(<col>))` of the script.
func c04jCheckOf(script, col string) string {
	pre := "CONSTRAINT " + col + "_gomacro CHECK ("
	i := strings.Index(script, pre)
	if i < 0 {
		return ""
	}
	rest := script[i+len(pre):]
	j := strings.Index(rest, "(")
	if j < 0 {
		return ""
	}
	return strings.TrimSpace(rest[:j])
}

const c04jCheckHead = `package p

import "encoding/json"

func emitted(funcs map[string]*pgFunc, fn, tag string, v any) {
	doc, err := json.Marshal(v)
	vfAssert(err == nil, "C04/marshalling-succeeds")
	if err != nil {
		return
	}
	vfObserve("wire."+tag, string(doc))
	vfAssert(!pgCheck(funcs, fn, doc), "C04/documents-go-emits-are-admitted")
}

func column(funcs map[string]*pgFunc, fn string) bool {
	_, defined := funcs[fn]
	vfAssert(fn != "" && defined, "C04/the-validator-the-check-calls-is-defined")
	return defined
}

`

// HC04_execColumns: two jsonb columns of nested array types in one script: each CHECK admits what Go
// emits for its own column type and rejects wrong kinds and wrong fixed lengths (evaluated).
func HC04_execColumns() {
	shapes := c04jShapes()
	var pairs [][2]c04jShape
	for i := range shapes {
		for j := range shapes {
			if i != j { // both orders: which of two declarations survives a deduplication depends on it
				pairs = append(pairs, [2]c04jShape{shapes[i], shapes[j]})
			}
		}
	}
	if vfParam("C04.orders", 2) < 2 {
		var half [][2]c04jShape
		for k, p := range pairs {
			if k%2 == 0 {
				half = append(half, p)
			}
		}
		pairs = half
	}
	elemTypes := []string{"int", "string"}[:vfParam("C04.elems", 2)]
	elem := elemTypes[vfChoice("elem", len(elemTypes))]
	pair := pairs[vfChoice("columns", len(pairs))]
	cols := []string{"Rows", "Cells"}
	table := "package p\n\ntype Grid struct {\n\tId int64\n"
	for k, s := range pair {
		table += "\t" + cols[k] + " " + c04jArr(s.outer) + c04jArr(s.inner) + elem + "\n"
	}
	table += "}\n"
	vfObserve("table", table)
	pkg := vfTypeCheck("example.com/mod/p", []string{"/m/p/p.go"}, []string{table}, nil)
	var sqlText string
	panicked, _, msg := vfCatch(func() {
		ana := an.NewAnalysisFromFile(pkg, "/m/p/p.go")
		sqlText = gen.WriteDeclarations(Generate(ana))
	})
	vfObserve("generation", msg)
	vfAssert(!panicked, "C04/catalogue-is-accepted-by-the-generators")
	if panicked {
		vfStop()
	}
	elems := []string{"e0", "e1", "e2"}
	check := c04jCheckHead + "func Check() {\n\tfuncs := pgParse(sqlText)\n"
	if elem == "int" {
		check += "\te0, e1, e2 := int(vfInt(\"e0\", 0, 9)), int(vfInt(\"e1\", 0, 9)), 0\n"
	} else {
		check += "\te0, e1, e2 := vfString(\"e0\", 1, 1, \"alnum\"), \"\", \"zz\"\n"
	}
	check += "\t_, _, _ = e0, e1, e2\n"
	for k, s := range pair {
		fn := c04jCheckOf(sqlText, cols[k])
		vfObserve("check."+cols[k], fn)
		check += fmt.Sprintf("\tif fn := %q; column(funcs, fn) {\n", fn)
		for n, v := range c04jValues(s, elem, elems) {
			check += fmt.Sprintf("\t\temitted(funcs, fn, \"%s.%d\", %s)\n", cols[k], n, v)
		}
		for _, f := range c04jForeign(s, elem) {
			check += fmt.Sprintf("\t\tvfAssert(pgCheck(funcs, fn, json.RawMessage(%q)), %q)\n", f[0], f[1])
		}
		check += "\t}\n"
	}
	check += "}\n"
	text := "package p\n\nconst sqlText = " + fmt.Sprintf("%q", sqlText) + "\n"
	errs := vfExec("example.com/mod/p", []string{"/m/p/p.go", "/m/p/sql.go", "/m/p/eval.go", "/m/p/check.go"},
		[]string{table, text, c04Evaluator, check}, nil, "Check")
	if len(errs) > 0 {
		vfObserve("error", errs[0])
	}
	vfAssert(len(errs) == 0, "C04/checking-package-compiles")
}
