package sql

import (
	"fmt"
	"go/constant"
	"go/types"
	"strings"

	an "github.com/benoitkugler/gomacro/analysis"
	"github.com/benoitkugler/gomacro/analysis/sql"
	gen "github.com/benoitkugler/gomacro/generator"
)

type c08Type struct {
	ty       an.Type
	sqlType  string // expected SQL type text
	notNull  bool
	check    string // expected fragment of the CHECK ("" = no CHECK in the column definition)
	jsonb    bool
	describe string
}

func c08BasicSQL(k types.BasicKind) string {
	switch k {
	case types.Bool:
		return "boolean"
	case types.Int16, types.Uint8:
		return "smallint"
	case types.Float32, types.Float64:
		return "real"
	case types.String:
		return "text"
	}
	return "integer"
}

var c08Kinds = []types.BasicKind{types.Bool, types.Int, types.Int8, types.Int16, types.Int32, types.Int64, types.Uint8,
	types.Uint16, types.Uint32, types.Uint64, types.Float32, types.Float64, types.String}

func c08Enum(pkg *types.Package, name string, isInt bool) *an.Enum {
	var under types.Type = types.Typ[types.String]
	if isInt {
		under = types.Typ[types.Int16]
	}
	named := skelNamed(pkg, name, under)
	var ms []an.EnumMember
	for i := 0; i < 2; i++ {
		var v constant.Value = constant.MakeInt64(int64(i + 3))
		if !isInt {
			v = constant.MakeString(fmt.Sprint("v", i))
		}
		ms = append(ms, an.EnumMember{Const: types.NewConst(0, pkg, fmt.Sprint(name, i), named, v)})
	}
	return an.VfNewEnum(named, ms, false)
}

// c08Catalogue: the Go types of the documented Go-to-SQL mapping, with the expected image.
func c08Catalogue(pkg *types.Package, col string) []c08Type {
	var out []c08Type
	for _, k := range c08Kinds {
		out = append(out, c08Type{ty: &an.Basic{B: types.Typ[k]}, sqlType: c08BasicSQL(k), notNull: true})
	}
	out = append(out,
		c08Type{ty: an.VfTime(false), sqlType: "timestamp (0) with time zone", notNull: true},
		c08Type{ty: an.VfTime(true), sqlType: "date", notNull: true},
		c08Type{ty: &an.Array{Elem: &an.Basic{B: types.Typ[types.Byte]}, Len: -1}, sqlType: "bytea", notNull: true},
		c08Type{ty: &an.Array{Elem: an.Int, Len: -1}, sqlType: "integer[]", notNull: false},
		c08Type{ty: &an.Array{Elem: an.String, Len: 3}, sqlType: "text[]", notNull: true, check: "array_length(" + col + ", 1) = 3"},
		c08Type{ty: &an.Array{Elem: c08Enum(pkg, "EI", true), Len: -1}, sqlType: "smallint[]", notNull: false},
		c08Type{ty: &an.Array{Elem: c08Enum(pkg, "ES", false), Len: -1}, sqlType: "jsonb", notNull: true, jsonb: true},
		c08Type{ty: c08Enum(pkg, "EI", true), sqlType: "smallint", notNull: true, check: col + " IN (3, 4)"},
		c08Type{ty: c08Enum(pkg, "ES", false), sqlType: "text", notNull: true, check: col + " IN ('v0', 'v1')"},
		c08Type{ty: &an.Map{Key: an.String, Elem: an.Int}, sqlType: "jsonb", notNull: true, jsonb: true},
		c08Type{ty: an.VfNewUnion(skelNamed(pkg, "U", types.NewInterfaceType(nil, nil)), nil), sqlType: "jsonb", notNull: true, jsonb: true},
	)
	// struct of integers only: composite type; mixed struct: jsonb
	comp := skelStruct(pkg, skelNamed(pkg, "Comp", types.NewStruct(nil, nil)), []skelField{{name: "A", typ: an.Int}, {name: "B", typ: c08Enum(pkg, "EI", true)}})
	mixed := skelStruct(pkg, skelNamed(pkg, "Mixed", types.NewStruct(nil, nil)), []skelField{{name: "A", typ: an.Int}, {name: "S", typ: an.String}})
	hidden := skelStruct(pkg, skelNamed(pkg, "Hidden", types.NewStruct(nil, nil)), []skelField{{name: "X", typ: an.Int}, {name: "Y", typ: an.Int}, {name: "label", typ: an.String}})
	ignored := skelStruct(pkg, skelNamed(pkg, "Ignored", types.NewStruct(nil, nil)), []skelField{{name: "X", typ: an.Int}, {name: "Note", typ: an.String, hasTag: true, tag: "-"}})
	out = append(out,
		c08Type{ty: comp, sqlType: "Comp", notNull: true},
		c08Type{ty: mixed, sqlType: "jsonb", notNull: true, jsonb: true},
		// all-integer *exported* fields next to a hidden non-integer field: not a composite
		c08Type{ty: hidden, sqlType: "jsonb", notNull: true, jsonb: true},
		c08Type{ty: ignored, sqlType: "jsonb", notNull: true, jsonb: true},
	)
	// nullable wrappers in both field orders
	for order := 0; order < 2; order++ {
		valid := types.NewField(0, pkg, "Valid", types.Typ[types.Bool], false)
		data := types.NewField(0, pkg, "Int64", types.Typ[types.Int64], false)
		vars := []*types.Var{valid, data}
		if order == 1 {
			vars = []*types.Var{data, valid}
		}
		nn := skelNamed(pkg, fmt.Sprint("NullInt", order), types.NewStruct(vars, nil))
		st := &an.Struct{Name: nn}
		for _, v := range vars {
			var ft an.Type = &an.Basic{B: v.Type().(*types.Basic)}
			st.Fields = append(st.Fields, an.StructField{Type: ft, Field: v})
		}
		out = append(out, c08Type{ty: st, sqlType: "integer", notNull: false})
	}
	// named over a basic / a slice
	out = append(out,
		c08Type{ty: an.VfNewNamed(skelNamed(pkg, "Price", types.Typ[types.Float64]), an.Float), sqlType: "real", notNull: true},
		c08Type{ty: an.VfNewNamed(skelNamed(pkg, "Tags", types.NewSlice(types.Typ[types.String])), &an.Array{Elem: an.String, Len: -1}), sqlType: "text[]", notNull: false},
	)
	return out
}

// HC08_columns: one column per exported or guard field, in field order, with the documented SQL
// type, nullability and CHECK; the id field is a serial primary key; the table is named by the
// snake-case-plural convention.
func HC08_columns() {
	pkg := skelPkg()
	tname := []string{"Item", "ItemLink", "HTTPRoute"}[vfChoice("table", 3)]
	named := skelNamed(pkg, tname, types.NewStruct(nil, nil))
	nf := 1 + vfChoice("fields", vfParam("C08.fields", 2))
	var fields []skelField
	var expect []*c08Type // nil = no column
	for i := 0; i < nf; i++ {
		name := vfString(fmt.Sprint("name", i), 1, vfParam("C08.name", 2), "ident")
		for _, f := range fields {
			vfAssume(f.name != name)
		}
		cat := c08Catalogue(pkg, name)
		c := cat[vfChoice(fmt.Sprint("type", i), len(cat))]
		f := skelField{name: name, typ: c.ty}
		guard := vfChoice(fmt.Sprint("guard", i), 3) == 1
		if guard {
			f.extra = ` gomacro-sql-guard:"7"`
		}
		fields = append(fields, f)
		exported := vfFork(vfAnd(name[0] >= 'A', name[0] <= 'Z'))
		if exported || guard {
			cc := c
			expect = append(expect, &cc)
		} else {
			expect = append(expect, nil)
		}
	}
	st := skelStruct(pkg, named, fields)
	ta := sql.NewTable(st)
	var decls []gen.Declaration
	panicked, rt, msg := vfCatch(func() { decls = generateTable(ta) })
	vfObserve("outcome", msg)
	vfAssert(!panicked && !rt, "C08/table-generation-completes")
	if panicked {
		return
	}
	create := decls[len(decls)-1].Content
	vfObserve("create", create)
	wantTable := map[string]string{"Item": "items", "ItemLink": "item_links", "HTTPRoute": "http_routes"}[tname]
	vfAssert(strings.Contains(create, "CREATE TABLE "+wantTable+" ("), "C08/table-named-snake-case-plural")

	// the column definitions, in order: the lines between "(" and ");"
	open := strings.Index(create, "(\n")
	body := create[open+2:]
	body = body[:strings.LastIndex(body, ");")]
	lines := strings.Split(strings.TrimRight(body, "\n\t "), ",\n")
	var wantCols []int
	for i, e := range expect {
		if e != nil {
			wantCols = append(wantCols, i)
		}
	}
	vfAssert(len(lines) == len(wantCols) || (len(wantCols) == 0 && len(lines) == 1), "C08/one-column-per-exported-or-guard-field")
	if len(lines) != len(wantCols) {
		return
	}
	primary := -1
	for _, i := range wantCols {
		if primary < 0 && vfFork(c05LowerEqID(fields[i].name)) {
			primary = i
		}
	}
	for k, i := range wantCols {
		line := strings.TrimLeft(lines[k], "\t ")
		e := expect[i]
		name := fields[i].name
		if i == primary {
			vfAssert(line == name+" serial PRIMARY KEY", "C08/id-field-is-a-serial-primary-key")
			continue
		}
		head := name + " " + e.sqlType
		ok := strings.HasPrefix(line, head)
		rest := ""
		if ok {
			rest = line[len(head):]
		}
		vfAssert(ok && (rest == "" || rest[0] == ' '), "C08/column-has-the-documented-sql-type-in-field-order")
		vfAssert(strings.Contains(rest, "NOT NULL") == e.notNull, "C08/not-null-unless-nullable-wrapper-or-variable-length-array")
		if e.check == "" {
			vfAssert(!strings.Contains(rest, "CHECK"), "C08/no-check-on-plain-columns")
		} else {
			vfAssert(strings.Contains(rest, "CHECK ("+e.check+")"), "C08/enum-and-fixed-array-columns-carry-their-check")
		}
		if e.jsonb {
			found := false
			for _, d := range decls {
				if strings.Contains(d.Content, "ADD CONSTRAINT "+name+"_gomacro CHECK (gomacro_validate_json_") && strings.Contains(d.Content, "("+name+"));") {
					found = true
				}
			}
			vfAssert(found, "C08/jsonb-column-carries-a-check-calling-its-validator")
		}
	}
}

func c05LowerEqID(s string) bool {
	if len(s) != 2 {
		return false
	}
	return vfAnd(vfOr(s[0] == 'i', s[0] == 'I'), vfOr(s[1] == 'd', s[1] == 'D'))
}

func c08LowerByte(c byte) byte {
	if vfAnd(c >= 'A', c <= 'Z') {
		return c + 32
	}
	return c
}

// c08IDTarget: the table named by an ID type: the name minus an "id" affix (any case), when
// something remains.
func c08IDTarget(name string) string {
	n := len(name)
	if n <= 2 {
		return ""
	}
	if vfFork(vfAnd(c08LowerByte(name[0]) == 'i', c08LowerByte(name[1]) == 'd')) {
		return name[2:]
	}
	if vfFork(vfAnd(c08LowerByte(name[n-2]) == 'i', c08LowerByte(name[n-1]) == 'd')) {
		return name[:n-2]
	}
	return ""
}

// HC08_foreignKeys: every foreign-key field gets exactly one FOREIGN KEY constraint to the table
// named by its ID type or by its tag, with the tagged ON DELETE action; other fields get none.
func HC08_foreignKeys() {
	pkg := skelPkg()
	named := skelNamed(pkg, "It", types.NewStruct(nil, nil)) // a short table name: the symbolic ID type / tag can name the table itself
	typeName := vfString("idtype", 1, vfParam("C08.idtype", 4), "Ident")
	isInt64 := vfChoice("int64", 2) == 1
	under := types.Typ[types.Int64]
	if !isInt64 {
		under = types.Typ[types.Int32]
	}
	ft := an.VfNewNamed(skelNamed(pkg, typeName, under), &an.Basic{B: under})
	f := skelField{name: "Ref", typ: ft}
	tagged := vfChoice("tag", 2) == 1
	tagTarget := ""
	if tagged {
		tagTarget = vfString("tagtarget", 1, 2, "Ident")
		f.extra += ` gomacro-sql-foreign:"` + tagTarget + `"`
	}
	onDelete := []string{"", "CASCADE", "SET NULL"}[vfChoice("ondelete", 3)]
	if onDelete != "" {
		f.extra += ` gomacro-sql-on-delete:"` + onDelete + `"`
	}
	st := skelStruct(pkg, named, []skelField{{name: "Id", typ: &an.Basic{B: types.Typ[types.Int64]}}, f, {name: "Name", typ: an.String}})
	ana := &an.Analysis{Types: map[types.Type]an.Type{named: st}, Source: []types.Type{named}}

	// reference
	want := ""
	if isInt64 {
		if t := c08IDTarget(typeName); t != "" && vfFork(t != "It") {
			want = t
		}
	}
	if want == "" && tagged {
		if !isInt64 {
			want = "<refused>" // a foreign key must be an int64: explicit diagnostic
		} else {
			want = tagTarget
		}
	}
	var decls []gen.Declaration
	panicked, rt, msg := vfCatch(func() { decls = Generate(ana) })
	vfObserve("outcome", msg)
	vfAssert(!rt, "C08/foreign-key-analysis-no-runtime-error")
	if want == "<refused>" {
		vfAssert(panicked, "C08/foreign-key-tag-on-a-non-int64-field-is-refused")
		return
	}
	vfAssert(!panicked, "C08/schema-generation-completes")
	if panicked {
		return
	}
	text := skelDeclsText(decls)
	vfObserve("text", text)
	count := strings.Count(text, "FOREIGN KEY")
	if want == "" {
		vfAssert(count == 0, "C08/no-foreign-key-constraint-on-other-fields")
		return
	}
	vfAssert(count == 1, "C08/exactly-one-foreign-key-constraint-per-foreign-key-field")
	head := "ALTER TABLE its ADD FOREIGN KEY(Ref) REFERENCES " + gen.SQLTableName(sql.TableName(want))
	i := strings.Index(text, head)
	vfAssert(i >= 0, "C08/foreign-key-references-the-table-named-by-the-id-type-or-tag")
	if i < 0 {
		return
	}
	rest := text[i+len(head):]
	rest = rest[:strings.Index(rest, ";")]
	if onDelete == "" {
		vfAssert(strings.TrimSpace(rest) == "", "C08/no-on-delete-action-unless-tagged")
	} else {
		vfAssert(strings.TrimSpace(rest) == "ON DELETE "+onDelete, "C08/on-delete-action-is-the-tagged-one")
	}
}

// HC08_guards: a guard field carries a default and an equality CHECK with the same value.
func HC08_guards() {
	pkg := skelPkg()
	named := skelNamed(pkg, "Item", types.NewStruct(nil, nil))
	val := vfString("value", 1, vfParam("C08.guard", 2), "alnum")
	name := vfString("name", 1, 2, "ident")
	st := skelStruct(pkg, named, []skelField{{name: "Id", typ: &an.Basic{B: types.Typ[types.Int64]}},
		{name: name, typ: an.Int, extra: ` gomacro-sql-guard:"` + val + `"`}})
	ana := &an.Analysis{Types: map[types.Type]an.Type{named: st}, Source: []types.Type{named}}
	text := skelDeclsText(Generate(ana))
	vfObserve("text", text)
	vfAssert(strings.Contains(text, "ALTER TABLE items ALTER COLUMN "+name+" SET DEFAULT "+val+";"), "C08/guard-field-has-a-default")
	vfAssert(strings.Contains(text, "ALTER TABLE items ADD CHECK("+name+" = "+val+");"), "C08/guard-field-has-an-equality-check-with-the-same-value")
}

// HC08_nullableWrappers: a column whose type is a nullable wrapper (struct {Valid bool; <data>}, both
// field orders) has the SQL type of its data field — user-defined date and time types included — and
// is nullable.
func HC08_nullableWrappers() {
	pkg := skelPkg()
	var data types.Type
	var dataAn an.Type
	var want string
	switch vfChoice("data", 8) {
	case 0:
		data, dataAn, want = types.Typ[types.Int64], &an.Basic{B: types.Typ[types.Int64]}, "integer"
	case 1:
		data, dataAn, want = types.Typ[types.String], an.String, "text"
	case 2:
		data, dataAn, want = types.Typ[types.Bool], an.Bool, "boolean"
	case 3:
		data, dataAn, want = types.Typ[types.Float64], an.Float, "real"
	case 4:
		data, dataAn, want = c18TimeNamed("time", "time", "Time"), an.VfTime(false), "timestamp (0) with time zone"
	case 5: // user-defined date: the name decides (any case)
		name := []string{"MyDate", "DATE", "Birthdate"}[vfChoice("dateName", 3)]
		n := c18TimeNamed(pkg.Path(), pkg.Name(), name)
		data, dataAn, want = n, an.VfNewNamed(n, an.VfTime(true)), "date"
	case 6: // user-defined time
		n := c18TimeNamed(pkg.Path(), pkg.Name(), "Stamp")
		data, dataAn, want = n, an.VfNewNamed(n, an.VfTime(false)), "timestamp (0) with time zone"
	default:
		n := skelNamed(pkg, "IdOther", types.Typ[types.Int64])
		data, dataAn, want = n, an.VfNewNamed(n, &an.Basic{B: types.Typ[types.Int64]}), "integer"
	}
	valid := types.NewField(0, pkg, "Valid", types.Typ[types.Bool], false)
	df := types.NewField(0, pkg, "Data", data, false)
	vars := []*types.Var{valid, df}
	ans := []an.Type{an.Bool, dataAn}
	if vfChoice("order", 2) == 1 {
		vars, ans = []*types.Var{df, valid}, []an.Type{dataAn, an.Bool}
	}
	wn := skelNamed(pkg, "NullData", types.NewStruct(vars, nil))
	wrapper := &an.Struct{Name: wn}
	for i, v := range vars {
		wrapper.Fields = append(wrapper.Fields, an.StructField{Type: ans[i], Field: v})
	}
	named := skelNamed(pkg, "Tbl", types.NewStruct(nil, nil))
	st := skelStruct(pkg, named, []skelField{{name: "Id", typ: &an.Basic{B: types.Typ[types.Int64]}}, {name: "Col", typ: wrapper}})
	var decls []gen.Declaration
	panicked, _, msg := vfCatch(func() { decls = generateTable(sql.NewTable(st)) })
	vfObserve("outcome", msg)
	vfAssert(!panicked, "C08/table-generation-completes")
	if panicked {
		return
	}
	create := decls[len(decls)-1].Content
	i := strings.Index(create, "Col ")
	vfAssert(i >= 0, "C08/one-column-per-exported-or-guard-field")
	if i < 0 {
		return
	}
	line := create[i:]
	if nl := strings.Index(line, "\n"); nl >= 0 {
		line = line[:nl]
	}
	line = strings.TrimSuffix(strings.TrimSpace(line), ",")
	vfObserve("column", line)
	vfAssert(line == "Col "+want || strings.HasPrefix(line, "Col "+want+" "), "C08/nullable-wrapper-column-has-the-sql-type-of-its-data")
	vfAssert(!strings.Contains(line, "NOT NULL"), "C08/not-null-unless-nullable-wrapper-or-variable-length-array")
}

// HC08_primaryPosition: the id field is the serial primary key wherever it stands among exported,
// unexported and unexported-guard fields; every other column keeps its place and its type.
func HC08_primaryPosition() {
	pkg := skelPkg()
	n := 2 + vfChoice("fields", 3)
	idAt := vfChoice("idAt", n)
	idName := []string{"Id", "ID", "id"}[vfChoice("idName", 3)]
	var fields []skelField
	var want []string // the expected column definitions, in order
	for i := 0; i < n; i++ {
		if i == idAt {
			fields = append(fields, skelField{name: idName, typ: &an.Basic{B: types.Typ[types.Int64]}})
			if idName != "id" {
				want = append(want, idName+" serial PRIMARY KEY")
			}
			continue
		}
		kind := vfChoice(fmt.Sprint("kind", i), 4) // exported int, exported string, unexported, unexported guard
		switch kind {
		case 0:
			fields = append(fields, skelField{name: fmt.Sprint("F", i), typ: an.Int})
			want = append(want, fmt.Sprint("F", i, " integer NOT NULL"))
		case 1:
			fields = append(fields, skelField{name: fmt.Sprint("F", i), typ: an.String})
			want = append(want, fmt.Sprint("F", i, " text NOT NULL"))
		case 2:
			fields = append(fields, skelField{name: fmt.Sprint("f", i), typ: an.Int})
		default:
			fields = append(fields, skelField{name: fmt.Sprint("g", i), typ: an.Int, extra: ` gomacro-sql-guard:"7"`})
			want = append(want, fmt.Sprint("g", i, " integer NOT NULL"))
		}
	}
	st := skelStruct(pkg, skelNamed(pkg, "Item", types.NewStruct(nil, nil)), fields)
	var decls []gen.Declaration
	panicked, _, msg := vfCatch(func() { decls = generateTable(sql.NewTable(st)) })
	vfObserve("outcome", msg)
	vfAssert(!panicked, "C08/table-generation-completes")
	if panicked {
		return
	}
	create := decls[len(decls)-1].Content
	open := strings.Index(create, "(\n")
	body := create[open+2:]
	body = body[:strings.LastIndex(body, ");")]
	var lines []string
	for _, l := range strings.Split(strings.TrimRight(body, "\n\t "), ",\n") {
		if l = strings.TrimSpace(l); l != "" {
			lines = append(lines, l)
		}
	}
	vfObserve("columns", lines)
	ok := len(lines) == len(want)
	if ok {
		for i := range want {
			ok = ok && (lines[i] == want[i] || strings.HasPrefix(lines[i], want[i]+" "))
		}
	}
	vfAssert(ok, "C08/id-field-is-the-serial-primary-key-and-the-other-columns-keep-their-place")
}
