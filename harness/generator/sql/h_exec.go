package sql

import (
	"fmt"
	"strings"

	an "github.com/benoitkugler/gomacro/analysis"
	gen "github.com/benoitkugler/gomacro/generator"
	"github.com/benoitkugler/gomacro/generator/go/gounions"
)

// C04 by execution: a value of the jsonb column's type (symbolic scalars) is marshalled by the real
// generated union wrappers under the encoding/json model, and the CHECK of the column — the
// validation functions of the generated SQL script — is evaluated on the document by an interpreter
// of the PL/pgSQL subset the generator emits (three-valued logic, jsonb operators, bool_and over
// jsonb_each / jsonb_array_elements), carried by the checking file. Documents Go emits must not be
// rejected; documents that differ by an unknown key, a wrong kind, an unknown Kind, a non-member
// enum value or a wrong fixed-array length must be rejected (FALSE or an error, never NULL: a CHECK
// passes on NULL).

const c04Decls = `package p

import "time"

type Level int

const (
	Low Level = iota + 1
	mid
	High
)

type Mode string

const (
	On   Mode = "on!"
	Auto Mode = "aut"
)

// an iota enum whose unexported constant lies outside the sequence of the exported ones
type Rank int

const (
	R0 Rank = iota
	R1
	legacy Rank = 7
)

type Shape interface{ isShape() }

type Circle struct {
	R int
	L Level
}

func (Circle) isShape() {}

type Tags []string

func (Tags) isShape() {}

type Pair [2]int

type Inner struct {
	Flag bool
	Sub  []Inner
}

type Payload struct {
	Name   string ` + "`json:\"name\"`" + `
	N      int
	Lvl    Level
	Mode   Mode
	Rk     Rank
	First  Circle
	S      Shape ` + "`json:\"shape\"`" + `
	LL     [][]int
	Ls     []Level
	P      Pair
	M      map[string]int
	In     Inner
	At     time.Time
	hidden int
	Skip   int ` + "`json:\"-\"`" + `
}

`

// the analysed file declares the table only: the types of its jsonb column live in another file of the
// package, so that they are not tables themselves (each table column gets its own validator declarations)
const c04Table = `package p

type Doc struct {
	Id int64
	P  Payload
}
`

const c04Evaluator = `package p

import (
	"encoding/json"
	"strconv"
)

// ---- values (SQL three-valued logic: a boolean carries its own null flag, possibly symbolic)

type pgVal struct {
	kind string // "null", "bool", "int", "text", "jsonb"
	null bool   // bool only
	b    bool
	n    int
	s    string
	raw  json.RawMessage
}

var pgNull = pgVal{kind: "null"}

func pgBool(b bool) pgVal { return pgVal{kind: "bool", b: b} }

func pgAsBool(v pgVal) pgVal {
	if v.kind == "bool" {
		return v
	}
	return pgVal{kind: "bool", null: true}
}

func pgIsFalse(v pgVal) bool { return vfAnd(!v.null, !v.b) }
func pgIsTrue(v pgVal) bool  { return vfAnd(!v.null, v.b) }

func pgAnd(x, y pgVal) pgVal {
	x, y = pgAsBool(x), pgAsBool(y)
	isFalse := vfOr(pgIsFalse(x), pgIsFalse(y))
	isNull := vfAnd(!isFalse, vfOr(x.null, y.null))
	return pgVal{kind: "bool", null: isNull, b: vfAnd(!isFalse, !isNull)}
}

func pgOr(x, y pgVal) pgVal {
	x, y = pgAsBool(x), pgAsBool(y)
	isTrue := vfOr(pgIsTrue(x), pgIsTrue(y))
	isNull := vfAnd(!isTrue, vfOr(x.null, y.null))
	return pgVal{kind: "bool", null: isNull, b: isTrue}
}

func pgNot(x pgVal) pgVal {
	x = pgAsBool(x)
	return pgVal{kind: "bool", null: x.null, b: vfAnd(!x.null, !x.b)}
}

func pgEq(x, y pgVal) pgVal {
	if x.kind == "null" || y.kind == "null" {
		return pgVal{kind: "bool", null: true}
	}
	if x.kind == "bool" && y.kind == "bool" {
		return pgVal{kind: "bool", null: vfOr(x.null, y.null), b: vfAnd(vfAnd(!x.null, !y.null), x.b == y.b)}
	}
	if x.kind != y.kind {
		pgFail("comparison of " + x.kind + " with " + y.kind)
		return pgVal{kind: "bool", null: true}
	}
	switch x.kind {
	case "int":
		return pgBool(x.n == y.n)
	case "text":
		return pgBool(x.s == y.s)
	}
	return pgBool(string(x.raw) == string(y.raw))
}

// evaluation errors (a cast that PostgreSQL refuses...): the statement fails, the row is rejected
var pgError string

func pgFail(msg string) {
	if pgError == "" {
		pgError = msg
	}
}

// ---- tokens

func pgWordByte(c byte) bool {
	return c == '_' || (c >= 'a' && c <= 'z') || (c >= 'A' && c <= 'Z') || (c >= '0' && c <= '9')
}

func pgTokens(s string) []string {
	var out []string
	i := 0
	for i < len(s) {
		c := s[i]
		switch {
		case c == ' ' || c == '\n' || c == '\t' || c == '\r':
			i++
		case c == '-' && i+1 < len(s) && s[i+1] == '-' && !(i+2 < len(s) && s[i+2] == '>'):
			for i < len(s) && s[i] != '\n' {
				i++
			}
		case c == '\'':
			j := i + 1
			var lit []byte
			for j < len(s) {
				if s[j] == '\'' {
					if j+1 < len(s) && s[j+1] == '\'' {
						lit = append(lit, '\'')
						j += 2
						continue
					}
					break
				}
				lit = append(lit, s[j])
				j++
			}
			out = append(out, "'"+string(lit))
			i = j + 1
		case pgWordByte(c):
			j := i
			for j < len(s) && pgWordByte(s[j]) {
				j++
			}
			out = append(out, s[i:j])
			i = j
		default:
			for _, op := range []string{"->>", "#>>", "->", "::", ":=", "!=", "<>", "$$"} {
				if i+len(op) <= len(s) && s[i:i+len(op)] == op {
					out = append(out, op)
					i += len(op)
					c = 0
					break
				}
			}
			if c != 0 {
				out = append(out, string(c))
				i++
			}
		}
	}
	return out
}

func pgUpper(s string) string {
	b := []byte(s)
	for i, c := range b {
		if c >= 'a' && c <= 'z' {
			b[i] = c - 32
		}
	}
	return string(b)
}

// ---- syntax

type pgExpr struct {
	op   string // "or","and","not","eq","ne","in","field","fieldtext","pathtext","cast","call","var","str","num","bool","null","forall"
	name string
	num  int
	args []*pgExpr
}

type pgStmt struct {
	kind  string // "if","return","assign","case","noop"
	cond  *pgExpr
	body  []*pgStmt
	els   []*pgStmt
	hasEl bool
	expr  *pgExpr
	name  string
	whens []*pgStmt // case arms: cond + body
}

type pgFunc struct {
	vars  []string
	inits []*pgExpr
	body  []*pgStmt
}

type pgParser struct {
	toks []string
	pos  int
}

func (p *pgParser) peek() string {
	if p.pos < len(p.toks) {
		return p.toks[p.pos]
	}
	return ""
}

func (p *pgParser) peekU() string { return pgUpper(p.peek()) }

func (p *pgParser) next() string {
	t := p.peek()
	p.pos++
	return t
}

func (p *pgParser) expect(t string) {
	if got := p.next(); pgUpper(got) != t {
		panic("sql syntax: expected " + t + ", got " + got)
	}
}

func (p *pgParser) expr() *pgExpr {
	x := p.andExpr()
	for p.peekU() == "OR" {
		p.pos++
		x = &pgExpr{op: "or", args: []*pgExpr{x, p.andExpr()}}
	}
	return x
}

func (p *pgParser) andExpr() *pgExpr {
	x := p.notExpr()
	for p.peekU() == "AND" {
		p.pos++
		x = &pgExpr{op: "and", args: []*pgExpr{x, p.notExpr()}}
	}
	return x
}

func (p *pgParser) notExpr() *pgExpr {
	if p.peekU() == "NOT" {
		p.pos++
		return &pgExpr{op: "not", args: []*pgExpr{p.notExpr()}}
	}
	return p.cmpExpr()
}

func (p *pgParser) cmpExpr() *pgExpr {
	x := p.postfix()
	switch p.peekU() {
	case "=":
		p.pos++
		return &pgExpr{op: "eq", args: []*pgExpr{x, p.postfix()}}
	case "!=", "<>":
		p.pos++
		return &pgExpr{op: "ne", args: []*pgExpr{x, p.postfix()}}
	case "IN":
		p.pos++
		p.expect("(")
		in := &pgExpr{op: "in", args: []*pgExpr{x}}
		for p.peek() != ")" {
			in.args = append(in.args, p.expr())
			if p.peek() == "," {
				p.pos++
			}
		}
		p.pos++
		return in
	}
	return x
}

func (p *pgParser) postfix() *pgExpr {
	x := p.primary()
	for {
		switch p.peek() {
		case "->":
			p.pos++
			x = &pgExpr{op: "field", args: []*pgExpr{x, p.primary()}}
		case "->>":
			p.pos++
			x = &pgExpr{op: "fieldtext", args: []*pgExpr{x, p.primary()}}
		case "#>>":
			p.pos++
			x = &pgExpr{op: "pathtext", args: []*pgExpr{x, p.primary()}}
		case "::":
			p.pos++
			x = &pgExpr{op: "cast", name: pgUpper(p.next()), args: []*pgExpr{x}}
		default:
			return x
		}
	}
}

func (p *pgParser) primary() *pgExpr {
	t := p.next()
	u := pgUpper(t)
	switch {
	case t == "(":
		if p.peekU() == "SELECT" { // (SELECT bool_and( e ) FROM rows( src ))
			p.pos++
			p.expect("BOOL_AND")
			p.expect("(")
			each := p.expr()
			p.expect(")")
			p.expect("FROM")
			rows := pgUpper(p.next())
			p.expect("(")
			src := p.expr()
			p.expect(")")
			p.expect(")")
			return &pgExpr{op: "forall", name: rows, args: []*pgExpr{each, src}}
		}
		x := p.expr()
		p.expect(")")
		return x
	case len(t) > 0 && t[0] == '\'':
		return &pgExpr{op: "str", name: t[1:]}
	case u == "TRUE" || u == "FALSE":
		return &pgExpr{op: "bool", num: map[bool]int{true: 1, false: 0}[u == "TRUE"]}
	case u == "NULL":
		return &pgExpr{op: "null"}
	case t == "-" || (len(t) > 0 && t[0] >= '0' && t[0] <= '9'):
		if t == "-" {
			t += p.next()
		}
		n, err := strconv.Atoi(t)
		if err != nil {
			panic("sql syntax: number " + t)
		}
		return &pgExpr{op: "num", num: n}
	}
	if t == "" || !pgWordByte(t[0]) {
		panic("sql syntax: unexpected token " + t)
	}
	if p.peek() == "(" {
		p.pos++
		c := &pgExpr{op: "call", name: t}
		for p.peek() != ")" {
			c.args = append(c.args, p.expr())
			if p.peek() == "," {
				p.pos++
			}
		}
		p.pos++
		return c
	}
	return &pgExpr{op: "var", name: t}
}

func (p *pgParser) stmts(stop func(string) bool) []*pgStmt {
	var out []*pgStmt
	for p.pos < len(p.toks) && !stop(p.peekU()) {
		out = append(out, p.stmt())
	}
	return out
}

func (p *pgParser) stmt() *pgStmt {
	switch p.peekU() {
	case "IF":
		p.pos++
		s := &pgStmt{kind: "if", cond: p.expr()}
		p.expect("THEN")
		s.body = p.stmts(func(t string) bool { return t == "ELSE" || t == "END" })
		if p.peekU() == "ELSE" {
			p.pos++
			s.hasEl = true
			s.els = p.stmts(func(t string) bool { return t == "END" })
		}
		p.expect("END")
		p.expect("IF")
		p.expect(";")
		return s
	case "RETURN":
		p.pos++
		s := &pgStmt{kind: "return", expr: p.expr()}
		p.expect(";")
		return s
	case "RAISE":
		for p.next() != ";" {
		}
		return &pgStmt{kind: "noop"}
	case "CASE":
		p.pos++
		s := &pgStmt{kind: "case"}
		for p.peekU() == "WHEN" {
			p.pos++
			arm := &pgStmt{cond: p.expr()}
			p.expect("THEN")
			arm.body = p.stmts(func(t string) bool { return t == "WHEN" || t == "ELSE" || t == "END" })
			s.whens = append(s.whens, arm)
		}
		if p.peekU() == "ELSE" {
			p.pos++
			s.hasEl = true
			s.els = p.stmts(func(t string) bool { return t == "END" })
		}
		p.expect("END")
		p.expect("CASE")
		p.expect(";")
		return s
	}
	name := p.next()
	p.expect(":=")
	s := &pgStmt{kind: "assign", name: name, expr: p.expr()}
	p.expect(";")
	return s
}

// pgParse reads every CREATE OR REPLACE FUNCTION of the script.
func pgParse(script string) map[string]*pgFunc {
	funcs := map[string]*pgFunc{}
	p := &pgParser{toks: pgTokens(script)}
	for p.pos < len(p.toks) {
		if p.peekU() != "FUNCTION" {
			p.pos++
			continue
		}
		p.pos++
		name := p.next()
		for p.peek() != "$$" {
			p.pos++
		}
		p.pos++
		f := &pgFunc{}
		if p.peekU() == "DECLARE" {
			p.pos++
			for p.peekU() != "BEGIN" {
				f.vars = append(f.vars, p.next())
				p.pos++ // the type
				var init *pgExpr
				if p.peek() == ":=" {
					p.pos++
					init = p.expr()
				}
				f.inits = append(f.inits, init)
				p.expect(";")
			}
		}
		p.expect("BEGIN")
		f.body = p.stmts(func(t string) bool { return t == "END" })
		p.expect("END")
		p.expect(";")
		p.expect("$$")
		funcs[name] = f
	}
	return funcs
}

// ---- evaluation

type pgEnv struct {
	funcs map[string]*pgFunc
	depth int
}

func jsbKind(raw json.RawMessage) string {
	if len(raw) == 0 {
		return ""
	}
	switch c := raw[0]; {
	case c == '{':
		return "object"
	case c == '[':
		return "array"
	case c == '"':
		return "string"
	case c == 't' || c == 'f':
		return "boolean"
	case c == 'n':
		return "null"
	}
	return "number"
}

func (e *pgEnv) call(name string, arg pgVal) pgVal {
	f, ok := e.funcs[name]
	if !ok {
		pgFail("function " + name + " does not exist")
		return pgNull
	}
	e.depth++
	if e.depth > 60 {
		panic("sql evaluation: recursion too deep")
	}
	vars := map[string]pgVal{"data": arg}
	for i, v := range f.vars {
		vars[v] = pgNull
		if f.inits[i] != nil {
			vars[v] = e.eval(f.inits[i], vars)
		}
	}
	res, returned := e.run(f.body, vars)
	e.depth--
	if !returned {
		pgFail("control reached end of function without RETURN")
		return pgNull
	}
	return res
}

func (e *pgEnv) run(body []*pgStmt, vars map[string]pgVal) (pgVal, bool) {
	for _, s := range body {
		switch s.kind {
		case "return":
			return e.eval(s.expr, vars), true
		case "assign":
			vars[s.name] = e.eval(s.expr, vars)
		case "if":
			if pgIsTrue(pgAsBool(e.eval(s.cond, vars))) {
				if v, ret := e.run(s.body, vars); ret {
					return v, true
				}
			} else if s.hasEl {
				if v, ret := e.run(s.els, vars); ret {
					return v, true
				}
			}
		case "case":
			matched := false
			for _, arm := range s.whens {
				if pgIsTrue(pgAsBool(e.eval(arm.cond, vars))) {
					matched = true
					if v, ret := e.run(arm.body, vars); ret {
						return v, true
					}
					break
				}
			}
			if !matched {
				if !s.hasEl {
					pgFail("case not found")
					return pgNull, true
				}
				if v, ret := e.run(s.els, vars); ret {
					return v, true
				}
			}
		}
	}
	return pgNull, false
}

func (e *pgEnv) eval(x *pgExpr, vars map[string]pgVal) pgVal {
	switch x.op {
	case "str":
		return pgVal{kind: "text", s: x.name}
	case "num":
		return pgVal{kind: "int", n: x.num}
	case "bool":
		return pgBool(x.num == 1)
	case "null":
		return pgNull
	case "var":
		v, ok := vars[x.name]
		if !ok {
			pgFail("column " + x.name + " does not exist")
			return pgNull
		}
		return v
	case "or":
		return pgOr(e.eval(x.args[0], vars), e.eval(x.args[1], vars))
	case "and":
		return pgAnd(e.eval(x.args[0], vars), e.eval(x.args[1], vars))
	case "not":
		return pgNot(e.eval(x.args[0], vars))
	case "eq":
		return pgEq(e.eval(x.args[0], vars), e.eval(x.args[1], vars))
	case "ne":
		return pgNot(pgEq(e.eval(x.args[0], vars), e.eval(x.args[1], vars)))
	case "in":
		v := e.eval(x.args[0], vars)
		res := pgBool(false)
		for _, item := range x.args[1:] {
			res = pgOr(res, pgEq(v, e.eval(item, vars)))
		}
		return res
	case "field", "fieldtext":
		v, k := e.eval(x.args[0], vars), e.eval(x.args[1], vars)
		if v.kind != "jsonb" || k.kind != "text" || jsbKind(v.raw) != "object" {
			return pgNull
		}
		var fields map[string]json.RawMessage
		json.Unmarshal(v.raw, &fields)
		sub, has := fields[k.s]
		if !has {
			return pgNull
		}
		if x.op == "field" {
			return pgVal{kind: "jsonb", raw: sub}
		}
		return pgText(sub)
	case "pathtext": // data#>>'{}': the document itself as text
		v := e.eval(x.args[0], vars)
		if v.kind != "jsonb" {
			return pgNull
		}
		return pgText(v.raw)
	case "cast":
		v := e.eval(x.args[0], vars)
		if v.kind == "null" {
			return pgNull
		}
		if x.name == "INT" || x.name == "INTEGER" {
			if v.kind == "jsonb" && jsbKind(v.raw) == "number" {
				var n int
				json.Unmarshal(v.raw, &n)
				return pgVal{kind: "int", n: n}
			}
			pgFail("cannot cast jsonb " + jsbKind(v.raw) + " to type integer")
			return pgNull
		}
		pgFail("cast to " + x.name)
		return pgNull
	case "forall":
		src := e.eval(x.args[1], vars)
		if src.kind != "jsonb" {
			return pgVal{kind: "bool", null: true}
		}
		res := pgVal{kind: "bool", null: true} // bool_and over no row is NULL
		first := true
		add := func(v pgVal) {
			v = pgAsBool(v)
			if first {
				res, first = v, false
			} else { // aggregates ignore NULL inputs
				both := pgAnd(res, v)
				res = pgVal{kind: "bool", null: vfAnd(res.null, v.null), b: vfOr(vfAnd(res.null, v.b), vfOr(vfAnd(v.null, res.b), both.b))}
			}
		}
		inner := map[string]pgVal{}
		for k, v := range vars {
			inner[k] = v
		}
		switch x.name {
		case "JSONB_EACH":
			if jsbKind(src.raw) != "object" {
				pgFail("cannot call jsonb_each on a non-object")
				return pgNull
			}
			var fields map[string]json.RawMessage
			json.Unmarshal(src.raw, &fields)
			for k, v := range fields {
				inner["key"], inner["value"] = pgVal{kind: "text", s: k}, pgVal{kind: "jsonb", raw: v}
				add(e.eval(x.args[0], inner))
			}
		case "JSONB_ARRAY_ELEMENTS":
			if jsbKind(src.raw) != "array" {
				pgFail("cannot extract elements from a non-array")
				return pgNull
			}
			var items []json.RawMessage
			json.Unmarshal(src.raw, &items)
			for _, v := range items {
				inner["value"] = pgVal{kind: "jsonb", raw: v}
				add(e.eval(x.args[0], inner))
			}
		default:
			pgFail("set returning function " + x.name)
		}
		return res
	case "call":
		var args []pgVal
		for _, a := range x.args {
			args = append(args, e.eval(a, vars))
		}
		switch pgUpper(x.name) {
		case "JSONB_TYPEOF":
			if args[0].kind != "jsonb" {
				return pgNull
			}
			return pgVal{kind: "text", s: jsbKind(args[0].raw)}
		case "JSONB_ARRAY_LENGTH":
			if args[0].kind != "jsonb" {
				return pgNull
			}
			if jsbKind(args[0].raw) != "array" {
				pgFail("cannot get array length of a non-array")
				return pgNull
			}
			var items []json.RawMessage
			json.Unmarshal(args[0].raw, &items)
			return pgVal{kind: "int", n: len(items)}
		}
		return e.call(x.name, args[0])
	}
	panic("sql evaluation: " + x.op)
}

// pgText: the text of a jsonb value (->> and #>>): a string gives its content, JSON null gives NULL.
func pgText(raw json.RawMessage) pgVal {
	switch jsbKind(raw) {
	case "null":
		return pgNull
	case "string":
		var s string
		json.Unmarshal(raw, &s)
		return pgVal{kind: "text", s: s}
	}
	return pgVal{kind: "text", s: string(raw)}
}

// pgCheck evaluates fn(doc): verdict "accepted" (TRUE or NULL: the CHECK passes), "rejected" (FALSE or error).
func pgCheck(funcs map[string]*pgFunc, fn string, doc json.RawMessage) (rejected bool) {
	pgError = ""
	env := &pgEnv{funcs: funcs}
	res := pgAsBool(env.call(fn, pgVal{kind: "jsonb", raw: doc}))
	if pgError != "" {
		return true
	}
	return pgIsFalse(res)
}
`

const c04Check = `package p

import "encoding/json"

func mkInner(tag string, depth int) Inner {
	in := Inner{Flag: vfBool(tag + ".flag")}
	if depth > 0 {
		switch vfChoice(tag+".sub", 3) {
		case 1:
			in.Sub = []Inner{}
		case 2:
			in.Sub = []Inner{mkInner(tag+".0", depth-1), {}}
		}
	}
	return in
}

const validator = "gomacro_validate_json_p_Payload"

// replaced returns the document with the value of one key replaced (or a key added).
func replaced(doc json.RawMessage, key, value string) json.RawMessage {
	var fields map[string]json.RawMessage
	json.Unmarshal(doc, &fields)
	fields[key] = json.RawMessage(value)
	out, _ := json.Marshal(fields)
	return out
}

func Check() {
	funcs := pgParse(sqlText)
	_, defined := funcs[validator]
	vfAssert(defined, "C04/the-validator-of-the-column-type-is-defined")
	if !defined {
		return
	}
	v := Payload{Name: "n", N: 2, Lvl: High, Mode: On, First: Circle{R: 2, L: High}, S: Circle{R: 1, L: Low}, hidden: 3, Skip: 4}
	switch vfChoice("focus", 6) {
	case 0:
		v.Name = vfString("name", 0, 2, "alnum")
		v.N = int(vfInt("n", 0, 9))
		if vfBool("lvl") {
			v.Lvl = Low
		}
		if vfBool("mode") {
			v.Mode = Auto
		}
		v.Rk = []Rank{R0, R1, legacy}[vfChoice("rank", 3)]
	case 1:
		switch vfChoice("shape", 4) {
		case 0:
			v.S = Circle{R: int(vfInt("r", 0, 9)), L: High}
		case 1:
			v.S = Tags(nil)
		case 2:
			v.S = Tags{}
		default:
			v.S = Tags{vfString("tag", 1, 1, "alnum"), ""}
		}
	case 2:
		switch vfChoice("ls", 3) {
		case 1:
			v.Ls = []Level{}
		case 2:
			v.Ls = []Level{Low, High}
		}
		v.P = Pair{int(vfInt("p0", 0, 9)), 5}
		if vfBool("ll") {
			v.LL = [][]int{{1}, nil, {}}
		}
	case 3:
		switch vfChoice("m", 3) {
		case 1:
			v.M = map[string]int{}
		case 2:
			v.M = map[string]int{"k": int(vfInt("mk", 0, 9)), "": 2}
		}
	case 4:
		v.In = mkInner("in", 2)
	default:
	}
	doc, err := json.Marshal(v)
	vfAssert(err == nil, "C04/marshalling-succeeds")
	if err != nil {
		return
	}
	vfObserve("wire", string(doc))
	vfAssert(!pgCheck(funcs, validator, doc), "C04/documents-go-emits-are-admitted")

	// foreign shapes, one difference at a time
	foreign := []struct{ key, value, clause string }{
		{"Zzz", "1", "C04/unknown-object-key-is-rejected"},
		{"N", "\"seven\"", "C04/value-of-the-wrong-json-kind-is-rejected"},
		{"name", "3", "C04/value-of-the-wrong-json-kind-is-rejected"},
		{"In", "[]", "C04/value-of-the-wrong-json-kind-is-rejected"},
		{"M", "[1]", "C04/value-of-the-wrong-json-kind-is-rejected"},
		{"Ls", "{}", "C04/value-of-the-wrong-json-kind-is-rejected"},
		{"Ls", "[1, \"x\"]", "C04/value-of-the-wrong-json-kind-is-rejected"},
		{"In", "{\"Flag\": 1, \"Sub\": null}", "C04/value-of-the-wrong-json-kind-is-rejected"},
		{"In", "{\"Flag\": true, \"Sub\": [{\"Flag\": true, \"Sub\": null, \"More\": 0}]}", "C04/unknown-object-key-is-rejected"},
		{"shape", "{\"Kind\": \"Square\", \"Data\": {\"R\": 1, \"L\": 1}}", "C04/unknown-union-kind-is-rejected"},
		{"shape", "{\"Kind\": \"Tags\", \"Data\": {\"R\": 1, \"L\": 1}}", "C04/value-of-the-wrong-json-kind-is-rejected"},
		{"shape", "{\"Kind\": \"Circle\", \"Data\": {\"R\": 1, \"L\": 7}}", "C04/non-member-enum-value-is-rejected"},
		{"Lvl", "0", "C04/non-member-enum-value-is-rejected"},
		{"Rk", "2", "C04/non-member-enum-value-is-rejected"},
		{"Ls", "[1, 9]", "C04/non-member-enum-value-is-rejected"},
		{"Ls", "[0]", "C04/non-member-enum-value-is-rejected"},
		{"Lvl", "4", "C04/non-member-enum-value-is-rejected"},
		{"Mode", "\"off\"", "C04/non-member-enum-value-is-rejected"},
		{"Mode", "1", "C04/value-of-the-wrong-json-kind-is-rejected"},
		{"P", "[1, 2, 3]", "C04/wrong-fixed-array-length-is-rejected"},
		{"P", "[1]", "C04/wrong-fixed-array-length-is-rejected"},
		{"P", "null", "C04/wrong-fixed-array-length-is-rejected"},
	}
	if vfChoice("focus2", 2) == 1 {
		f := foreign[vfChoice("foreign", len(foreign))]
		vfAssert(pgCheck(funcs, validator, replaced(doc, f.key, f.value)), f.clause)
	}
}
`

// c04Tier adapts the bounds of the checking file to the tier (recursion depth of the nested value, string lengths).
func c04Tier(check string) string {
	check = strings.ReplaceAll(check, "mkInner(\"in\", 2)", fmt.Sprintf("mkInner(\"in\", %d)", vfParam("C04.depth", 2)))
	return strings.ReplaceAll(check, ", 0, 2, \"alnum\")", fmt.Sprintf(", 0, %d, \"alnum\")", vfParam("C04.strlen", 2)))
}

// HC04_exec: the CHECK of a jsonb column admits what Go emits and rejects foreign shapes (evaluated).
func HC04_exec() {
	pkg := vfTypeCheck("example.com/mod/p", []string{"/m/p/p.go", "/m/p/types.go"}, []string{c04Table, c04Decls}, nil)
	var sqlText, goText string
	panicked, _, msg := vfCatch(func() {
		ana := an.NewAnalysisFromFile(pkg, "/m/p/p.go")
		sqlText = gen.WriteDeclarations(Generate(ana))
		goText = gen.WriteDeclarations(gounions.Generate(ana))
	})
	vfObserve("generation", msg)
	vfAssert(!panicked, "C04/catalogue-is-accepted-by-the-generators")
	if panicked {
		vfStop()
	}
	text := "package p\n\nconst sqlText = " + fmt.Sprintf("%q", sqlText) + "\n"
	errs := vfExec("example.com/mod/p", []string{"/m/p/types.go", "/m/p/p.go", "/m/p/gen.go", "/m/p/sql.go", "/m/p/eval.go", "/m/p/check.go"},
		[]string{c04Decls, c04Table, execAddImports(goText, "time"), text, c04Evaluator, c04Tier(c04Check)}, nil, "Check")
	if len(errs) > 0 {
		vfObserve("error", errs[0])
	}
	vfAssert(len(errs) == 0, "C04/checking-package-compiles")
}
