package sql

import (
	"go/types"

	an "github.com/benoitkugler/gomacro/analysis"
	asql "github.com/benoitkugler/gomacro/analysis/sql"
	gen "github.com/benoitkugler/gomacro/generator"
)

// HC18_sqlSweep: the JSON-validator generator on every type skeleton.
func HC18_sqlSweep() {
	w := newSkelWorld()
	ty := w.anyType("t", vfParam("C18.depth", 2))
	rt, msg := skelDiagnostic(func() {
		codeFor(ty, make(gen.Cache))
		_ = functionName(ty)
	})
	vfObserve("outcome", msg)
	vfAssert(!rt, "C18/sql-validators-no-runtime-error")
}

// HC18_sqlTableSweep: a table struct whose column has any skeleton type: table analysis, SQL type
// naming and column definition either complete or stop with an explicit diagnostic.
func HC18_sqlTableSweep() {
	w := newSkelWorld()
	ty := w.anyType("t", vfParam("C18.depth", 2))
	named := skelNamed(w.pkg, "Tbl", types.NewStruct(nil, nil))
	st := skelStruct(w.pkg, named, []skelField{{name: "Id", typ: &an.Basic{B: types.Typ[types.Int64]}}, {name: "Col", typ: ty}})
	rt, msg := skelDiagnostic(func() {
		ta := asql.NewTable(st)
		generateTable(ta)
		for _, c := range ta.Columns {
			_ = c.SQLType.Name()
		}
		ta.ForeignKeys()
	})
	vfObserve("outcome", msg)
	vfAssert(!rt, "C18/sql-table-no-runtime-error")
}

// c18TimeNamed: a named type printing like time.Time does (what analysis.NewTime looks for).
func c18TimeNamed(pkgPath, pkgName, typeName string) *types.Named {
	timePkg := types.NewPackage("time", "time")
	loc := types.NewNamed(types.NewTypeName(0, timePkg, "Location", nil), types.NewStruct(nil, nil), nil)
	st := types.NewStruct([]*types.Var{
		types.NewField(0, timePkg, "wall", types.Typ[types.Uint64], false),
		types.NewField(0, timePkg, "ext", types.Typ[types.Int64], false),
		types.NewField(0, timePkg, "loc", types.NewPointer(loc), false),
	}, nil)
	return types.NewNamed(types.NewTypeName(0, types.NewPackage(pkgPath, pkgName), typeName, nil), st, nil)
}

// HC18_nullableWrappers: sql.NullXXX look-alikes (struct {Valid bool; <data>}) over every kind of
// data field, in both field orders.
func HC18_nullableWrappers() {
	pkg := skelPkg()
	var data types.Type
	var dataAn an.Type
	switch vfChoice("data", 6) {
	case 0:
		data, dataAn = types.Typ[types.Int64], &an.Basic{B: types.Typ[types.Int64]}
	case 1:
		data, dataAn = types.Typ[types.String], an.String
	case 2:
		data, dataAn = c18TimeNamed("time", "time", "Time"), an.VfTime(false)
	case 3:
		n := c18TimeNamed(pkg.Path(), pkg.Name(), "MyDate")
		data, dataAn = n, an.VfNewNamed(n, an.VfTime(true))
	case 4:
		n := skelNamed(pkg, "IdOther", types.Typ[types.Int64])
		data, dataAn = n, an.VfNewNamed(n, &an.Basic{B: types.Typ[types.Int64]})
	default:
		data, dataAn = types.NewSlice(types.Typ[types.Int]), &an.Array{Elem: an.Int, Len: -1}
	}
	valid := types.NewField(0, pkg, "Valid", types.Typ[types.Bool], false)
	df := types.NewField(0, pkg, "Data", data, false)
	vars := []*types.Var{valid, df}
	ans := []an.Type{an.Bool, dataAn}
	if vfChoice("order", 2) == 1 {
		vars, ans = []*types.Var{df, valid}, []an.Type{dataAn, an.Bool}
	}
	wn := skelNamed(pkg, "NullData", types.NewStruct(vars, nil))
	wrapper := &an.Struct{Name: wn}
	for i, v := range vars {
		wrapper.Fields = append(wrapper.Fields, an.StructField{Type: ans[i], Field: v})
	}
	named := skelNamed(pkg, "Tbl", types.NewStruct(nil, nil))
	st := skelStruct(pkg, named, []skelField{{name: "Id", typ: &an.Basic{B: types.Typ[types.Int64]}}, {name: "Col", typ: wrapper}})
	rt, msg := skelDiagnostic(func() {
		ta := asql.NewTable(st)
		generateTable(ta)
		ta.ForeignKeys()
	})
	vfObserve("outcome", msg)
	vfAssert(!rt, "C18/nullable-wrapper-no-runtime-error")
}

// HC18_sqlRecursiveTypes: the JSON-validator generator on self-referential named types (a named
// slice / map of itself, directly or through nesting): it returns (declarations or a diagnostic), it
// never recurses without bound.
func HC18_sqlRecursiveTypes() {
	pkg := skelPkg()
	self := an.VfNewNamed(skelNamed(pkg, "Self", types.NewStruct(nil, nil)), nil)
	var under an.AnonymousType
	switch vfChoice("shape", 4) {
	case 0:
		under = &an.Array{Elem: self, Len: -1}
	case 1:
		under = &an.Map{Key: an.String, Elem: self}
	case 2:
		under = &an.Map{Key: an.String, Elem: &an.Array{Elem: self, Len: -1}}
	default:
		under = &an.Array{Elem: &an.Map{Key: an.String, Elem: self}, Len: 2}
	}
	self.Underlying = under
	var rt bool
	var msg string
	terminated := vfTerminates(func() {
		rt, msg = skelDiagnostic(func() {
			codeFor(self, make(gen.Cache))
			_ = functionName(self)
		})
	})
	vfKnown("C18/validator-name-of-a-self-referential-named-slice-or-map-recurses-without-bound", true)
	vfAssert(terminated, "C18/sql-validators-of-a-recursive-declaration-terminates")
	if !terminated {
		return
	}
	vfObserve("outcome", msg)
	vfAssert(!rt, "C18/sql-validators-no-runtime-error")
}
