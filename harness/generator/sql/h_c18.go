package sql

import (
	gen "github.com/benoitkugler/gomacro/generator"
)

// HC18_sqlSweep: the JSON-validator generator on every type skeleton.
func HC18_sqlSweep() {
	w := newSkelWorld()
	ty := w.anyType("t", vfParam("C18.depth", 2))
	rt, msg := skelDiagnostic(func() {
		codeFor(ty, make(gen.Cache))
		_ = functionName(ty)
	})
	vfObserve("outcome", msg)
	vfAssert(!rt, "C18/sql-validators-no-runtime-error")
}
