package sql

import (
	"fmt"
	"strings"

	an "github.com/benoitkugler/gomacro/analysis"
	gen "github.com/benoitkugler/gomacro/generator"
)

// c08iField: one field declaration of a model file, with its documented image.
type c08iField struct {
	name, goType string
	column       string // expected column definition (the line starts with it)
	foreign      string // SQL name of the referenced table ("" = not a foreign key)
}

// c08iFields: the fields a table struct of the class is made of. Types: int64 id, bool (two names, one
// of them the name nullable wrappers use for their flag), string, int16, an ID type naming another
// table of the file, a nullable wrapper declared in another file of the package.
var c08iFields = []c08iField{
	{"Id", "int64", "Id serial PRIMARY KEY", ""},
	{"Valid", "bool", "Valid boolean NOT NULL", ""},
	{"Active", "bool", "Active boolean NOT NULL", ""},
	{"Name", "string", "Name text NOT NULL", ""},
	{"Rank", "int16", "Rank smallint NOT NULL", ""},
	{"IdSensor", "IdSensor", "IdSensor integer NOT NULL", "sensors"},
	{"Last", "OptInt", "Last integer", ""},
}

// c08iTables: the tables of an SQL script: name -> column definitions, and the names in order.
func c08iTables(text string) (map[string][]string, []string) {
	out := map[string][]string{}
	var names []string
	const head = "CREATE TABLE "
	for {
		i := strings.Index(text, head)
		if i < 0 {
			return out, names
		}
		text = text[i+len(head):]
		open := strings.Index(text, "(")
		end := strings.Index(text, ");")
		if open < 0 || end < open {
			return out, names
		}
		name := strings.TrimSpace(text[:open])
		var cols []string
		for _, l := range strings.Split(text[open+1:end], ",\n") {
			if l = strings.TrimSpace(l); l != "" {
				cols = append(cols, l)
			}
		}
		out[name] = cols
		names = append(names, name)
		text = text[end:]
	}
}

// HC08_everyStructIsATable: a real model file (parser + type checker + NewAnalysisFromFile) declaring
// an ID type, a fixed table and a table struct of 1..C08.tfields distinct fields taken in any order from
// c08iFields (so: every 1-, 2- and 3-column table over these fields, the two-column tables with a bool
// flag included); nullable wrappers live in another file of the package. Every struct of the analysed
// file — and no other — yields exactly one CREATE TABLE, named by the snake-case-plural convention,
// with one column per field in field order, its primary key and its FOREIGN KEY constraints.
func HC08_everyStructIsATable() {
	tname := []string{"Reading", "ItemLink"}[vfChoice("table", 2)]
	wantName := map[string]string{"Reading": "readings", "ItemLink": "item_links"}[tname]
	n := 1 + vfChoice("fields", vfParam("C08.tfields", 3))
	var fields []c08iField
	for i := 0; i < n; i++ {
		f := c08iFields[vfChoice(fmt.Sprint("field", i), len(c08iFields))]
		for _, g := range fields {
			vfAssume(g.name != f.name)
		}
		fields = append(fields, f)
	}
	src := "package p\n\ntype IdSensor int64\n\n// Sensor is a regular table.\ntype Sensor struct {\n\tId IdSensor\n\tLabel string\n}\n\ntype " + tname + " struct {\n"
	for _, f := range fields {
		src += "\t" + f.name + " " + f.goType + "\n"
	}
	src += "}\n"
	// not in the analysed file: column types, not tables
	other := "package p\n\ntype OptInt struct {\n\tValid bool\n\tInt64 int64\n}\n\ntype Elsewhere struct {\n\tId int64\n\tOk bool\n}\n"
	vfObserve("source", src)
	pkg := vfTypeCheck("example.com/mod/p", []string{"/m/p/models.go", "/m/p/other.go"}, []string{src, other}, nil)
	var text string
	panicked, rt, msg := vfCatch(func() {
		ana := an.NewAnalysisFromFile(pkg, "/m/p/models.go")
		text = gen.WriteDeclarations(Generate(ana))
	})
	vfObserve("outcome", msg)
	vfAssert(!panicked && !rt, "C08/schema-generation-completes")
	if panicked {
		return
	}
	tables, names := c08iTables(text)
	vfObserve("tables", names)
	vfAssert(len(names) == 2 && strings.Count(text, "CREATE TABLE") == 2, "C08/one-table-per-struct-of-the-analysed-file")
	_, hasSensors := tables["sensors"]
	cols, hasTable := tables[wantName]
	vfAssert(hasSensors && hasTable, "C08/table-named-snake-case-plural")
	if !hasTable {
		return
	}
	vfObserve("columns", cols)
	ok := len(cols) == len(fields)
	nbForeign := 0 // Sensor.Id names its own table: no foreign key
	for i, f := range fields {
		ok = ok && i < len(cols) && (cols[i] == f.column || strings.HasPrefix(cols[i], f.column+" "))
		if f.foreign != "" {
			nbForeign++
		}
	}
	vfAssert(ok, "C08/one-column-per-field-in-field-order-with-the-documented-type")
	for i, f := range fields {
		if i < len(cols) && f.goType == "OptInt" {
			vfAssert(!strings.Contains(cols[i], "NOT NULL"), "C08/not-null-unless-nullable-wrapper-or-variable-length-array")
		}
	}
	vfAssert(strings.Count(text, "FOREIGN KEY") == nbForeign, "C08/exactly-one-foreign-key-constraint-per-foreign-key-field")
	for _, f := range fields {
		if f.foreign != "" {
			// up to white space; no ON DELETE action (the field carries no tag)
			vfAssert(skelCount(skelSquash(text), "ALTER TABLE "+wantName+" ADD FOREIGN KEY("+f.name+") REFERENCES "+f.foreign+";") == 1,
				"C08/foreign-key-references-the-table-named-by-the-id-type-or-tag")
		}
	}
}
