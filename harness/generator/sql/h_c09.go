package sql

import (
	"go/types"

	gen "github.com/benoitkugler/gomacro/generator"
)

// c09Render: the JSON validator functions generated for a struct.
func c09Render(fields []skelField) string {
	pkg := skelPkg()
	named := skelNamed(pkg, "S", types.NewStruct(nil, nil))
	st := skelStruct(pkg, named, fields)
	return skelDeclsText(codeForStruct(st, make(gen.Cache)))
}

func HC09_sqlIgnoredField() {
	c09IgnoredField(c09Render, "C09/ignored-field-leaves-json-validator-unchanged")
}

func HC09_sqlKeyOnly() {
	c09KeyOnly(c09Render, "C09/json-validator-depends-on-field-only-through-selection-and-key")
}
