package sql

import (
	"go/constant"
	"go/types"
	"strings"

	an "github.com/benoitkugler/gomacro/analysis"
	"github.com/benoitkugler/gomacro/analysis/sql"
	gen "github.com/benoitkugler/gomacro/generator"
	"golang.org/x/tools/go/packages"
)

// HC16_customConstraint: the name following REFERENCES is replaced by the SQL table name; a
// constraint starting with ADD is attached to the table of the struct carrying the comment; other
// content is emitted as is.
func HC16_customConstraint() {
	pkg := skelPkg()
	named := skelNamed(pkg, "Item", types.NewStruct(nil, nil))
	st := skelStruct(pkg, named, []skelField{{name: "Id", typ: &an.Basic{B: types.Typ[types.Int64]}}, {name: "Owner", typ: an.Int}})
	ana := &an.Analysis{Pkg: &packages.Package{PkgPath: pkg.Path(), Types: pkg}, Types: map[types.Type]an.Type{named: st}, Source: []types.Type{named}}
	ta := sql.NewTable(st)
	rep := gen.NewTableNameReplacer([]sql.Table{ta})

	ref := vfString("ref", 1, vfParam("C16.ref", 2), "alnum")
	vfAssume(ref != "Item")
	refSQL := gen.SQLTableName(sql.TableName(ref))
	var content, want string
	switch vfChoice("shape", 4) {
	case 0:
		content = "ADD FOREIGN KEY (Owner) REFERENCES " + ref
		want = "ALTER TABLE items ADD FOREIGN KEY (Owner) REFERENCES " + refSQL + ";"
	case 1:
		content = "ADD UNIQUE(Owner)"
		want = "ALTER TABLE items ADD UNIQUE(Owner);"
	case 2:
		content = "CREATE INDEX ON Item (Owner)"
		want = "CREATE INDEX ON items (Owner);"
	default:
		content = "ALTER TABLE Item ADD CHECK (Owner > 0) REFERENCES " + ref + " (Id)"
		want = "ALTER TABLE items ADD CHECK (Owner > 0) REFERENCES " + refSQL + " (Id);"
	}
	got := generateCustomConstraint(ana, ta, rep, content)
	vfObserve("got", got)
	vfAssert(got == want, "C16/references-rewritten-add-attached-to-own-table-rest-verbatim")
}

// HC16_constraintWithEnum: the literal of a string enum constant is emitted as it is, also when its
// value reads like the name of a table struct of the file (only the constraint's own words are rewritten).
func HC16_constraintWithEnum() {
	pkg := skelPkg()
	named := skelNamed(pkg, "Item", types.NewStruct(nil, nil))
	st := skelStruct(pkg, named, []skelField{{name: "Id", typ: &an.Basic{B: types.Typ[types.Int64]}}, {name: "Kind", typ: an.String}})
	value := []string{"Item", "an Item here", "item", "Items", "v"}[vfChoice("value", 5)]
	en := skelNamed(pkg, "E", types.Typ[types.String])
	enum := an.VfNewEnum(en, []an.EnumMember{{Const: types.NewConst(0, pkg, "A", en, constant.MakeString(value))}}, false)
	pkg.Scope().Insert(en.Obj())
	ana := &an.Analysis{Pkg: &packages.Package{PkgPath: pkg.Path(), Types: pkg}, Types: map[types.Type]an.Type{named: st, en: enum}, Source: []types.Type{named}}
	ta := sql.NewTable(st)
	rep := gen.NewTableNameReplacer([]sql.Table{ta})
	got := generateCustomConstraint(ana, ta, rep, "ADD CHECK (Kind = #[E.A] OR Item IS NULL)")
	vfObserve("got", got)
	vfAssert(strings.Contains(got, "Kind = '"+value+"'"), "C16/enum-placeholder-becomes-the-sql-literal-of-the-constant")
	vfAssert(strings.HasPrefix(got, "ALTER TABLE items ADD CHECK (") && strings.Contains(got, "OR items IS NULL)"), "C16/table-struct-names-of-the-constraint-are-rewritten")
}

// HC16_sameDirectiveTwoTables: two structs of one file carrying the very same directive text: each
// table gets its own statement (ADD is attached to the table of the struct carrying the comment).
func HC16_sameDirectiveTwoTables() {
	directive := []string{"ADD UNIQUE(Name)", "ADD CHECK (Name <> '')", "CREATE INDEX ON Item (Name)"}[vfChoice("directive", 3)]
	src := "package p\n\n// gomacro:SQL " + directive + "\ntype Item struct {\n\tId int64\n\tName string\n}\n\n// gomacro:SQL " + directive + "\ntype Other struct {\n\tId int64\n\tName string\n}\n\ntype Plain struct {\n\tId int64\n\tName string\n}\n"
	pkg := vfTypeCheck("example.com/mod/p", []string{"/m/p/p.go"}, []string{src}, nil)
	var text string
	panicked, rt, msg := vfCatch(func() {
		ana := an.NewAnalysisFromFile(pkg, "/m/p/p.go")
		text = gen.WriteDeclarations(Generate(ana))
	})
	vfObserve("outcome", msg)
	vfAssert(!panicked && !rt, "C16/generation-completes")
	if panicked {
		return
	}
	if strings.HasPrefix(directive, "ADD") {
		rest := strings.TrimPrefix(directive, "ADD")
		vfAssert(strings.Count(text, "ALTER TABLE items ADD"+rest+";") == 1, "C16/add-constraint-is-attached-to-the-table-of-the-struct-carrying-the-comment")
		vfAssert(strings.Count(text, "ALTER TABLE others ADD"+rest+";") == 1, "C16/add-constraint-is-attached-to-the-table-of-the-struct-carrying-the-comment")
		vfAssert(!strings.Contains(text, "ALTER TABLE plains ADD"+rest), "C16/add-constraint-is-attached-to-no-other-table")
	} else {
		vfAssert(strings.Count(text, "CREATE INDEX ON items (Name);") == 2, "C16/every-directive-is-emitted")
	}
}
