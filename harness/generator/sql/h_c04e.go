package sql

import (
	"strings"

	an "github.com/benoitkugler/gomacro/analysis"
	gen "github.com/benoitkugler/gomacro/generator"
)

// HC04_union: the validator of a union (one member included) tests the Kind of the document against
// every member name and rejects every other Kind.
func HC04_union() {
	u, names := c02KindUnion()
	decls := codeForUnion(u, make(gen.Cache))
	text := skelSquash(decls[len(decls)-1].Content)
	ok := true
	for _, nm := range names {
		ok = ok && skelHas(text, "data->>'Kind' = '"+nm+"'")
	}
	vfAssert(ok, "C04/union-validator-tests-the-kind-against-every-member-name")
	vfAssert(skelHas(text, "ELSE RETURN FALSE;"), "C04/unknown-union-kind-is-rejected")
}

// c04KeysOf returns the key list `key IN ('a', 'b')` of the validation function named suffix.
func c04KeysOf(text, suffix string) ([]string, bool) {
	for _, chunk := range strings.Split(text, "CREATE OR REPLACE FUNCTION ")[1:] {
		name := c04FuncNames(chunk)[0]
		if name != suffix {
			continue
		}
		i := strings.Index(chunk, "key IN (")
		if i < 0 {
			return nil, true
		}
		rest := chunk[i+len("key IN ("):]
		rest = rest[:strings.Index(rest, ")")]
		var keys []string
		for _, k := range strings.Split(rest, ",") {
			keys = append(keys, strings.Trim(strings.TrimSpace(k), "'"))
		}
		return keys, true
	}
	return nil, false
}

// HC04_e2e: real source packages with a jsonb column through the real analysis and the SQL generator:
// the validator of the column's struct accepts exactly the keys encoding/json writes for it
// (hand-listed), embedded structs included.
func HC04_e2e() {
	type entry struct {
		src    string
		suffix string
		keys   []string
	}
	catalogue := []entry{
		{"type tracking struct {\n\tCreatedBy string\n\tRevision int `json:\"rev\"`\n}\n\ntype Extra struct{ Tags []string }\n\ntype Payload struct {\n\ttracking\n\tExtra\n\tTitle string\n\tnote string\n\tHidden int `json:\"-\"`\n\tDash int `json:\"-,\"`\n}\n\ntype Doc struct {\n\tId int64\n\tP Payload\n}\n",
			"gomacro_validate_json_p_Payload", []string{"CreatedBy", "rev", "Tags", "Title", "-"}},
		{"type Inner struct {\n\tA int `json:\"a,omitempty\"`\n\tB string `json:\",omitempty\"`\n}\n\ntype Payload struct {\n\tIn Inner\n\tL []Inner\n}\n\ntype Doc struct {\n\tId int64\n\tP Payload\n}\n",
			"gomacro_validate_json_p_Inner", []string{"a", "B"}},
	}
	e := catalogue[vfChoice("package", len(catalogue))]
	src := "package p\n\n" + e.src
	pkg := vfTypeCheck("example.com/mod/p", []string{"/m/p/p.go"}, []string{src}, nil)
	var text string
	panicked, rt, msg := vfCatch(func() {
		ana := an.NewAnalysisFromFile(pkg, "/m/p/p.go")
		text = gen.WriteDeclarations(Generate(ana))
	})
	vfObserve("outcome", msg)
	vfAssert(!rt && !panicked, "C04/catalogue-is-accepted-by-the-generator")
	if panicked {
		vfStop()
	}
	keys, found := c04KeysOf(text, e.suffix)
	vfAssert(found, "C04/the-validator-of-the-column-type-is-defined")
	vfObserve("keys", keys)
	same := len(keys) == len(e.keys)
	for _, want := range e.keys {
		has := false
		for _, k := range keys {
			has = has || k == want
		}
		same = same && has
	}
	vfAssert(same, "C04/object-validator-accepts-exactly-the-keys-go-writes")
	// every function called is defined
	defined := map[string]int{}
	for _, chunk := range strings.Split(text, "CREATE OR REPLACE FUNCTION ")[1:] {
		defined[c04FuncNames(chunk)[0]]++
	}
	ok := true
	for _, u := range c04FuncNames(text) {
		ok = ok && defined[u] == 1
	}
	vfAssert(ok, "C04/every-validation-function-called-is-defined-once")
}
