package sql

import (
	"sort"
	"strconv"
	"strings"

	an "github.com/benoitkugler/gomacro/analysis"
	"github.com/benoitkugler/gomacro/analysis/sql"
	gen "github.com/benoitkugler/gomacro/generator"
)

// HC16_groupedDeclarations: "a constraint starting with ADD is attached to the table of the struct
// whose declaration carries the comment" over the class of real source files made of 2..3 table
// structs of which 2..3 stand in one parenthesised `type ( ... )` block (the others being plain
// declarations before or after it), where the block itself has no comment / a plain comment / a
// comment with an SQL directive / a comment with a QUERY directive, and every struct independently
// has no comment / a plain comment / a comment ending with its own ADD directive.
//
// Oracle (from the property text and the Go spec of declarations, not from the code): the comment
// written above `type (` belongs to the block, which declares several structs, so it is the
// declaration comment of none of them; a struct carries exactly the directives of the comment
// standing directly on its own declaration. Hence the ALTER TABLE statements of the output are
// exactly one `ALTER TABLE <table of S> <directive of S>;` per struct S having a directive, and
// a table has custom queries only if its own comment declares one (never, in this class).
func HC16_groupedDeclarations() {
	names := []string{"Owner", "Pet", "Toy"}
	tables := []string{"owners", "pets", "toys"}

	// layout: which structs stand inside the block
	var n, first, last int // structs [first,last) are grouped
	switch vfChoice("layout", 4) {
	case 0:
		n, first, last = 2, 0, 2
	case 1:
		n, first, last = 3, 0, 2
	case 2:
		n, first, last = 3, 1, 3
	default:
		n, first, last = 3, 0, 3
	}
	blockDoc := []string{
		"",
		"// The models of the shop.\n",
		"// The models of the shop.\n// gomacro:SQL ADD CHECK (Rank > 0)\n",
		"// gomacro:QUERY ByRank SELECT * FROM Owner WHERE Rank = $rank$\n",
	}[vfChoice("blockDoc", 4)]

	var (
		src      = "package p\n\n"
		expected []string // the ALTER TABLE statements
		ownCount = make([]int, n)
	)
	for i := 0; i < n; i++ {
		grouped := first <= i && i < last
		indent := ""
		if grouped {
			indent = "\t"
			if i == first {
				src += blockDoc + "type (\n"
			}
		}
		directive := "ADD CHECK (Rank < " + strconv.Itoa(10+i) + ")"
		switch vfChoice("doc"+strconv.Itoa(i), 3) {
		case 0:
		case 1:
			src += indent + "// " + names[i] + " is a table.\n"
		default:
			src += indent + "// " + names[i] + " is a table.\n" + indent + "// gomacro:SQL " + directive + "\n"
			expected = append(expected, "ALTER TABLE "+tables[i]+" "+directive+";")
			ownCount[i] = 1
		}
		decl := names[i] + " struct {\n" + indent + "\tId int64\n" + indent + "\tName string\n" + indent + "\tRank int\n" + indent + "}\n"
		if grouped {
			src += indent + decl
			if i == last-1 {
				src += ")\n"
			}
			src += "\n"
		} else {
			src += "type " + decl + "\n"
		}
	}

	pkg := vfTypeCheck("example.com/mod/p", []string{"/m/p/p.go"}, []string{src}, nil)
	var (
		text string
		tas  []sql.Table
	)
	panicked, rt, msg := vfCatch(func() {
		ana := an.NewAnalysisFromFile(pkg, "/m/p/p.go")
		tas = sql.SelectTables(ana)
		text = gen.WriteDeclarations(Generate(ana))
	})
	vfObserve("outcome", msg)
	vfAssert(!panicked && !rt, "C16/generation-completes")
	if panicked {
		return
	}

	var got []string
	for _, l := range strings.Split(text, "\n") {
		if l = strings.Join(strings.Fields(l), " "); strings.HasPrefix(l, "ALTER TABLE ") {
			got = append(got, l)
		}
	}
	sort.Strings(got)
	sort.Strings(expected)
	vfObserve("alter", strings.Join(got, "|"))
	vfAssert(strings.Join(got, "|") == strings.Join(expected, "|"), "C16/add-constraints-are-exactly-those-of-the-comment-on-each-struct-own-declaration")
	vfAssert(!strings.Contains(text, "Rank > 0") && !strings.Contains(text, "ByRank"), "C16/comment-of-a-declaration-block-is-carried-by-no-struct")

	vfAssert(len(tas) == n, "C16/every-struct-is-a-table")
	for _, ta := range tas {
		for i := 0; i < n; i++ {
			if string(ta.TableName()) == names[i] {
				vfAssert(len(ta.CustomConstraints) == ownCount[i], "C16/table-has-the-directives-of-its-own-declaration-only")
				vfAssert(len(ta.CustomQueries) == 0, "C16/table-has-the-queries-of-its-own-declaration-only")
			}
		}
	}
}
