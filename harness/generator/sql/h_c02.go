package sql

import (
	gen "github.com/benoitkugler/gomacro/generator"
)

// HC02_sqlKind: the JSON validator of a union accepts exactly the Go member names as Kind.
func HC02_sqlKind() {
	u, names := c02KindUnion()
	decls := codeForUnion(u, make(gen.Cache))
	text := decls[len(decls)-1].Content
	vfObserve("text", text)
	text = skelSquash(text)
	for _, nm := range names {
		vfAssert(skelHas(text, "WHEN data->>'Kind' = '"+nm+"' THEN \n RETURN gomacro_validate_json_pkg_"+nm+"(data->'Data');"), "C02/sql-validator-dispatches-on-the-go-member-name")
	}
	vfAssert(skelCount(text, "WHEN data->>'Kind' = '") == len(names) && skelHas(text, "ELSE RETURN FALSE;"), "C02/sql-validator-one-case-per-member-unknown-kind-rejected")
}
