package typescript

import (
	"go/types"

	gen "github.com/benoitkugler/gomacro/generator"
)

// c09Render: the TypeScript text generated for a struct made of these fields.
func c09Render(fields []skelField) string {
	pkg := skelPkg()
	named := skelNamed(pkg, "S", types.NewStruct(nil, nil))
	st := skelStruct(pkg, named, fields)
	return skelDeclsText(codeForStruct(st, make(gen.Cache)))
}

func HC09_tsIgnoredField() {
	c09IgnoredField(c09Render, "C09/ignored-field-leaves-typescript-unchanged")
}

func HC09_tsKeyOnly() {
	c09KeyOnly(c09Render, "C09/typescript-depends-on-field-only-through-selection-and-key")
}
