package typescript

import (
	"fmt"
	"strings"

	an "github.com/benoitkugler/gomacro/analysis"
	gen "github.com/benoitkugler/gomacro/generator"
	"github.com/benoitkugler/gomacro/generator/go/gounions"
)

// C03 by execution: a value of the catalogue package (symbolic scalars) is marshalled by the real
// generated union wrappers under the encoding/json model, and the document is checked to inhabit
// the TypeScript declarations generated for the same package: the checking file carries a parser of
// the TypeScript subset the generator emits and a structural conformance test (same property names,
// primitive kinds, null where declared, tuple lengths, enum literal sets, Kind/Data alternatives,
// Record keys).

const c03Decls = `package p

import "time"

type ID int64

type Level int

const (
	Low Level = iota + 1
	mid
	High
)

type Mode string

const (
	On   Mode = "on!"
	Auto Mode = "aut"
)

type Shape interface{ isShape() }

type Circle struct {
	R int
	L Level
}

func (Circle) isShape() {}

type Tags []string

func (Tags) isShape() {}

type Pair [2]int

type Inner struct {
	Flag bool
	Sub  []Inner
}

type Empty struct{}

type Doc struct {
	Id     ID ` + "`json:\"id\"`" + `
	Name   string
	Lvl    Level
	Mode   Mode
	S      Shape ` + "`json:\"shape\"`" + `
	Ls     []Level
	LL     [][]int
	MS     map[string][]string
	P      Pair
	M      map[string]int
	ByID   map[ID]string
	ByLvl  map[Level]bool
	In     Inner
	E      Empty
	At     time.Time
	Ats    []time.Time
	Grid   [2]Pair
	hidden int
	Skip   int ` + "`json:\"-\"`" + `
	Note   string ` + "`json:\"note,omitempty\"`" + `
	OptLvl Level ` + "`json:\"optLvl,omitempty\"`" + `
	OptLs  []Level ` + "`json:\"optLs,omitempty\"`" + `
}
`

const c03Checker = `package p

import (
	"encoding/json"
	"strconv"
)

// ---- a parser of the TypeScript subset the generator emits

type tsType struct {
	kind  string // "prim", "ref", "strlit", "numlit", "object", "tuple", "array", "record", "union", "inter"
	name  string // prim / ref name, literal text
	keys  []string
	opt   []bool // optional properties of an object type
	elems []*tsType // object values, tuple elements, union/intersection members, array element, record key+value
}

type tsParser struct {
	toks []string
	pos  int
	dups []string // property names written twice in one object type
}

func tsIdentByte(c byte) bool {
	return c == '_' || c == '$' || (c >= 'a' && c <= 'z') || (c >= 'A' && c <= 'Z') || (c >= '0' && c <= '9')
}

func tsTokens(s string) []string {
	var out []string
	i := 0
	for i < len(s) {
		c := s[i]
		switch {
		case c == ' ' || c == '\n' || c == '\t' || c == '\r':
			i++
		case c == '/' && i+1 < len(s) && s[i+1] == '/':
			for i < len(s) && s[i] != '\n' {
				i++
			}
		case c == '"' || c == '\'':
			j := i + 1
			for j < len(s) && s[j] != c {
				if s[j] == '\\' {
					j++
				}
				j++
			}
			out = append(out, "\"" + s[i+1:j])
			i = j + 1
		case tsIdentByte(c) || c == '-':
			j := i + 1
			for j < len(s) && tsIdentByte(s[j]) {
				j++
			}
			out = append(out, s[i:j])
			i = j
		default:
			out = append(out, string(c))
			i++
		}
	}
	return out
}

func (p *tsParser) peek() string {
	if p.pos < len(p.toks) {
		return p.toks[p.pos]
	}
	return ""
}

func (p *tsParser) next() string {
	t := p.peek()
	p.pos++
	return t
}

func (p *tsParser) expect(t string) {
	if p.next() != t {
		panic("typescript syntax: expected " + t + " near token " + strconv.Itoa(p.pos))
	}
}

func (p *tsParser) union() *tsType {
	if p.peek() == "|" {
		p.pos++
	}
	first := p.inter()
	if p.peek() != "|" {
		return first
	}
	u := &tsType{kind: "union", elems: []*tsType{first}}
	for p.peek() == "|" {
		p.pos++
		u.elems = append(u.elems, p.inter())
	}
	return u
}

func (p *tsParser) inter() *tsType {
	first := p.postfix()
	if p.peek() != "&" {
		return first
	}
	u := &tsType{kind: "inter", elems: []*tsType{first}}
	for p.peek() == "&" {
		p.pos++
		u.elems = append(u.elems, p.postfix())
	}
	return u
}

func (p *tsParser) postfix() *tsType {
	t := p.primary()
	for p.peek() == "[" && p.pos+1 < len(p.toks) && p.toks[p.pos+1] == "]" {
		p.pos += 2
		t = &tsType{kind: "array", elems: []*tsType{t}}
	}
	return t
}

func (p *tsParser) primary() *tsType {
	t := p.next()
	switch {
	case t == "(":
		if p.peek() == "typeof" { // (typeof X)[keyof typeof X]: the values of the constant table X
			p.pos++
			name := p.next()
			p.expect(")")
			p.expect("[")
			p.expect("keyof")
			p.expect("typeof")
			p.next()
			p.expect("]")
			return &tsType{kind: "valuesof", name: name}
		}
		u := p.union()
		p.expect(")")
		return u
	case t == "{":
		o := &tsType{kind: "object"}
		for p.peek() != "}" {
			k := p.next()
			if len(k) > 0 && k[0] == '"' {
				k = k[1:]
			}
			optional := false
			if p.peek() == "?" {
				p.pos++
				optional = true
			}
			p.expect(":")
			t := p.union()
			again := false
			for i := range o.keys {
				if o.keys[i] == k { // written twice (an error for tsc); a reader keeping one type per name keeps the last
					again = true
					p.dups = append(p.dups, k)
					o.opt[i], o.elems[i] = optional, t
				}
			}
			if !again {
				o.keys = append(o.keys, k)
				o.opt = append(o.opt, optional)
				o.elems = append(o.elems, t)
			}
			if p.peek() == "," || p.peek() == ";" {
				p.pos++
			}
		}
		p.pos++
		return o
	case t == "[":
		o := &tsType{kind: "tuple"}
		for p.peek() != "]" {
			o.elems = append(o.elems, p.union())
			if p.peek() == "," {
				p.pos++
			}
		}
		p.pos++
		return o
	case t == "Record":
		p.expect("<")
		k := p.union()
		p.expect(",")
		v := p.union()
		p.expect(">")
		return &tsType{kind: "record", elems: []*tsType{k, v}}
	case len(t) > 0 && t[0] == '"':
		return &tsType{kind: "strlit", name: t[1:]}
	case len(t) > 0 && (t[0] == '-' || (t[0] >= '0' && t[0] <= '9')):
		return &tsType{kind: "numlit", name: t}
	case t == "string" || t == "number" || t == "boolean" || t == "null" || t == "unknown" || t == "never":
		return &tsType{kind: "prim", name: t}
	}
	if t == "" || !tsIdentByte(t[0]) {
		panic("typescript syntax: unexpected token " + t)
	}
	return &tsType{kind: "ref", name: t}
}

type tsFile struct {
	types  map[string]*tsType // interfaces and aliases
	consts map[string]*tsType // constant tables (object of literals)
	twice  []string
	dups   []string // property names written twice in one interface / object type
}

func tsParse(text string) *tsFile {
	f := &tsFile{types: map[string]*tsType{}, consts: map[string]*tsType{}}
	p := &tsParser{toks: tsTokens(text)}
	for p.pos < len(p.toks) {
		if p.next() != "export" {
			continue
		}
		switch p.next() {
		case "interface":
			name := p.next()
			p.pos-- // the body is an object type
			p.pos++
			if _, dup := f.types[name]; dup {
				f.twice = append(f.twice, name)
			}
			f.types[name] = p.primary()
		case "type":
			name := p.next()
			p.expect("=")
			if _, dup := f.types[name]; dup {
				f.twice = append(f.twice, name)
			}
			f.types[name] = p.union()
		case "const":
			name := p.next()
			if p.peek() == ":" { // annotated constant (label tables): skipped
				continue
			}
			p.expect("=")
			f.consts[name] = p.primary()
		}
	}
	f.dups = p.dups
	return f
}

// ---- structural conformance of a JSON document to a type

func jsKind(raw json.RawMessage) string {
	if len(raw) == 0 {
		return "invalid"
	}
	switch c := raw[0]; {
	case c == '{':
		return "object"
	case c == '[':
		return "array"
	case c == '"':
		return "string"
	case c == 't' || c == 'f':
		return "boolean"
	case c == 'n':
		return "null"
	}
	return "number"
}

func (f *tsFile) conforms(raw json.RawMessage, t *tsType, depth int) bool {
	if depth > 40 {
		panic("typescript types: reference cycle without structure")
	}
	kind := jsKind(raw)
	switch t.kind {
	case "prim":
		switch t.name {
		case "unknown":
			return true
		case "never":
			return false
		}
		return kind == t.name
	case "strlit":
		if kind != "string" {
			return false
		}
		var s string
		json.Unmarshal(raw, &s)
		return s == t.name
	case "numlit":
		if kind != "number" {
			return false
		}
		var n int
		json.Unmarshal(raw, &n)
		want, _ := strconv.Atoi(t.name)
		return n == want
	case "ref":
		decl, ok := f.types[t.name]
		if !ok {
			panic("typescript types: " + t.name + " is used but not declared")
		}
		return f.conforms(raw, decl, depth+1)
	case "valuesof":
		table, ok := f.consts[t.name]
		if !ok {
			return false
		}
		res := false
		for _, v := range table.elems {
			res = vfOr(res, f.conforms(raw, v, depth+1))
		}
		return res
	case "union":
		res := false
		for _, m := range t.elems {
			res = vfOr(res, f.conforms(raw, m, depth+1))
		}
		return res
	case "inter": // T & { __opaque__: ... }: the brand only exists for the type checker
		res := true
		for _, m := range t.elems {
			if m.kind == "object" && len(m.keys) == 1 && m.keys[0] == "__opaque__" {
				continue
			}
			res = vfAnd(res, f.conforms(raw, m, depth+1))
		}
		return res
	case "array":
		if kind != "array" {
			return false
		}
		var items []json.RawMessage
		json.Unmarshal(raw, &items)
		res := true
		for _, it := range items {
			res = vfAnd(res, f.conforms(it, t.elems[0], depth+1))
		}
		return res
	case "tuple":
		if kind != "array" {
			return false
		}
		var items []json.RawMessage
		json.Unmarshal(raw, &items)
		if len(items) != len(t.elems) {
			return false
		}
		res := true
		for i, it := range items {
			res = vfAnd(res, f.conforms(it, t.elems[i], depth+1))
		}
		return res
	case "object":
		if kind != "object" {
			return false
		}
		var fields map[string]json.RawMessage
		json.Unmarshal(raw, &fields)
		res := true
		found := 0
		for i, k := range t.keys {
			v, has := fields[k]
			if !has {
				if t.opt[i] {
					continue
				}
				return false
			}
			found++
			res = vfAnd(res, f.conforms(v, t.elems[i], depth+1))
		}
		if found != len(fields) { // same property names: no undeclared property
			return false
		}
		return res
	case "record":
		if kind != "object" {
			return false
		}
		var fields map[string]json.RawMessage
		json.Unmarshal(raw, &fields)
		res := true
		for k, v := range fields {
			res = vfAnd(res, f.conforms(v, t.elems[1], depth+1))
			res = vfAnd(res, f.keyConforms(k, t.elems[0], depth+1))
		}
		return res
	}
	panic("typescript types: kind " + t.kind)
}

// keyConforms: an object key (always a string in JSON) against the key type of a Record: a string type
// takes it as it is, a number type its numeric reading.
func (f *tsFile) keyConforms(k string, t *tsType, depth int) bool {
	quoted, _ := json.Marshal(k)
	if f.conforms(quoted, t, depth) {
		return true
	}
	if _, err := strconv.Atoi(k); err == nil {
		return f.conforms(json.RawMessage(k), t, depth)
	}
	return false
}
`

const c03Check = `package p

import "encoding/json"

func mkInner(tag string, depth int) Inner {
	in := Inner{Flag: vfBool(tag + ".flag")}
	if depth > 0 {
		switch vfChoice(tag+".sub", 3) {
		case 1:
			in.Sub = []Inner{}
		case 2:
			in.Sub = []Inner{mkInner(tag+".0", depth-1), {}}
		}
	}
	return in
}

func Check() {
	ts := tsParse(tsText)
	vfAssert(len(ts.twice) == 0, "C03/no-type-name-is-declared-twice")
	v := Doc{Id: 7, Name: "n", Lvl: High, Mode: On, S: Circle{R: 1, L: Low}, hidden: 3, Skip: 4}
	switch vfChoice("focus", 7) {
	case 0:
		v.Id = ID(vfInt("id", 0, 9))
		v.Name = vfString("name", 0, 2, "alnum")
		if vfBool("lvl") {
			v.Lvl = Low
		}
		if vfBool("mode") {
			v.Mode = Auto
		}
	case 1:
		switch vfChoice("shape", 4) {
		case 0:
			v.S = Circle{R: int(vfInt("r", 0, 9)), L: High}
		case 1:
			v.S = Tags(nil)
		case 2:
			v.S = Tags{}
		default:
			v.S = Tags{vfString("tag", 1, 1, "alnum"), ""}
		}
	case 2:
		switch vfChoice("ls", 3) {
		case 1:
			v.Ls = []Level{}
		case 2:
			v.Ls = []Level{Low, High}
		}
		v.P = Pair{int(vfInt("p0", 0, 9)), 5}
		v.Grid = [2]Pair{{1, 2}, {int(vfInt("g", 0, 9)), 4}}
		switch vfChoice("ll", 3) {
		case 1:
			v.LL = [][]int{{1}, nil, {}}
			v.MS = map[string][]string{"a": nil, "b": {"x"}}
		case 2:
			v.LL = [][]int{}
			v.MS = map[string][]string{}
		}
	case 3:
		switch vfChoice("m", 3) {
		case 1:
			v.M = map[string]int{}
		case 2:
			v.M = map[string]int{"k": int(vfInt("mk", 0, 9)), "": 2}
		}
	case 4:
		if vfBool("byid") {
			v.ByID = map[ID]string{3: vfString("s3", 0, 1, "alnum"), 12: "x"}
		}
		if vfBool("bylvl") {
			v.ByLvl = map[Level]bool{Low: true, High: vfBool("b")}
		}
	case 5:
		v.In = mkInner("in", 2)
	default:
		v.Note = vfString("note", 0, 1, "alnum")
		if vfBool("optLvl") {
			v.OptLvl = High
			v.OptLs = []Level{Low}
		}
	}
	raw, err := json.Marshal(v)
	vfAssert(err == nil, "C03/marshalling-succeeds")
	if err != nil {
		return
	}
	vfObserve("wire", string(raw))
	decl, ok := ts.types["Doc"]
	vfAssert(ok, "C03/the-type-of-the-source-declaration-is-declared")
	if !ok {
		return
	}
	vfAssert(ts.conforms(raw, decl, 0), "C03/go-json-inhabits-the-typescript-type")
}
`

// c03Tier adapts the bounds of the checking file to the tier (recursion depth of the nested value, string lengths).
func c03Tier(check string) string {
	check = strings.ReplaceAll(check, "mkInner(\"in\", 2)", fmt.Sprintf("mkInner(\"in\", %d)", vfParam("C03.depth", 2)))
	return strings.ReplaceAll(check, ", 0, 2, \"alnum\")", fmt.Sprintf(", 0, %d, \"alnum\")", vfParam("C03.strlen", 2)))
}

// HC03_exec: JSON documents emitted by Go (through the generated union wrappers) inhabit the generated TypeScript types.
func HC03_exec() {
	pkg := vfTypeCheck("example.com/mod/p", []string{"/m/p/p.go"}, []string{c03Decls}, nil)
	var tsText, goText string
	panicked, _, msg := vfCatch(func() {
		ana := an.NewAnalysisFromFile(pkg, "/m/p/p.go")
		tsText = gen.WriteDeclarations(Generate(ana))
		goText = gen.WriteDeclarations(gounions.Generate(ana))
	})
	vfObserve("generation", msg)
	vfAssert(!panicked, "C03/catalogue-is-accepted-by-the-generators")
	if panicked {
		vfStop()
	}
	text := "package p\n\nconst tsText = " + fmt.Sprintf("%q", tsText) + "\n"
	errs := vfExec("example.com/mod/p", []string{"/m/p/p.go", "/m/p/gen.go", "/m/p/ts.go", "/m/p/checker.go", "/m/p/check.go"},
		[]string{c03Decls, execAddImports(goText, "time"), text, c03Checker, c03Tier(c03Check)}, nil, "Check")
	if len(errs) > 0 {
		vfObserve("error", errs[0])
	}
	vfAssert(len(errs) == 0, "C03/checking-package-compiles")
}
