package typescript

import (
	"fmt"

	an "github.com/benoitkugler/gomacro/analysis"
	gen "github.com/benoitkugler/gomacro/generator"
)

// C03 on embedded structs whose fields are shadowed. The analysis flattens embedded structs; encoding/json
// emits, for a JSON name reached at several depths, the SHALLOWEST field only. The class: a struct Outer
// embedding Base{ID int; Name string; Tags []string} directly or through one more embedded struct, and
// declaring - before or after the embedded struct - none or one field with the JSON name of a Base field
// (same Go name, or another Go name with a json tag) whose type is string, int, bool or []int.
// Oracle: the document json.Marshal produces for an Outer value (symbolic scalars, nil/empty/populated
// slices) must inhabit the generated interface. An interface writing a property twice is not well-formed
// TypeScript (tsc: duplicate identifier): that is a clause of its own, checked first; inhabitation is only
// defined, and only checked, for a well-formed interface.

var c03jBase = []string{"", "ID", "Name", "Tags"}

var c03jShadow = []struct{ goType, value string }{
	{"string", "func shadowVal() string { return vfString(\"s\", 0, 1, \"alnum\") }\n"},
	{"int", "func shadowVal() int { return int(vfInt(\"i\", 0, 9)) }\n"},
	{"bool", "func shadowVal() bool { return vfBool(\"b\") }\n"},
	{"[]int", "func shadowVal() []int {\n\tswitch vfChoice(\"sv\", 3) {\n\tcase 1:\n\t\treturn []int{}\n\tcase 2:\n\t\treturn []int{int(vfInt(\"e\", 0, 9)), 3}\n\t}\n\treturn nil\n}\n"},
}

const c03jCheck = `package p

import "encoding/json"

func Check() {
	ts := tsParse(tsText)
	vfAssert(len(ts.twice) == 0, "C03/no-type-name-is-declared-twice")
	vfKnown("C03/embedded-field-shadowed-by-an-outer-field-is-declared-twice-in-the-interface", shadowed)
	vfAssert(len(ts.dups) == 0, "C03/no-property-is-declared-twice-in-an-interface")
	if len(ts.dups) != 0 {
		return // not well-formed: which of the two types a reader keeps is not defined, so neither is inhabitation
	}
	var v Outer
	v.Pages = int(vfInt("pages", 0, 9))
	v.Base = Base{ID: int(vfInt("id", 0, 9)), Name: vfString("name", 0, 1, "alnum")}
	switch vfChoice("tags", 3) {
	case 1:
		v.Base.Tags = []string{}
	case 2:
		v.Base.Tags = []string{vfString("tag", 0, 1, "alnum"), "x"}
	}
	setShadow(&v)
	raw, err := json.Marshal(v)
	vfAssert(err == nil, "C03/marshalling-succeeds")
	if err != nil {
		return
	}
	vfObserve("wire", string(raw))
	decl, ok := ts.types["Outer"]
	vfAssert(ok, "C03/the-type-of-the-source-declaration-is-declared")
	if !ok {
		return
	}
	vfAssert(ts.conforms(raw, decl, 0), "C03/go-json-of-a-struct-with-a-shadowed-embedded-field-inhabits-the-typescript-type")
}
`

// HC03_execShadowed: see the head of the file.
func HC03_execShadowed() {
	which := c03jBase[vfChoice("shadowedField", len(c03jBase))]
	levels := 1 + vfChoice("embeddingLevels", vfParam("C03.levels", 2))
	decls := "package p\n\ntype Base struct {\n\tID   int\n\tName string\n\tTags []string\n}\n\n"
	embedded := "Base"
	if levels == 2 {
		decls += "type Mid struct {\n\tExtra bool\n\tBase\n}\n\n"
		embedded = "Mid"
	}
	check := c03jCheck
	if which == "" {
		decls += "type Outer struct {\n\t" + embedded + "\n\tPages int\n}\n"
		check += "\nconst shadowed = false\n\nfunc setShadow(v *Outer) {}\n"
	} else {
		sh := c03jShadow[vfChoice("shadowType", len(c03jShadow))]
		after := vfChoice("shadowDeclaredAfterTheEmbeddedStruct", 2) == 1
		goName, tag := which, ""
		if vfChoice("shadowByTag", 2) == 1 {
			goName, tag = "Alt", " `json:\""+which+"\"`"
		}
		field := "\t" + goName + " " + sh.goType + tag + "\n"
		if after {
			decls += "type Outer struct {\n\t" + embedded + "\n" + field + "\tPages int\n}\n"
		} else {
			decls += "type Outer struct {\n" + field + "\t" + embedded + "\n\tPages int\n}\n"
		}
		check += "\nconst shadowed = true\n\n" + sh.value + "\nfunc setShadow(v *Outer) { v." + goName + " = shadowVal() }\n"
	}
	vfObserve("declarations", decls)
	pkg := vfTypeCheck("example.com/mod/p", []string{"/m/p/p.go"}, []string{decls}, nil)
	var tsText string
	panicked, _, msg := vfCatch(func() {
		ana := an.NewAnalysisFromFile(pkg, "/m/p/p.go")
		tsText = gen.WriteDeclarations(Generate(ana))
	})
	vfObserve("generation", msg)
	vfAssert(!panicked, "C03/catalogue-is-accepted-by-the-generators")
	if panicked {
		vfStop()
	}
	text := "package p\n\nconst tsText = " + fmt.Sprintf("%q", tsText) + "\n"
	errs := vfExec("example.com/mod/p", []string{"/m/p/p.go", "/m/p/ts.go", "/m/p/checker.go", "/m/p/check.go"},
		[]string{decls, text, c03Checker, check}, nil, "Check")
	if len(errs) > 0 {
		vfObserve("error", errs[0])
	}
	vfAssert(len(errs) == 0, "C03/checking-package-compiles")
}
