package typescript

import (
	"go/types"

	an "github.com/benoitkugler/gomacro/analysis"
	gen "github.com/benoitkugler/gomacro/generator"
)

// HC18_tsSweep: on every type skeleton the TypeScript generator returns or stops with an
// explicit diagnostic; it never dies with a Go runtime error.
func HC18_tsSweep() {
	w := newSkelWorld()
	ty := w.anyType("t", vfParam("C18.depth", 2))
	rt, msg := skelDiagnostic(func() {
		generate(ty, make(gen.Cache))
		_ = typeName(ty)
	})
	vfObserve("outcome", msg)
	vfAssert(!rt, "C18/typescript-no-runtime-error")
}

// HC18_tsGenericStruct: a generic struct instantiated with a basic or a named type argument.
func HC18_tsGenericStruct() {
	pkg := skelPkg()
	tp := types.NewTypeParam(types.NewTypeName(0, pkg, "T", nil), types.NewInterfaceType(nil, nil))
	generic := types.NewNamed(types.NewTypeName(0, pkg, "G", nil), types.NewStruct(nil, nil), nil)
	generic.SetTypeParams([]*types.TypeParam{tp})
	var arg types.Type
	switch vfChoice("arg", 3) {
	case 0:
		arg = types.Typ[types.Int64]
	case 1:
		arg = skelNamed(pkg, "Arg", types.Typ[types.Int])
	default:
		arg = types.NewSlice(types.Typ[types.String])
	}
	inst, err := types.Instantiate(nil, generic, []types.Type{arg}, false)
	vfAssume(err == nil)
	st := &an.Struct{Name: inst.(*types.Named)}
	rt, msg := skelDiagnostic(func() { _ = typeName(st) })
	vfObserve("outcome", msg)
	vfAssert(!rt, "C18/typescript-generic-instantiation-no-failed-type-assertion")
}
