package typescript

import (
	"fmt"
	"go/constant"
	"go/types"
	"strings"

	an "github.com/benoitkugler/gomacro/analysis"
	gen "github.com/benoitkugler/gomacro/generator"
)

func c03Declared(text, name string) int {
	return strings.Count(text, "export type "+name+" =") + strings.Count(text, "export interface "+name+" {") +
		strings.Count(text, "export const "+name+" =")*0 // a const X accompanies the type X of enums and union kinds
}

// c03Mentioned collects the names the declarations of ty mention (through exported fields,
// elements, keys, members, underlying types): every one must be declared.
func c03Mentioned(ty an.Type, out map[string]bool, seen map[an.Type]bool) {
	if seen[ty] {
		return
	}
	seen[ty] = true
	switch ty := ty.(type) {
	case *an.Basic:
		if ty.Kind() == an.BKInt {
			out["Int"] = true
		}
	case *an.Time:
		if ty.IsDate {
			out["Date_"] = true
		} else {
			out["Time"] = true
		}
	case *an.Array:
		if ty.Len >= 1 {
			out[typeName(ty)] = true
		}
		c03Mentioned(ty.Elem, out, seen)
	case *an.Map:
		c03Mentioned(ty.Key, out, seen)
		c03Mentioned(ty.Elem, out, seen)
	case *an.Named:
		if basic, ok := ty.Underlying.(*an.Basic); ok && basic.Kind() == an.BKInt {
			out[typeName(ty)] = true // declared as an opaque number, Int itself is not mentioned
			return
		}
		if typeName(ty) != typeName(ty.Underlying) {
			out[typeName(ty)] = true
		}
		c03Mentioned(ty.Underlying, out, seen) // (a named type spelled like its target still needs the target declared)
	case *an.Enum:
		out[typeName(ty)] = true
	case *an.Struct:
		out[typeName(ty)] = true
		for _, f := range ty.Fields {
			if f.Exported() && !f.IsOpaqueFor("typescript") {
				c03Mentioned(f.Type, out, seen)
			}
		}
	case *an.Union:
		out[typeName(ty)] = true
		for _, m := range ty.Members {
			c03Mentioned(m, out, seen)
		}
	}
}

// HC03_tsClosure: the TypeScript output for any type skeleton is self-contained: every type
// name it mentions is declared exactly once in it.
func HC03_tsClosure() {
	w := newSkelWorld()
	ty := w.anyType("t", vfParam("C03.depth", 2))
	var decls []gen.Declaration
	panicked, _, _ := vfCatch(func() { decls = generateTypes([]an.Type{ty}) })
	if panicked {
		vfStop() // refused input (pointers, fixed arrays of slices ...)
	}
	text := gen.WriteDeclarations(decls)
	names := map[string]bool{}
	c03Mentioned(ty, names, map[an.Type]bool{})
	ok := true
	for name := range names {
		n := c03Declared(text, name)
		if n != 1 {
			vfObserve("bad", fmt.Sprint(name, " declared ", n, " times"))
		}
		ok = ok && n == 1
	}
	vfObserve("names", len(names))
	vfAssert(ok, "C03/every-mentioned-type-name-is-declared-exactly-once")
	// well-formedness of the identifiers being declared
	okIdent := true
	for _, line := range strings.Split(text, "\n") {
		line = strings.TrimSpace(line)
		for _, pre := range []string{"export type ", "export interface "} {
			if strings.HasPrefix(line, pre) {
				rest := line[len(pre):]
				j := 0
				for j < len(rest) && (rest[j] == '_' || (rest[j] >= 'a' && rest[j] <= 'z') || (rest[j] >= 'A' && rest[j] <= 'Z') || (rest[j] >= '0' && rest[j] <= '9')) {
					j++
				}
				okIdent = okIdent && j > 0 && j < len(rest) && rest[j] == ' '
			}
		}
	}
	vfAssert(okIdent, "C03/declared-names-are-identifiers")
}

func c03HasZeroLenArray(ty an.Type, seen map[an.Type]bool) bool {
	if seen[ty] {
		return false
	}
	seen[ty] = true
	switch ty := ty.(type) {
	case *an.Array:
		return ty.Len == 0 || c03HasZeroLenArray(ty.Elem, seen)
	case *an.Map:
		return c03HasZeroLenArray(ty.Key, seen) || c03HasZeroLenArray(ty.Elem, seen)
	case *an.Named:
		return c03HasZeroLenArray(ty.Underlying, seen)
	case *an.Struct:
		for _, f := range ty.Fields {
			if c03HasZeroLenArray(f.Type, seen) {
				return true
			}
		}
	case *an.Union:
		for _, m := range ty.Members {
			if c03HasZeroLenArray(m, seen) {
				return true
			}
		}
	}
	return false
}

// HC03_nullAndTuples: null is accepted wherever Go emits it (nil slices and maps); a fixed array
// is a tuple with exactly Len elements.
func HC03_nullAndTuples() {
	elem := []an.Type{an.String, an.Int, an.Bool}[vfChoice("elem", 3)]
	L := 1 + vfChoice("len", 4)
	sl := &an.Array{Elem: elem, Len: -1}
	mp := &an.Map{Key: an.String, Elem: elem}
	ar := &an.Array{Elem: elem, Len: L}
	vfAssert(strings.HasSuffix(strings.TrimSpace(typeName(sl)), "| null)"), "C03/slices-accept-null")
	vfAssert(strings.HasSuffix(strings.TrimSpace(typeName(mp)), "| null)"), "C03/maps-accept-null")
	decls := codeForArray(ar, make(gen.Cache))
	text := decls[len(decls)-1].Content
	vfObserve("text", text)
	open, close := strings.Index(text, "["), strings.LastIndex(text, "]")
	vfAssert(open >= 0 && close > open, "C03/fixed-array-is-a-tuple")
	if open < 0 || close <= open {
		return
	}
	inner := strings.TrimSuffix(strings.TrimSpace(text[open+1:close]), ",")
	vfAssert(strings.Count(inner, ",")+1 == L, "C03/tuple-has-exactly-len-elements")
	vfAssert(strings.Contains(text, "export type "+typeName(ar)+" ="), "C03/tuple-alias-is-the-name-used-by-references")
}

// HC03_enumLiterals: the enum declaration lists every constant exactly once with its value.
func HC03_enumLiterals() {
	pkg := skelPkg()
	isInt := vfChoice("int", 2) == 1
	var under types.Type = types.Typ[types.String]
	if isInt {
		under = types.Typ[types.Int]
	}
	named := skelNamed(pkg, "E", under)
	n := 1 + vfChoice("n", 3)
	var members []an.EnumMember
	for i := 0; i < n; i++ {
		name := "C" + vfString(fmt.Sprint("name", i), 1, 1, "alnum")
		for _, m := range members {
			vfAssume(m.Const.Name() != name)
		}
		var val constant.Value = constant.MakeString(fmt.Sprint("v", i))
		if isInt {
			val = constant.MakeInt64(int64(vfChoice(fmt.Sprint("val", i), 4)) - 1)
		}
		members = append(members, an.EnumMember{Const: types.NewConst(0, pkg, name, named, val)})
	}
	e := an.VfNewEnum(named, members, false)
	text := skelSquash(codeForEnum(e).Content)
	ok := true
	for _, m := range members {
		ok = vfAnd(ok, skelCount(text, m.Const.Name()+" : "+m.Const.Val().String()+",") == 1)
	}
	vfAssert(ok, "C03/enum-lists-every-constant-once-with-its-value")
}

// c03JSUnquote decodes a double-quoted JavaScript string literal (the escapes of ECMAScript: \" \\ \n \r
// \t \b \f \v \0 \xHH \uHHHH, any other escaped character standing for itself).
func c03JSUnquote(lit string) (string, bool) {
	if len(lit) < 2 || lit[0] != '"' || lit[len(lit)-1] != '"' {
		return "", false
	}
	hex := func(s string) (int, bool) {
		v := 0
		for i := 0; i < len(s); i++ {
			c := s[i]
			switch {
			case c >= '0' && c <= '9':
				v = v*16 + int(c-'0')
			case c >= 'a' && c <= 'f':
				v = v*16 + int(c-'a') + 10
			case c >= 'A' && c <= 'F':
				v = v*16 + int(c-'A') + 10
			default:
				return 0, false
			}
		}
		return v, true
	}
	body := lit[1 : len(lit)-1]
	var out []byte
	for i := 0; i < len(body); i++ {
		c := body[i]
		if c == '"' || c == '\n' {
			return "", false // unescaped quote or line break: not a valid literal
		}
		if c != '\\' {
			out = append(out, c)
			continue
		}
		i++
		if i >= len(body) {
			return "", false
		}
		switch body[i] {
		case 'n':
			out = append(out, '\n')
		case 'r':
			out = append(out, '\r')
		case 't':
			out = append(out, '\t')
		case 'b':
			out = append(out, '\b')
		case 'f':
			out = append(out, '\f')
		case 'v':
			out = append(out, '\v')
		case '0':
			out = append(out, 0)
		case 'x':
			if i+2 > len(body)-1 {
				return "", false
			}
			v, ok := hex(body[i+1 : i+3])
			if !ok {
				return "", false
			}
			out = append(out, string(rune(v))...)
			i += 2
		case 'u':
			if i+4 > len(body)-1 {
				return "", false
			}
			v, ok := hex(body[i+1 : i+5])
			if !ok {
				return "", false
			}
			out = append(out, string(rune(v))...)
			i += 4
		default:
			out = append(out, body[i])
		}
	}
	return string(out), true
}

// HC03_stringEnumValues: the TypeScript literal of a string enum constant denotes, under the rules of
// JavaScript string literals, exactly the string Go puts on the wire.
func HC03_stringEnumValues() {
	pkg := skelPkg()
	named := skelNamed(pkg, "E", types.Typ[types.String])
	values := []string{"v", "a\"b", "a\\b", "\\frac{1}{2}", "C:\\temp\\new", "a\tb", "line\nbreak", "é€", "it's", ""}
	n := 1 + vfChoice("n", 2)
	var members []an.EnumMember
	for i := 0; i < n; i++ {
		val := values[vfChoice(fmt.Sprint("value", i), len(values))]
		members = append(members, an.EnumMember{Const: types.NewConst(0, pkg, fmt.Sprint("C", i), named, constant.MakeString(val))})
	}
	e := an.VfNewEnum(named, members, false)
	raw := codeForEnum(e).Content
	ok := true
	for _, m := range members {
		key := m.Const.Name() + " : "
		idx := strings.Index(raw, key)
		if idx < 0 {
			ok = false
			break
		}
		rest := raw[idx+len(key):]
		if nl := strings.Index(rest, "\n"); nl >= 0 {
			rest = rest[:nl]
		}
		lit := strings.TrimSuffix(strings.TrimSpace(rest), ",")
		got, valid := c03JSUnquote(lit)
		vfObserve("literal", lit)
		ok = ok && valid && got == constant.StringVal(m.Const.Val())
	}
	vfAssert(ok, "C03/string-enum-literal-denotes-the-go-value")
}

// HC03_sameLocalName: two distinct named types never declare one TypeScript identifier twice.
func HC03_sameLocalName() {
	p1 := types.NewPackage("example.com/mod/a", "a")
	p2 := types.NewPackage("example.com/mod/b", "b")
	n1 := "T" + vfString("name1", 1, 1, "alnum")
	n2 := "T" + vfString("name2", 1, 1, "alnum")
	s1 := skelStruct(p1, skelNamed(p1, n1, types.NewStruct(nil, nil)), []skelField{{name: "X", typ: an.Int}})
	s2 := skelStruct(p2, skelNamed(p2, n2, types.NewStruct(nil, nil)), []skelField{{name: "Y", typ: an.String}})
	text := gen.WriteDeclarations(generateTypes([]an.Type{s1, s2}))
	vfKnown("C03/same-local-name-in-two-packages", n1 == n2)
	vfAssert(strings.Count(text, "export interface "+n1+" {") == 1, "C03/one-declaration-per-typescript-identifier")
}
