package typescript

import (
	"fmt"
	"go/types"
	"strings"

	an "github.com/benoitkugler/gomacro/analysis"
	"github.com/benoitkugler/gomacro/analysis/httpapi"
)

type c14Query struct {
	name string
	kind int // 0 int, 1 float, 2 bool, 3 string, 4 named int, 5 named bool, 6 named float
}

func c14QueryType(pkg *types.Package, kind int) an.Type {
	switch kind {
	case 0:
		return an.Int
	case 1:
		return an.Float
	case 2:
		return an.Bool
	case 3:
		return an.String
	}
	switch kind {
	case 5:
		return an.VfNewNamed(skelNamed(pkg, "Flag", types.Typ[types.Bool]), an.Bool)
	case 6:
		return an.VfNewNamed(skelNamed(pkg, "Ratio", types.Typ[types.Float64]), an.Float)
	}
	return an.VfNewNamed(skelNamed(pkg, "IdItem", types.Typ[types.Int64]), &an.Basic{B: types.Typ[types.Int64]})
}

func c14Conv(q c14Query) string {
	switch q.kind {
	case 0, 1, 4, 6:
		return fmt.Sprintf("%q: String(params[%q])", q.name, q.name)
	case 2, 5:
		return fmt.Sprintf("%q: params[%q] ? 'ok' : ''", q.name, q.name)
	}
	return fmt.Sprintf("%q: params[%q]", q.name, q.name)
}

// c14Endpoint builds an endpoint with symbolic names, verb, and contract shape.
// c14Name: a symbolic 1-byte suffix, or a concrete one in the narrow (file-level) mode.
func c14Name(narrow bool, input string) string {
	if narrow {
		return "x"
	}
	return vfString(input, 1, 1, "alnum")
}

// c14FormName: form field names are arbitrary string literals of the handler (c.FormValue("rate%")):
// one printable byte without quote and backslash, then a concrete suffix.
func c14FormName(narrow bool, input string) string {
	if narrow {
		return "x"
	}
	if vfParam("C14.formAlnum", 0) == 1 { // the thorough tier trades the byte class for more fields (bounds as run clean)
		return vfString(input, 1, 1, "alnum")
	}
	return vfString(input, 1, 1, "tag")
}

func c14Endpoint(pkg *types.Package, tag string) (httpapi.Endpoint, []c14Query, []string) {
	body := skelStruct(pkg, skelNamed(pkg, "BodyIn", types.NewStruct(nil, nil)), []skelField{{name: "A", typ: an.Int}})
	ret := skelStruct(pkg, skelNamed(pkg, "Out", types.NewStruct(nil, nil)), []skelField{{name: "B", typ: an.String}})
	narrow := vfParam("C14.narrow", 0) == 1 // the file-level harness explores fewer request shapes
	verbs := []string{"GET", "POST", "PUT", "DELETE"}
	if narrow {
		verbs = verbs[:2]
	}
	a := httpapi.Endpoint{Method: verbs[vfChoice(tag+"verb", len(verbs))], Url: "/api/x"}
	if !narrow {
		a.Url = "/api/" + vfString(tag+"url", 0, 2, "alnum")
	}
	a.Contract.Name = "Do" + c14Name(narrow, tag+"handler")
	var formNames []string
	switch vfChoice(tag+"input", 3) {
	case 1:
		a.Contract.InputBody = body
	case 2: // form data: any non-empty combination of file, values, JSON field
		if vfChoice(tag+"file", 2) == 1 {
			a.Contract.InputForm.File = "f" + c14FormName(narrow, tag+"fileName")
			formNames = append(formNames, a.Contract.InputForm.File)
		}
		nv := vfChoice(tag+"values", vfParam("C14.values", 1)+1)
		for i := 0; i < nv; i++ {
			v := c14FormName(narrow, fmt.Sprint(tag, "value", i)) + fmt.Sprint("v", i)
			for _, o := range a.Contract.InputForm.ValueNames {
				vfAssume(o != v)
			}
			a.Contract.InputForm.ValueNames = append(a.Contract.InputForm.ValueNames, v)
		}
		if vfChoice(tag+"json", 2) == 1 {
			// the JSON field may be a struct, a string, a named string or an integer: always sent as JSON text
			var jt an.Type = body
			if !narrow {
				switch vfChoice(tag+"jsonType", 4) {
				case 1:
					jt = an.String
				case 2:
					jt = an.VfNewNamed(skelNamed(pkg, "Label", types.Typ[types.String]), an.String)
				case 3:
					jt = an.Int
				}
			}
			a.Contract.InputForm.JSON = httpapi.TypedParam{Name: "j" + c14FormName(narrow, tag+"jsonName"), Type: jt}
		}
		vfAssume(!a.Contract.InputForm.IsZero())
	}
	var qs []c14Query
	nq := vfChoice(tag+"queries", vfParam("C14.queries", 1)+1)
	for i := 0; i < nq; i++ {
		q := c14Query{name: c14Name(narrow, fmt.Sprint(tag, "query", i)) + fmt.Sprint("q", i), kind: vfChoice(fmt.Sprint(tag, "qkind", i), 7)}
		if narrow {
			vfAssume(q.kind == 0 || q.kind == 3 || q.kind == 4)
		}
		for _, o := range qs {
			vfAssume(o.name != q.name)
		}
		qs = append(qs, q)
		a.Contract.InputQueryParams = append(a.Contract.InputQueryParams, httpapi.TypedParam{Name: q.name, Type: c14QueryType(pkg, q.kind)})
	}
	switch vfChoice(tag+"return", 3) {
	case 1:
		a.Contract.Return = ret
	case 2: // blob route: Return is the []byte type
		a.Contract.Return = &an.Array{Elem: &an.Basic{B: types.Typ[types.Byte]}, Len: -1}
		a.Contract.IsReturnBlob = true
	}
	return a, qs, formNames
}

// HC14_method: the generated method issues exactly the extracted request.
func HC14_method() {
	pkg := skelPkg()
	a, qs, _ := c14Endpoint(pkg, "")
	c := a.Contract
	text := generateMethod(a)
	vfObserve("text", text)
	sq := skelSquash(text)

	vfAssert(skelHas(sq, "async "+c.Name+"("), "C14/method-named-after-the-handler")
	vfAssert(skelHas(sq, "const fullUrl = this.baseUrl + \""+a.Url+"\";"), "C14/request-sent-to-base-url-plus-endpoint-url")

	hasBody, hasForm := c.InputBody != nil, !c.InputForm.IsZero()
	second := ""
	switch {
	case hasForm:
		second = "formData, "
	case hasBody:
		second = "params, "
	case a.Method == "POST" || a.Method == "PUT":
		second = "null, "
	}
	vfAssert(skelHas(sq, "await Axios."+strings.ToLower(a.Method)+"(fullUrl, "+second+"{ headers"), "C14/verb-and-body-argument")

	// form data: exactly the declared file, values and JSON field
	nAppend := len(c.InputForm.ValueNames)
	okForm := true
	if c.InputForm.File != "" {
		nAppend++
		okForm = vfAnd(okForm, skelHas(sq, fmt.Sprintf("formData.append(%q, file, file.name)", c.InputForm.File)))
	}
	for _, v := range c.InputForm.ValueNames {
		okForm = vfAnd(okForm, skelHas(sq, fmt.Sprintf("formData.append(%q, formParams[%q])", v, v)))
	}
	if c.InputForm.JSON.Name != "" {
		nAppend++
		okForm = vfAnd(okForm, skelHas(sq, fmt.Sprintf("formData.append(%q, JSON.stringify(formValue))", c.InputForm.JSON.Name)))
	}
	vfAssert(vfAnd(okForm, skelCount(sq, "formData.append(") == nAppend), "C14/form-data-has-exactly-the-declared-fields")

	// query parameters converted to strings
	if len(qs) == 0 {
		vfAssert(!skelHas(sq, "params: {"), "C14/no-query-object-without-query-parameters")
	} else {
		var conv []string
		for _, q := range qs {
			conv = append(conv, c14Conv(q))
		}
		vfAssert(skelHas(sq, "params: { "+strings.Join(conv, ", ")+" }"), "C14/exactly-the-declared-query-parameters-converted-to-strings")
	}
	vfAssert(skelHas(sq, "responseType: 'arraybuffer'") == c.IsReturnBlob, "C14/arraybuffer-iff-blob-route")
	vfAssert(skelHas(sq, "return true;") == (c.Return == nil), "C14/returns-true-iff-the-handler-returns-nothing")
	if c.IsReturnBlob {
		vfAssert(skelHas(sq, "blob: rep.data") && skelHas(sq, "filename"), "C14/blob-route-returns-blob-and-file-name")
	} else if c.Return != nil {
		vfAssert(skelHas(sq, "return rep.data;"), "C14/returns-the-response-payload")
	}

	// every parameter the body uses is declared in the signature, and the JSON body and the
	// query object do not share one parameter
	open := strings.Index(text, "async "+c.Name+"(")
	sig := text[open+len("async "+c.Name+"("):]
	sig = sig[:strings.Index(sig, ") {")]
	okSig := true
	if hasBody || len(qs) > 0 {
		okSig = okSig && strings.Contains(sig, "params: ")
	}
	if len(c.InputForm.ValueNames) > 0 {
		okSig = okSig && strings.Contains(sig, "formParams: ")
	}
	if c.InputForm.File != "" {
		okSig = okSig && strings.Contains(sig, "file: File")
	}
	if c.InputForm.JSON.Name != "" {
		okSig = okSig && strings.Contains(sig, "formValue: ")
	}
	vfAssert(okSig, "C14/every-parameter-the-body-uses-is-declared")
	// the keys of the object types of the signature are quoted, or are identifiers (a name may start with a digit)
	okKeys := true
	var keyNames []string
	for _, q := range qs {
		keyNames = append(keyNames, q.name)
	}
	if !hasBody {
		keyNames = append(keyNames, c.InputForm.ValueNames...)
	}
	for _, name := range keyNames {
		if hasBody {
			break // the signature names the body type, not the parameters
		}
		quoted := strings.Contains(sig, fmt.Sprintf("%q: ", name))
		bare := vfAnd(strings.Contains(sig, name+": "), vfNot(vfAnd(name[0] >= '0', name[0] <= '9')))
		okKeys = vfAnd(okKeys, vfOr(quoted, bare))
	}
	vfAssert(okKeys, "C14/signature-keys-are-quoted-or-identifiers")
	vfKnown("C14/json-body-and-query-parameters-share-the-params-argument", hasBody && len(qs) > 0)
	vfAssert(!(hasBody && len(qs) > 0) || strings.Count(sig, "params: ") >= 2 || strings.Contains(sig, "query"), "C14/json-body-and-query-parameters-are-distinct-arguments")
}

// HC14_file: one method per endpoint; every named type a signature mentions is declared exactly
// once in the file.
func HC14_file() {
	pkg := skelPkg()
	n := 1 + vfChoice("endpoints", 2)
	var api []httpapi.Endpoint
	mentions := map[string]bool{}
	for i := 0; i < n; i++ {
		a, qs, _ := c14Endpoint(pkg, fmt.Sprint("e", i, "."))
		a.Contract.Name = fmt.Sprint(a.Contract.Name, i)
		api = append(api, a)
		if a.Contract.InputBody != nil || a.Contract.InputForm.JSON.Name != "" {
			mentions["BodyIn"] = true
		}
		if a.Contract.Return != nil && !a.Contract.IsReturnBlob {
			mentions["Out"] = true
		}
		for _, q := range qs {
			switch q.kind {
			case 0:
				mentions["Int"] = true
			case 4:
				mentions["IdItem"] = true
			}
		}
		if a.Contract.InputBody != nil || a.Contract.InputForm.JSON.Name != "" {
			mentions["Int"] = true // BodyIn has an integer field
		}
	}
	text := GenerateAxios(api)
	vfObserve("len", len(text))
	sq := skelSquash(text)
	vfAssert(skelCount(sq, "\tasync ") == n, "C14/one-method-per-endpoint")
	for _, name := range []string{"BodyIn", "Out", "Int", "IdItem"} {
		if !mentions[name] {
			continue
		}
		decls := skelCount(sq, "export interface "+name+" ") + skelCount(sq, "export type "+name+" ")
		vfAssert(decls == 1, "C14/mentioned-type-declared-exactly-once")
	}
}
