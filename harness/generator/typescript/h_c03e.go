package typescript

import (
	"strings"

	an "github.com/benoitkugler/gomacro/analysis"
	gen "github.com/benoitkugler/gomacro/generator"
)

// c03Parse reads a generated TypeScript file: the declared type names in order (interfaces and
// aliases) and, for each interface, its "prop: type" lines.
func c03Parse(text string) (declared []string, props map[string]map[string]string, alias map[string]string) {
	props, alias = map[string]map[string]string{}, map[string]string{}
	cur := ""
	for _, line := range strings.Split(text, "\n") {
		l := strings.TrimSpace(line)
		if rest, ok := strings.CutPrefix(l, "export interface "); ok {
			name := strings.TrimSpace(strings.TrimSuffix(strings.TrimSpace(rest), "{"))
			declared = append(declared, name)
			props[name] = map[string]string{}
			cur = name
			continue
		}
		if rest, ok := strings.CutPrefix(l, "export type "); ok {
			if i := strings.Index(rest, "="); i >= 0 {
				name := strings.TrimSpace(rest[:i])
				declared = append(declared, name)
				alias[name] = c03Norm(rest[i+1:])
			}
			cur = ""
			continue
		}
		if cur != "" {
			if l == "}" {
				cur = ""
				continue
			}
			if i := strings.Index(l, ":"); i > 0 {
				props[cur][strings.TrimSpace(l[:i])] = c03Norm(l[i+1:])
			}
		}
	}
	return
}

// c03Norm: a type expression without its terminator, white space and redundant parentheses
// (the output is read as the tool writes it, before any formatter).
func c03Norm(expr string) string {
	expr = strings.TrimSpace(expr)
	expr = strings.TrimSuffix(strings.TrimSuffix(expr, ","), ";")
	var out []byte
	for i := 0; i < len(expr); i++ {
		if c := expr[i]; c != ' ' && c != '\t' && c != '(' && c != ')' {
			out = append(out, c)
		}
	}
	return string(out)
}

var c03Builtin = map[string]bool{"Record": true, "Array": true, "Date": true}

// c03TypeNames: the capitalised identifiers of a TypeScript type expression (the user type names).
func c03TypeNames(expr string) []string {
	var out []string
	i := 0
	for i < len(expr) {
		c := expr[i]
		isStart := c == '_' || (c >= 'a' && c <= 'z') || (c >= 'A' && c <= 'Z')
		if !isStart {
			if c == '"' { // skip string literals
				j := i + 1
				for j < len(expr) && expr[j] != '"' {
					j++
				}
				i = j + 1
				continue
			}
			i++
			continue
		}
		j := i
		for j < len(expr) && (expr[j] == '_' || (expr[j] >= 'a' && expr[j] <= 'z') || (expr[j] >= 'A' && expr[j] <= 'Z') || (expr[j] >= '0' && expr[j] <= '9')) {
			j++
		}
		word := expr[i:j]
		if word[0] >= 'A' && word[0] <= 'Z' && !c03Builtin[word] {
			out = append(out, word)
		}
		i = j
	}
	return out
}

type c03Expect struct{ iface, prop, want string }

// generic declarations live in another file of the package (the analysed file holds instantiations only)
const c03Generics = "package p\n\ntype Entry[K comparable, V any] struct {\n\tKey K\n\tVal V\n}\n\ntype Opt[T any] struct {\n\tValid bool\n\tV T\n}\n"

// HC03_e2e: real source packages through the real analysis and the TypeScript generator. The output
// is read back: no type name is declared twice, every user type name used by a property or an alias is
// declared, and the properties hand-listed for the package have the expected TypeScript type — where
// the type is a reference, the interface it names must in turn have the expected properties.
func HC03_e2e() {
	type entry struct {
		src    string
		expect []c03Expect
	}
	catalogue := []entry{
		{ // generic structs with two type parameters, instantiated with permuted arguments
			"type ID int64\n\ntype Board struct {\n\tA Entry[string, int]\n\tB Entry[int, int]\n\tC Entry[int, string]\n\tD Entry[ID, bool]\n\tE Entry[bool, ID]\n}\n",
			[]c03Expect{{"Board.A", "Key", "string"}, {"Board.A", "Val", "Int"}, {"Board.B", "Key", "Int"}, {"Board.B", "Val", "Int"}, {"Board.C", "Key", "Int"}, {"Board.C", "Val", "string"},
				{"Board.D", "Key", "ID"}, {"Board.D", "Val", "boolean"}, {"Board.E", "Key", "boolean"}, {"Board.E", "Val", "ID"}},
		},
		{ // one type parameter, several instantiations
			"type Name string\n\ntype Holder struct {\n\tA Opt[int]\n\tB Opt[string]\n\tC Opt[Name]\n\tD Opt[bool]\n}\n",
			[]c03Expect{{"Holder.A", "V", "Int"}, {"Holder.B", "V", "string"}, {"Holder.C", "V", "Name"}, {"Holder.D", "V", "boolean"}, {"Holder.A", "Valid", "boolean"}},
		},
		{ // embedded structs (exported and unexported type names), tags
			"type base struct {\n\tCreatedBy string\n\tRevision int `json:\"rev\"`\n}\n\ntype Meta struct{ Tags []string }\n\ntype Doc struct {\n\tbase\n\tMeta\n\tTitle string `json:\"title\"`\n\tskip int\n\tHidden int `json:\"-\"`\n}\n\ntype Top struct{ D Doc }\n",
			[]c03Expect{{"Top.D", "CreatedBy", "string"}, {"Top.D", "rev", "Int"}, {"Top.D", "Tags", "string[]|null"}, {"Top.D", "title", "string"}},
		},
		{ // two types whose names differ only by case, an enum and a struct among them
			"type Order struct{ N int }\n\ntype order struct{ S string }\n\ntype Kind int\n\nconst (\n\tK0 Kind = iota\n\tK1\n)\n\ntype kind struct{ B bool }\n\ntype Top struct {\n\tA Order\n\tB order\n\tC Kind\n\tD kind\n}\n",
			[]c03Expect{{"Top.A", "N", "Int"}, {"Top.B", "S", "string"}, {"Top.D", "B", "boolean"}},
		},
	}
	e := catalogue[vfChoice("package", len(catalogue))]
	src := "package p\n\n" + e.src
	pkg := vfTypeCheck("example.com/mod/p", []string{"/m/p/p.go", "/m/p/generics.go"}, []string{src, c03Generics}, nil)
	var text string
	panicked, rt, msg := vfCatch(func() {
		ana := an.NewAnalysisFromFile(pkg, "/m/p/p.go")
		text = gen.WriteDeclarations(Generate(ana))
	})
	vfObserve("outcome", msg)
	vfAssert(!rt && !panicked, "C03/catalogue-is-accepted-by-the-generator")
	if panicked {
		vfStop()
	}
	declared, props, alias := c03Parse(text)
	count := map[string]int{}
	for _, d := range declared {
		count[d]++
	}
	once := true
	for _, d := range declared {
		if count[d] != 1 {
			vfObserve("declared twice", d)
			once = false
		}
	}
	vfAssert(once, "C03/no-type-name-is-declared-twice")
	closed := true
	for _, ps := range props {
		for _, ty := range ps {
			for _, n := range c03TypeNames(ty) {
				closed = closed && count[n] == 1
			}
		}
	}
	for _, ty := range alias {
		if strings.Contains(ty, "typeof") {
			continue // enum aliases refer to their own constant table
		}
		for _, n := range c03TypeNames(ty) {
			closed = closed && count[n] == 1
		}
	}
	vfAssert(closed, "C03/every-used-type-name-is-declared")
	shape := true
	for _, x := range e.expect {
		holder, field, _ := strings.Cut(x.iface, ".")
		ref := props[holder][field] // the name of the interface the field refers to
		got, ok := props[ref][x.prop]
		if !ok || got != x.want {
			vfObserve("mismatch", x.iface+"."+x.prop+" = "+got)
			shape = false
		}
	}
	vfAssert(shape, "C03/properties-have-the-typescript-type-of-the-go-field")
}
