package typescript

import (
	"strings"

	an "github.com/benoitkugler/gomacro/analysis"
	gen "github.com/benoitkugler/gomacro/generator"
)

// HC18_tsAliasDeclarations: a well-typed source file whose top level declarations include alias
// declarations (type A = T, T supported; see c18AliasSource for the class) goes through the real
// analysis and the TypeScript generator: each of them completes or stops with an explicit diagnostic,
// never with a Go runtime error; and when both complete, the struct types the file defines are
// still declared in the output (an alias adds a name, it removes nothing).
func HC18_tsAliasDeclarations() {
	src, structs := c18AliasSource()
	pkg := vfTypeCheck("example.com/mod/p", []string{"/m/p/p.go", "/m/p/generics.go"}, []string{src, c18AliasGenerics}, nil)
	var ana *an.Analysis
	panicked, rt, msg := vfCatch(func() { ana = an.NewAnalysisFromFile(pkg, "/m/p/p.go") })
	vfObserve("analysis", msg)
	vfAssert(!rt, "C18/analysis-of-alias-declarations-no-runtime-error")
	if panicked {
		vfStop()
	}
	var text string
	panicked, rt, msg = vfCatch(func() { text = gen.WriteDeclarations(Generate(ana)) })
	vfObserve("outcome", msg)
	vfAssert(!rt, "C18/typescript-alias-declarations-no-runtime-error")
	if panicked {
		vfStop()
	}
	all := true
	for _, s := range structs {
		all = all && strings.Contains(text, "interface "+s+" ")
	}
	vfAssert(all, "C18/typescript-alias-declarations-structs-still-declared")
}
