package typescript

import (
	gen "github.com/benoitkugler/gomacro/generator"
)

// HC02_tsKind: the TypeScript union type uses Kind/Data with the Go member names.
func HC02_tsKind() {
	u, names := c02KindUnion()
	decls := codeForUnion(u, make(gen.Cache))
	text := decls[len(decls)-1].Content
	vfObserve("text", text)
	text = skelSquash(text)
	for _, nm := range names {
		vfAssert(skelHas(text, "| { Kind : \""+nm+"\", Data: "+nm+"}"), "C02/typescript-union-alternative-has-the-go-member-name-as-kind")
	}
	vfAssert(skelCount(text, "| { Kind :") == len(names), "C02/typescript-one-alternative-per-member")
}
