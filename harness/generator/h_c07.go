package generator

import (
	"fmt"
	"go/types"
)

func c07SameStrings(a, b []string) bool {
	if len(a) != len(b) {
		return false
	}
	ok := true
	for i := range a {
		ok = vfAnd(ok, a[i] == b[i])
	}
	return ok
}

// HC07_cacheImports: the import list derived from the cache does not depend on map iteration
// order (the engine explores every order of every map range; natively the call is repeated).
func HC07_cacheImports() {
	c := Cache{}
	n := vfChoice("n", vfParam("C07.entries", 3)+1)
	for i := 0; i < n; i++ {
		p := types.NewPackage("example.com/"+vfString(fmt.Sprint("path", i), 1, vfParam("C07.path", 2), "alnum"), "p")
		c[types.NewNamed(types.NewTypeName(0, p, "T", nil), types.Typ[types.Int], nil)] = true
	}
	// a predeclared-like type without package is skipped
	c[types.NewNamed(types.NewTypeName(0, nil, "Time", nil), types.Typ[types.Int], nil)] = true
	// reference: one fixed iteration order; then every order of every map range is compared with it
	vfPermuteMaps(false)
	a := c.Imports()
	vfPermuteMaps(true)
	reps := 1
	if !vfEngine() {
		reps = 64
	}
	for r := 0; r < reps; r++ {
		b := c.Imports()
		vfAssert(c07SameStrings(a, b), "C07/import-list-independent-of-map-order")
	}
}
