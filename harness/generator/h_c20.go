package generator

import (
	"fmt"
	"os"
	"sync"
)

// c20Tools: the external tool each format relies on.
var c20Tools = map[Format]string{Go: "goimports", Dart: "dart", TypeScript: "npx", Psql: "pg_format"}

func c20Count(log []string, line string) int {
	n := 0
	for _, l := range log {
		if l == line {
			n++
		}
	}
	return n
}

// HC20_concurrentFormat: N goroutines share one zero Formatters value; which tools exist and
// which runs fail is symbolic, every interleaving at the synchronisation points is explored.
// Commands are identified by tool and by the file they mention, not by their exact flags.
func HC20_concurrentFormat() {
	n := vfParam("C20.threads", 2)
	vfThreads("C20/no-data-race", "C20/no-deadlock")
	present := map[Format]bool{}
	for _, fm := range []Format{Go, Dart, TypeScript, Psql} {
		present[fm] = vfBool(fmt.Sprint("present", fm))
		vfExecSet(c20Tools[fm], "", present[fm]) // the probe: a command of the tool naming no file
	}
	formats := make([]Format, n)
	files := make([]string, n)
	fails := make([]bool, n)
	for i := 0; i < n; i++ {
		formats[i] = Format(vfChoice(fmt.Sprint("format", i), vfParam("C20.formats", 6))) // 0 = NoFormat, 5 = not a format
		if i > 0 {
			vfAssume(formats[i-1] <= formats[i]) // the goroutines run the same code: requests are symmetric
		}
		files[i] = fmt.Sprint("/tmp/vf_c20_file", i, ".out") // absolute: a native run must not write into /repo
		fails[i] = vfBool(fmt.Sprint("runFails", i))
		if tool, ok := c20Tools[formats[i]]; ok {
			vfExecSet(tool, files[i], !fails[i])
		}
	}

	var f Formatters
	var wg sync.WaitGroup
	errs := make([]error, n)
	for i := 0; i < n; i++ {
		wg.Add(1)
		i := i
		go func() {
			defer wg.Done()
			errs[i] = f.FormatFile(formats[i], files[i])
		}()
	}
	wg.Wait()

	log := vfExecLog()
	if !vfEngine() {
		for _, f := range files {
			os.Remove(f)
		}
	}
	for _, fm := range []Format{Go, Dart, TypeScript, Psql} {
		vfAssert(c20Count(log, c20Tools[fm]+"|") <= 1, "C20/each-tool-probed-at-most-once")
	}
	for i := 0; i < n; i++ {
		tool, isFormat := c20Tools[formats[i]]
		touched := 0
		for _, l := range log {
			if len(l) > len(files[i]) && l[len(l)-len(files[i])-1:] == "|"+files[i] {
				touched++
			}
		}
		if !isFormat {
			vfAssert(errs[i] == nil, "C20/no-format-requested-succeeds")
			vfAssert(touched == 0, "C20/no-format-requested-leaves-the-file-untouched")
			continue
		}
		runs := c20Count(log, tool+"|"+files[i])
		if present[formats[i]] {
			vfAssert(runs == 1, "C20/formatter-runs-once-per-request-when-present")
			vfAssert((errs[i] != nil) == fails[i], "C20/failing-run-is-reported-successful-run-is-not")
		} else {
			vfAssert(touched == 0, "C20/absent-tool-leaves-the-file-untouched")
			vfAssert(errs[i] == nil, "C20/absent-tool-request-succeeds")
		}
	}
}

// HC20_freshCache: the probe results belong to the cache, not to the process. A first zero Formatters
// value serves a request; the set of installed tools then changes (any tool may appear or disappear);
// a second, fresh zero value serves a request: it must behave according to the tools present *now*
// (present: the formatter runs once and its failure is reported; absent: success, file untouched), and
// probe the tool at most once itself.
func HC20_freshCache() {
	fm1 := Format(1 + vfChoice("format1", 4))
	fm2 := Format(1 + vfChoice("format2", 4))
	file := "/tmp/vf_c20_fresh.out"
	serve := func(fm Format, round string) {
		present := vfBool("present" + round)
		fails := vfBool("runFails" + round)
		for _, f := range []Format{Go, Dart, TypeScript, Psql} {
			pr := present
			if f != fm {
				pr = vfBool(fmt.Sprint("otherPresent", round, f))
			}
			vfExecSet(c20Tools[f], "", pr)
		}
		vfExecSet(c20Tools[fm], file, !fails)
		var cache Formatters
		err := cache.FormatFile(fm, file)
		log := vfExecLog()
		vfAssert(c20Count(log, c20Tools[fm]+"|") <= 1, "C20/each-tool-probed-at-most-once")
		runs := c20Count(log, c20Tools[fm]+"|"+file)
		if present {
			vfAssert(runs == 1, "C20/a-fresh-cache-runs-the-formatter-that-is-present-now")
			vfAssert((err != nil) == fails, "C20/failing-run-is-reported-successful-run-is-not")
		} else {
			vfAssert(runs == 0, "C20/a-fresh-cache-leaves-the-file-untouched-when-the-tool-is-absent-now")
			vfAssert(err == nil, "C20/absent-tool-request-succeeds")
		}
	}
	serve(fm1, "1")
	vfExecReset()
	serve(fm2, "2")
	vfExecReset()
	if !vfEngine() {
		os.Remove(file)
	}
}
