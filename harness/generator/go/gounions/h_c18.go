package gounions

import (
	"fmt"
	"go/types"

	an "github.com/benoitkugler/gomacro/analysis"
	gen "github.com/benoitkugler/gomacro/generator"
)

// HC18_jsonForUnion: fixed-width slicing of the union name. Any identifier of length >= 1 is a
// legal Go type name.
func HC18_jsonForUnion() {
	pkg := skelPkg()
	name := vfString("union", 1, vfParam("C18.name", 3), "ident")
	named := skelNamed(pkg, name, types.NewInterfaceType(nil, nil))
	var members []an.Type
	nm := 1 + vfChoice("members", 2)
	for i := 0; i < nm; i++ {
		mn := skelNamed(pkg, fmt.Sprint("M", i), types.NewStruct(nil, nil))
		members = append(members, skelStruct(pkg, mn, []skelField{{name: "X", typ: an.Int}}))
	}
	u := an.VfNewUnion(named, members)
	var text string
	rt, msg := skelDiagnostic(func() { text = jsonForUnion(u) })
	vfObserve("outcome", msg)
	vfObserve("text", text)
	vfAssert(!rt, "C18/gounions-no-runtime-error-on-short-union-name")
}

// HC18_gounionsSweep: every type skeleton either generates or is refused explicitly.
func HC18_gounionsSweep() {
	w := newSkelWorld()
	ty := w.anyType("t", vfParam("C18.depth", 2))
	ctx := context{cache: make(gen.Cache), srcPkg: w.pkg}
	rt, msg := skelDiagnostic(func() { ctx.generate(ty) })
	vfObserve("outcome", msg)
	vfAssert(!rt, "C18/gounions-no-runtime-error")
}
