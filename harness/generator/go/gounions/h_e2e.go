package gounions

import (
	"strings"

	an "github.com/benoitkugler/gomacro/analysis"
	gen "github.com/benoitkugler/gomacro/generator"
	"golang.org/x/tools/go/packages"
)

func e2eRealErrors(errs []string) []string {
	var out []string
	for _, e := range errs {
		// the tool runs goimports on its Go output: unused or missing imports are repaired there
		if strings.Contains(e, "imported and not used") {
			continue
		}
		out = append(out, e)
	}
	return out
}

// HC01_gounionsCompiles: the union wrappers generated for a real source package type-check
// together with it (the real go/types is the oracle).
func HC01_gounionsCompiles() {
	holders := []string{
		"type Holder struct {\n\tName string `json:\"name,omitempty\"`\n\tS Shape\n}\n",
		"type Holder struct {\n\tA Shape\n\tB Shape\n\tn int\n}\n",
		"type Holder struct {\n\tL Shapes\n\tM ShapeMap\n}\n",
		"type Holder struct {\n\tS Shape\n\tO Other\n\tInner Inner\n}\n\ntype Inner struct{ S Shape }\n",
		"type Holder struct {\n\tS Shape `gomacro:\"ignore\"`\n\tT Shape\n}\n",
		// types of another package: direct fields, an embedded struct whose fields mention its own named types
		"type Holder struct {\n\tgeo.Base\n\tS Shape\n\tU geo.Unit\n\tP *geo.Base\n\tL []geo.Unit\n}\n",
		"type Holder struct {\n\tLocal\n\tS Shape\n}\n\ntype Local struct {\n\tgeo.Base\n\tM map[geo.Unit]geo.Base\n}\n",
	}
	unionName := []string{"Shape", "S"}[vfChoice("unionName", 2)]
	geo := vfTypeCheck("example.com/mod/geo", []string{"/m/geo/geo.go"}, []string{
		"package geo\n\ntype Unit string\n\ntype Base struct {\n\tUnit Unit `json:\"unit\"`\n\tScale int\n\tKinds []Unit\n}\n"}, nil)
	src := "package p\n\nimport \"example.com/mod/geo\"\n\nvar _ geo.Unit\n\n" +
		[]string{"type Shape interface{ isShape() }\n\ntype Other interface{ isOther() }\n\n" + "type Shapes []Shape\n\ntype ShapeMap map[string]Shape\n\n",
			// the named containers of unions declared above the interfaces
			"type Shapes []Shape\n\ntype ShapeMap map[string]Shape\n\n" + "type Shape interface{ isShape() }\n\ntype Other interface{ isOther() }\n\n",
			// one container only, above the interface (the map type of the holders is then the slice type)
			"type Shapes []Shape\n\ntype ShapeMap = Shapes\n\n" + "type Shape interface{ isShape() }\n\ntype Other interface{ isOther() }\n\n"}[vfChoice("containersFirst", 3)] +
		"type Circle struct{ R int }\n\nfunc (Circle) isShape() {}\nfunc (Circle) isOther() {}\n\n" +
		"type Square struct{ W float64 }\n\nfunc (Square) isShape() {}\n\n" +
		holders[vfChoice("holder", len(holders))]
	src = strings.ReplaceAll(src, "Shape", unionName+"hape")
	pkg := vfTypeCheck("example.com/mod/p", []string{"/m/p/p.go"}, []string{src}, []*packages.Package{geo})
	var text string
	panicked, rt, msg := vfCatch(func() {
		ana := an.NewAnalysisFromFile(pkg, "/m/p/p.go")
		text = gen.WriteDeclarations(Generate(ana))
	})
	vfObserve("outcome", msg)
	vfAssert(!rt, "C01/gounions-generation-no-runtime-error")
	if panicked {
		vfStop()
	}
	// what goimports does for the tool: the import of the other package of the module is added when missing
	if !strings.Contains(text, "\"example.com/mod/geo\"") {
		text = strings.Replace(text, "import \"encoding/json\"", "import \"encoding/json\"\nimport \"example.com/mod/geo\"\n", 1)
	}
	errs := e2eRealErrors(vfTypeErrors("example.com/mod/p", []string{"/m/p/p.go", "/m/p/gen.go"}, []string{src, text}, []*packages.Package{geo}))
	if len(errs) > 0 {
		vfObserve("error", errs[0])
	}
	vfAssert(len(errs) == 0, "C01/generated-union-wrappers-type-check-with-their-source-package")
}
