package gounions

import (
	"fmt"
	"strings"

	an "github.com/benoitkugler/gomacro/analysis"
	gen "github.com/benoitkugler/gomacro/generator"
)

// The generated union wrappers are *executed*: the source package, the generated file and a file
// that builds a value, marshals it, unmarshals the result and inspects the wire are type-checked
// and compiled to SSA inside the engine (vfExec); encoding/json is the engine's model of it
// (engine/jsonmodel.go), validated against the real package by the native twin of every sampled
// path. Integers and strings of the value are symbolic.

const c02Decls = `package p

type Shape interface{ isShape() }

type Circle struct {
	R     int
	Label string ` + "`json:\"label,omitempty\"`" + `
}

func (Circle) isShape() {}

type dot struct{ X int8 }

func (dot) isShape() {}

type Tags []string

func (Tags) isShape() {}

// a member that gets the marker method from an embedded struct (it declares no method itself)
type baseShape struct{}

func (baseShape) isShape() {}

type Derived struct {
	baseShape
	N int
}

type Dict map[string]int

func (Dict) isShape() {}

// an interface refining the union is not a member of it; Sphere belongs to both
type Solid interface {
	Shape
	Volume() int
}

type Sphere struct{ Radius int }

func (Sphere) isShape()    {}
func (Sphere) Volume() int { return 0 }

// a second union sharing a member with the first
type Other interface{ isOther() }

func (Circle) isOther() {}

type Box struct{ W uint8 }

func (Box) isOther() {}

type Shapes []Shape

// a member holding a named slice of its own union (lists inside list items)
type Group struct{ Items Shapes }

func (Group) isShape() {}

type ShapeMap map[string]Shape

type Inner struct {
	S Shape
	N int ` + "`json:\",omitempty\"`" + `
}

// an unexported struct holding a union, reached only as the element of anonymous slices and maps
type inner struct {
	S Shape
	N int
}

type Holder struct {
	Ins    []inner
	InM    map[string]inner
	Name   string ` + "`json:\"name\"`" + `
	Skip   int    ` + "`json:\"-\"`" + `
	hidden int
	S      Shape ` + "`json:\"shape\"`" + `
	O      Other
	V      Solid
	L      Shapes
	M      ShapeMap
	In     Inner
	Last   bool ` + "`json:\"last,omitempty\"`" + `
}
`

const c02Check = `package p

import "encoding/json"

// mkShape builds a member value of Shape and returns the Kind expected on the wire.
func mkShape(tag string) (Shape, string) {
	switch vfChoice(tag, 8) {
	case 0:
		return Circle{R: int(vfInt(tag+".r", 0, 9)), Label: vfString(tag+".label", 0, 2, "alnum")}, "Circle"
	case 1:
		return dot{X: int8(vfInt(tag+".x", 0, 9))}, "dot"
	case 2:
		return Tags(nil), "Tags"
	case 3:
		return Tags{vfString(tag+".t0", 1, 1, "alnum"), ""}, "Tags"
	case 4:
		return Dict(nil), "Dict"
	case 5:
		return Dict{"k": int(vfInt(tag+".k", 0, 9)), "a": 1}, "Dict"
	case 6:
		return Derived{N: int(vfInt(tag+".dn", 0, 9))}, "Derived"
	}
	return Sphere{Radius: int(vfInt(tag+".radius", 0, 9))}, "Sphere"
}

type wireUnion struct {
	Kind string
	Data json.RawMessage
}

// wireOK: doc is {"Kind": kind, "Data": <the member's own JSON>} and nothing else.
func wireOK(doc json.RawMessage, member any, kind string) bool {
	var fields map[string]json.RawMessage
	if err := json.Unmarshal(doc, &fields); err != nil || len(fields) != 2 {
		return false
	}
	var u wireUnion
	if err := json.Unmarshal(doc, &u); err != nil {
		return false
	}
	own, err := json.Marshal(member)
	if err != nil {
		return false
	}
	return vfAnd(u.Kind == kind, string(u.Data) == string(own))
}

func Check() {
	// one component varies at a time (focus), the others hold a fixed member value
	focus := vfChoice("focus", 5)
	var v Holder
	var kindS, kindIn, kindL, kindM string
	v.Name = "n"
	v.S, kindS = Circle{R: 1}, "Circle"
	v.O = Box{W: 2}
	v.V = Sphere{Radius: 3}
	v.In.S, kindIn = dot{X: 4}, "dot"
	switch focus {
	case 0:
		v.S, kindS = mkShape("s")
	case 1:
		v.Name = vfString("name", 0, 2, "alnum")
		if vfChoice("o", 2) == 0 {
			v.O = Circle{R: int(vfInt("o.r", 0, 9))}
		} else {
			v.O = Box{W: uint8(vfInt("o.w", 0, 9))}
		}
		v.V = Sphere{Radius: int(vfInt("v.radius", 0, 9))}
		v.Last = vfBool("last")
	case 2:
		switch vfChoice("l", 4) {
		case 3: // a list whose first item holds a longer list
			v.L = Shapes{Group{Items: Shapes{dot{X: 1}, dot{X: 2}, dot{X: int8(vfInt("l.deep", 0, 9))}}}, dot{X: 4}, Sphere{Radius: 5}, Group{Items: Shapes{dot{X: 6}}}}
		case 1:
			v.L = Shapes{}
		case 2:
			var m Shape
			m, kindL = mkShape("l0")
			v.L = Shapes{m, dot{X: 1}}
		}
	case 3:
		switch vfChoice("m", 3) {
		case 1:
			v.M = ShapeMap{}
		case 2:
			var m Shape
			m, kindM = mkShape("m0")
			v.M = ShapeMap{"b": m, "a": Sphere{Radius: 2}}
		}
	default:
		v.In.S, kindIn = mkShape("in")
		v.In.N = int(vfInt("in.n", 0, 9))
		if vfBool("ins") {
			m, _ := mkShape("ins0")
			v.Ins = []inner{{S: m, N: 1}, {S: dot{X: 2}}}
			v.InM = map[string]inner{"k": {S: Sphere{Radius: 1}}}
		}
	}

	var data []byte
	var err error
	panicked, _, msg := vfCatch(func() { data, err = json.Marshal(v) })
	vfObserve("marshal", msg)
	vfAssert(!panicked && err == nil, "C02/marshalling-a-value-holding-member-values-succeeds")
	if panicked || err != nil {
		return
	}
	vfObserve("wire", string(data))
	var back Holder
	err = json.Unmarshal(data, &back)
	vfAssert(err == nil, "C02/unmarshalling-the-result-succeeds")
	vfAssert(vfDeepEqual(v, back), "C02/round-trip-yields-a-deeply-equal-value")

	// the wire: keys of the original struct (tags included), union values as Kind/Data objects
	var fields map[string]json.RawMessage
	err = json.Unmarshal(data, &fields)
	vfAssert(err == nil, "C02/the-document-is-an-object")
	want := []string{"Ins", "InM", "name", "shape", "O", "V", "L", "M", "In"}
	if v.Last {
		want = append(want, "last")
	}
	keysOK := len(fields) == len(want)
	for _, k := range want {
		_, has := fields[k]
		keysOK = keysOK && has
	}
	vfAssert(keysOK, "C02/other-fields-keep-the-key-encoding-json-gives-them")
	name, _ := json.Marshal(v.Name)
	vfAssert(string(fields["name"]) == string(name), "C02/other-fields-keep-the-encoding-encoding-json-gives-them")
	vfAssert(wireOK(fields["shape"], v.S, kindS), "C02/union-value-is-kind-data-with-the-go-member-name")
	kindO := "Box"
	if _, isCircle := v.O.(Circle); isCircle {
		kindO = "Circle"
	}
	vfAssert(wireOK(fields["O"], v.O, kindO), "C02/union-value-is-kind-data-with-the-go-member-name")
	vfAssert(wireOK(fields["V"], v.V, "Sphere"), "C02/union-value-is-kind-data-with-the-go-member-name")
	var in map[string]json.RawMessage
	json.Unmarshal(fields["In"], &in)
	vfAssert(wireOK(in["S"], v.In.S, kindIn), "C02/union-value-is-kind-data-with-the-go-member-name")
	_, hasN := in["N"]
	vfAssert(hasN == (v.In.N != 0), "C02/other-fields-keep-the-key-encoding-json-gives-them")
	if len(v.L) == 2 {
		var l []json.RawMessage
		json.Unmarshal(fields["L"], &l)
		vfAssert(len(l) == 2 && wireOK(l[0], v.L[0], kindL) && wireOK(l[1], v.L[1], "dot"), "C02/named-slice-of-unions-is-an-array-of-kind-data-objects")
	}
	if len(v.M) == 2 {
		var m map[string]json.RawMessage
		json.Unmarshal(fields["M"], &m)
		vfAssert(len(m) == 2 && wireOK(m["b"], v.M["b"], kindM) && wireOK(m["a"], v.M["a"], "Sphere"), "C02/named-map-of-unions-is-an-object-of-kind-data-objects")
	}
}
`

// HC02_exec: JSON round trip and wire format of the generated wrappers, by executing them.
func HC02_exec() {
	pkg := vfTypeCheck("example.com/mod/p", []string{"/m/p/p.go"}, []string{c02Decls}, nil)
	var text string
	panicked, _, msg := vfCatch(func() {
		ana := an.NewAnalysisFromFile(pkg, "/m/p/p.go")
		text = gen.WriteDeclarations(Generate(ana))
	})
	vfObserve("generation", msg)
	vfAssert(!panicked, "C02/catalogue-is-accepted-by-the-generator")
	if panicked {
		vfStop()
	}
	errs := vfExec("example.com/mod/p", []string{"/m/p/p.go", "/m/p/gen.go", "/m/p/check.go"}, []string{c02Decls, text, strings.ReplaceAll(c02Check, ", 0, 2, \"alnum\")", fmt.Sprintf(", 0, %d, \"alnum\")", vfParam("C02.strlen", 2)))}, nil, "Check")
	if len(errs) > 0 {
		vfObserve("error", errs[0])
	}
	vfAssert(len(errs) == 0, "C02/generated-file-compiles-with-its-source-package")
}
