package gounions

import (
	"go/types"
	"strings"

	an "github.com/benoitkugler/gomacro/analysis"
	gen "github.com/benoitkugler/gomacro/generator"
)

func c01KindNames(text string) []string {
	var out []string
	for _, line := range strings.Split(text, "\n") {
		line = strings.TrimSpace(line)
		if i := strings.Index(line, "Kind = "); i > 0 && !strings.Contains(line[:i], " ") {
			out = append(out, line[:i+4])
		}
	}
	return out
}

// HC01_kindConstants: the Kind constants declared for two unions of one package never collide
// (a duplicated constant does not compile), in particular when the unions share a member.
func HC01_kindConstants() {
	pkg := skelPkg()
	n1 := vfString("union1", 1, vfParam("C01.union", 3), "Ident")
	n2 := vfString("union2", 1, vfParam("C01.union", 3), "Ident")
	vfAssume(n1 != n2)
	m := skelStruct(pkg, skelNamed(pkg, "Member", types.NewStruct(nil, nil)), []skelField{{name: "X", typ: an.Int}})
	other := skelStruct(pkg, skelNamed(pkg, "Other", types.NewStruct(nil, nil)), []skelField{{name: "Y", typ: an.Int}})
	u1 := an.VfNewUnion(skelNamed(pkg, n1, types.NewInterfaceType(nil, nil)), []an.Type{m, other})
	members2 := []an.Type{m}
	if vfChoice("shared", 2) == 0 {
		members2 = []an.Type{other}
	}
	u2 := an.VfNewUnion(skelNamed(pkg, n2, types.NewInterfaceType(nil, nil)), members2)
	ctx := context{cache: make(gen.Cache), srcPkg: pkg}
	var names []string
	for _, d := range append(ctx.generate(u1), ctx.generate(u2)...) {
		names = append(names, c01KindNames(d.Content)...)
	}
	vfObserve("kinds", names)
	distinct := true
	for i := range names {
		for j := 0; j < i; j++ {
			distinct = vfAnd(distinct, names[i] != names[j])
		}
	}
	pre := func(s string) string {
		if len(s) > 2 {
			return s[:2]
		}
		return s
	}
	vfKnown("C01/gounions-unions-sharing-a-member-and-their-first-two-letters", pre(n1) == pre(n2))
	vfAssert(distinct, "C01/kind-constants-are-distinct-across-unions")
}
