package gounions

import (
	"fmt"
	"go/types"
	"strings"

	an "github.com/benoitkugler/gomacro/analysis"
	gen "github.com/benoitkugler/gomacro/generator"
)

func c02Union(pkg *types.Package, uname string, memberNames []string) *an.Union {
	var members []an.Type
	for _, n := range memberNames {
		members = append(members, skelStruct(pkg, skelNamed(pkg, n, types.NewStruct(nil, nil)), []skelField{{name: "X", typ: an.Int}}))
	}
	return an.VfNewUnion(skelNamed(pkg, uname, types.NewInterfaceType(nil, nil)), members)
}

// HC02_shadowStruct: the wrapper struct used to (un)marshal a struct holding a union keeps every
// field, under its name, with its type (the union replaced by its wrapper) and with its struct
// tag, so that every non-union field keeps the key encoding/json gives it on the original struct.
func HC02_shadowStruct() {
	pkg := skelPkg()
	u := c02Union(pkg, "Shape", []string{"Circle", "Square"})
	n := 1 + vfChoice("plain", vfParam("C02.fields", 2))
	var fields []skelField
	for i := 0; i < n; i++ {
		f := skelField{name: vfString(fmt.Sprint("name", i), 1, vfParam("C02.name", 2), "ident"), typ: []an.Type{an.Int, an.String}[vfChoice(fmt.Sprint("type", i), 2)]}
		for _, o := range fields {
			vfAssume(o.name != f.name)
		}
		vfAssume(f.name != "U") // the union field of the skeleton
		f.hasTag = vfChoice(fmt.Sprint("hasTag", i), 2) == 1
		if f.hasTag {
			f.tag = vfString(fmt.Sprint("tag", i), 1, vfParam("C02.tag", 2), "alnum")
			if vfChoice(fmt.Sprint("omitempty", i), 2) == 1 {
				f.tag += ",omitempty"
			}
		}
		fields = append(fields, f)
	}
	unionAt := vfChoice("unionAt", n+1)
	uf := skelField{name: "U", typ: u}
	all := append(append(append([]skelField{}, fields[:unionAt]...), uf), fields[unionAt:]...)
	st := skelStruct(pkg, skelNamed(pkg, "Holder", types.NewStruct(nil, nil)), all)
	ctx := context{cache: make(gen.Cache), srcPkg: pkg}
	decls := ctx.codeForStruct(st)
	text := decls[len(decls)-1].Content
	vfObserve("text", text)
	vfAssert(decls[len(decls)-1].ID == "Holder_json", "C02/struct-holding-a-union-gets-json-methods")

	// the two wrapper struct definitions (Marshal and Unmarshal)
	count := strings.Count(text, "type wrapper struct {")
	vfAssert(count == 2, "C02/wrapper-struct-declared-in-both-methods")
	rest := text
	for k := 0; k < count; k++ {
		i := strings.Index(rest, "type wrapper struct {")
		body := rest[i+len("type wrapper struct {"):]
		end := strings.Index(body, "}")
		rest = body[end:]
		body = body[:end]
		lines := []string{}
		for _, l := range strings.Split(body, "\n") {
			if t := strings.TrimSpace(l); t != "" {
				lines = append(lines, t)
			}
		}
		vfAssert(len(lines) == len(all), "C02/wrapper-struct-has-one-field-per-original-field")
		if len(lines) != len(all) {
			continue
		}
		for fi, f := range all {
			line := lines[fi]
			wantType := "int"
			if f.typ == an.Type(an.String) {
				wantType = "string"
			}
			if f.name == "U" {
				wantType = "ShapeWrapper"
			}
			vfAssert(strings.HasPrefix(line, f.name+" "+wantType), "C02/wrapper-field-has-the-original-name-and-type")
			if f.hasTag {
				vfAssert(strings.Contains(line, "`json:\""+f.tag+"\"`"), "C02/wrapper-field-keeps-the-original-struct-tag")
			}
		}
	}
	// both directions assign every field
	for _, f := range all {
		if f.name == "U" {
			vfAssert(strings.Contains(text, "U: ShapeWrapper{item.U},") && strings.Contains(text, "item.U = wr.U.Data"), "C02/union-field-goes-through-its-wrapper")
		} else {
			vfAssert(strings.Contains(text, f.name+": item."+f.name+",") && strings.Contains(text, "item."+f.name+" = wr."+f.name), "C02/every-field-is-copied-in-both-directions")
		}
	}
}

// HC02_unionWireFormat: {"Kind": <Go name of the member>, "Data": ...}, one case per member.
func HC02_unionWireFormat() {
	pkg := skelPkg()
	n := 1 + vfChoice("members", 2)
	var names []string
	for i := 0; i < n; i++ {
		nm := vfString(fmt.Sprint("member", i), 1, vfParam("C02.member", 2), "ident") // exported or not
		for _, o := range names {
			vfAssume(o != nm)
		}
		names = append(names, nm)
	}
	u := c02Union(pkg, "Shape", names)
	text := jsonForUnion(u)
	vfObserve("text", text)
	text = skelSquash(text)
	vfAssert(skelHas(text, "Kind string") && skelHas(text, "Data json.RawMessage") && skelHas(text, "Data any"), "C02/wire-object-has-kind-and-data")
	for _, nm := range names {
		vfAssert(skelHas(text, "case \""+nm+"\":\n\t\t\tvar data "+nm), "C02/unmarshal-dispatches-on-the-go-name-of-the-member")
		vfAssert(skelHas(text, "case "+nm+":\n\t\t\twr = wrapper{Kind: \""+nm+"\", Data: data}"), "C02/marshal-writes-the-go-name-of-the-member-as-kind")
	}
	vfAssert(skelCount(text, "wr = wrapper{Kind:") == n && skelCount(text, "err = json.Unmarshal(wr.Data, &data)") == n, "C02/one-case-per-member")
}
