package sqlcrud

import (
	"strings"

	an "github.com/benoitkugler/gomacro/analysis"
	gen "github.com/benoitkugler/gomacro/generator"
	"golang.org/x/tools/go/packages"
)

const e2ePq = `package pq

import (
	"database/sql/driver"
	"time"
)

type Int64Array []int64

func (a *Int64Array) Scan(src interface{}) error  { return nil }
func (a Int64Array) Value() (driver.Value, error) { return nil, nil }

type Int32Array []int32

func (a *Int32Array) Scan(src interface{}) error  { return nil }
func (a Int32Array) Value() (driver.Value, error) { return nil, nil }

type BoolArray []bool

func (a *BoolArray) Scan(src interface{}) error  { return nil }
func (a BoolArray) Value() (driver.Value, error) { return nil, nil }

type Float64Array []float64

func (a *Float64Array) Scan(src interface{}) error  { return nil }
func (a Float64Array) Value() (driver.Value, error) { return nil, nil }

type StringArray []string

func (a *StringArray) Scan(src interface{}) error  { return nil }
func (a StringArray) Value() (driver.Value, error) { return nil, nil }

type NullTime struct {
	Time  time.Time
	Valid bool
}

func (nt *NullTime) Scan(value interface{}) error { return nil }
func (nt NullTime) Value() (driver.Value, error)  { return nil, nil }

func CopyIn(table string, columns ...string) string { return "" }
`

// HC01_sqlcrudCompiles: the CRUD file generated for a real source package of table structs
// type-checks together with it (real go/types as oracle; a stand-in for github.com/lib/pq; the
// imports goimports would add are supplied).
func HC01_sqlcrudCompiles() {
	pqPath := strings.Trim(pqImportPath, `"`)
	pq := vfTypeCheck(pqPath, []string{"/m/pq/pq.go"}, []string{e2ePq}, nil)
	tables := []string{
		// primary table with a foreign key, a unique constraint and a select key
		"type IdItem int64\n\ntype IdOwner int64\n\n// gomacro:SQL ADD UNIQUE(Name)\n// gomacro:SQL _SELECT KEY(Owner)\ntype Item struct {\n\tId IdItem\n\tName string\n\tOwner IdOwner\n\tTags []string\n}\n\ntype Owner struct {\n\tId IdOwner\n}\n",
		// primary key spelled ID, not first; guard field; JSON column
		"type IdItem int64\n\ntype Meta struct {\n\tA int\n\tS string\n}\n\ntype Item struct {\n\tGuard int `gomacro-sql-guard:\"1\"`\n\tName string\n\tID IdItem\n\tMeta Meta\n}\n",
		// link table with a nullable foreign key and a custom query
		"type IdA int64\n\ntype OptB struct {\n\tValid bool\n\tInt64 int64\n}\n\n// gomacro:QUERY RemoveOld DELETE FROM Link WHERE IdA = $a$ AND Flag = $f$\ntype Link struct {\n\tIdA IdA\n\tB OptB `gomacro-sql-foreign:\"B\"`\n\tFlag bool\n}\n\ntype A struct {\n\tId IdA\n\tName string\n}\n\ntype B struct {\n\tId int64\n\tName string\n}\n",
		// enum, fixed array, composite and time columns
		// a table whose only column is its primary key
		"type Solo struct{ Id int64 }\n",
		"type Level int\n\nconst (\n\tLow Level = iota\n\tHigh\n)\n\ntype Pair struct{ X, Y int }\n\ntype Stamp time.Time\n\ntype Item struct {\n\tId int64\n\tL Level\n\tLs []Level\n\tFix [3]int\n\tP Pair\n\tAt Stamp\n}\n\nvar _ time.Time\n",
		// named slices and arrays over integer enums of every width, named basics and basics
		"type Weekday uint8\n\nconst (\n\tMon Weekday = iota\n\tTue\n)\n\ntype Weekdays []Weekday\n\ntype Small int16\n\nconst (\n\tS0 Small = iota\n\tS1\n)\n\ntype Smalls []Small\n\ntype Big int64\n\nconst (\n\tB0 Big = iota\n\tB1\n)\n\ntype Bigs []Big\n\ntype Wide uint\n\nconst W0 Wide = 0\n\ntype Wides [2]Wide\n\ntype Flags []bool\n\ntype Names []string\n\ntype Ints []int32\n\ntype Longs []int64\n\ntype Fix3 [3]int16\n\ntype Item struct {\n\tId int64\n\tDays Weekdays\n\tSs Smalls\n\tBs Bigs\n\tWs Wides\n\tF Flags\n\tN Names\n\tI Ints\n\tL Longs\n\tX Fix3\n}\n",
		// composite columns (structs of integers) whose fields are enums backed by int, uint8, int64 and plain integers
		"type Prio int\n\nconst (\n\tP0 Prio = iota\n\tP1\n)\n\ntype Tiny uint8\n\nconst T0 Tiny = 0\n\ntype Wide int64\n\nconst W0 Wide = 0\n\ntype Comp struct {\n\tA int\n\tP Prio\n\tT Tiny\n\tW Wide\n\tB int16\n}\n\ntype Item struct {\n\tId int64\n\tC Comp\n}\n",
		// column types (named array, composite, JSON struct, nullable id) shared by two tables
		"type Tags []string\n\ntype Pos struct{ X, Y int }\n\ntype Meta struct {\n\tA int\n\tS string\n}\n\ntype IdOwner int64\n\ntype OptOwner struct {\n\tValid bool\n\tId IdOwner\n}\n\ntype Owner struct {\n\tId IdOwner\n\tName string\n}\n\ntype First struct {\n\tId int64\n\tT Tags\n\tP Pos\n\tM Meta\n\tO OptOwner `gomacro-sql-foreign:\"Owner\"`\n}\n\ntype Second struct {\n\tId int64\n\tT Tags\n\tP Pos\n\tM Meta\n\tO OptOwner `gomacro-sql-foreign:\"Owner\"`\n}\n",
	}
	k := vfChoice("tables", len(tables))
	imports := ""
	if k == 4 {
		imports = "import \"time\"\n\n"
	}
	src := "package p\n\n" + imports + tables[k]
	pkg := vfTypeCheck("example.com/mod/p", []string{"/m/p/p.go"}, []string{src}, nil)
	var text string
	panicked, rt, msg := vfCatch(func() {
		ana := an.NewAnalysisFromFile(pkg, "/m/p/p.go")
		text = gen.WriteDeclarations(Generate(ana, vfChoice("sets", 2) == 1))
	})
	vfObserve("outcome", msg)
	vfAssert(!rt, "C01/sqlcrud-generation-no-runtime-error")
	if panicked {
		vfStop()
	}
	// what goimports does for the tool: add the standard imports the file needs
	text = strings.Replace(text, "import (", "import (\n\"database/sql/driver\"\n\"encoding/json\"\n\"errors\"\n\"fmt\"\n\"strconv\"\n\"strings\"\n\"time\"\n", 1)
	var errs []string
	for _, e := range vfTypeErrors("example.com/mod/p", []string{"/m/p/p.go", "/m/p/gen.go"}, []string{src, text}, []*packages.Package{pq}) {
		if strings.Contains(e, "imported and not used") || strings.Contains(e, "could not import example.com/mod/p ") {
			continue
		}
		errs = append(errs, e)
	}
	if len(errs) > 0 {
		vfObserve("error", errs[0])
	}
	vfKnown("C01/table-whose-only-column-is-the-primary-key", k == 3)
	vfAssert(len(errs) == 0, "C01/generated-crud-code-type-checks-with-its-source-package")
}
