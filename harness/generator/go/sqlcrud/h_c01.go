package sqlcrud

import (
	"go/types"
	"strings"

	an "github.com/benoitkugler/gomacro/analysis"
	"golang.org/x/tools/go/packages"
)

// HC01_primaryAccessor: the generated map/lookup code reads the primary key through the field
// the struct really has (ID, Id, ...): any other selector does not compile.
func HC01_primaryAccessor() {
	pkg := skelPkg()
	named := skelNamed(pkg, "Item", types.NewStruct(nil, nil))
	idName := []string{"Id", "ID", "ID_"}[vfChoice("idname", 2)]
	idT := an.VfNewNamed(skelNamed(pkg, "IdItem", types.Typ[types.Int64]), &an.Basic{B: types.Typ[types.Int64]})
	fields := []skelField{{name: "Name", typ: an.String}, {name: idName, typ: idT}}
	if vfChoice("fk", 2) == 1 {
		fields = append(fields, skelField{name: "Other", typ: an.VfNewNamed(skelNamed(pkg, "IdOther", types.Typ[types.Int64]), &an.Basic{B: types.Typ[types.Int64]})})
	}
	st := skelStruct(pkg, named, fields)
	ana := &an.Analysis{Pkg: &packages.Package{PkgPath: pkg.Path(), Types: pkg}, Types: map[types.Type]an.Type{named: st}, Source: []types.Type{named}}
	text := skelDeclsText(Generate(ana, false))
	// every selector on a value of the table type names a field of the struct
	ok := true
	for _, recv := range []string{"s.", "target.", "item."} {
		from := 0
		for {
			i := strings.Index(text[from:], recv)
			if i < 0 {
				break
			}
			p := from + i
			from = p + len(recv)
			if p > 0 {
				c := text[p-1]
				if c == '_' || (c >= 'a' && c <= 'z') || (c >= 'A' && c <= 'Z') || (c >= '0' && c <= '9') || c == '.' {
					continue // part of a longer identifier
				}
			}
			j := from
			for j < len(text) && (text[j] == '_' || (text[j] >= 'a' && text[j] <= 'z') || (text[j] >= 'A' && text[j] <= 'Z') || (text[j] >= '0' && text[j] <= '9')) {
				j++
			}
			sel := text[from:j]
			if sel == "" || (j < len(text) && text[j] == '(') {
				continue // method call
			}
			isField := false
			for _, f := range fields {
				isField = isField || f.name == sel
			}
			if !isField {
				vfObserve("bad-selector", recv+sel)
			}
			ok = ok && isField
		}
	}
	vfAssert(ok, "C01/selectors-on-table-values-name-existing-fields")
}
