package sqlcrud

import (
	"fmt"
	"go/types"
	"strings"

	an "github.com/benoitkugler/gomacro/analysis"
	gen "github.com/benoitkugler/gomacro/generator"
	"golang.org/x/tools/go/packages"
)

// HC01_primaryAccessor: the generated map/lookup code reads the primary key through the field
// the struct really has (ID, Id, ...): any other selector does not compile.
func HC01_primaryAccessor() {
	pkg := skelPkg()
	named := skelNamed(pkg, "Item", types.NewStruct(nil, nil))
	idName := []string{"Id", "ID", "ID_"}[vfChoice("idname", 2)]
	idT := an.VfNewNamed(skelNamed(pkg, "IdItem", types.Typ[types.Int64]), &an.Basic{B: types.Typ[types.Int64]})
	fields := []skelField{{name: "Name", typ: an.String}, {name: idName, typ: idT}}
	if vfChoice("fk", 2) == 1 {
		fields = append(fields, skelField{name: "Other", typ: an.VfNewNamed(skelNamed(pkg, "IdOther", types.Typ[types.Int64]), &an.Basic{B: types.Typ[types.Int64]})})
	}
	st := skelStruct(pkg, named, fields)
	ana := &an.Analysis{Pkg: &packages.Package{PkgPath: pkg.Path(), Types: pkg}, Types: map[types.Type]an.Type{named: st}, Source: []types.Type{named}}
	text := skelDeclsText(Generate(ana, false))
	// every selector on a value of the table type names a field of the struct
	ok := true
	for _, recv := range []string{"s.", "target.", "item."} {
		from := 0
		for {
			i := strings.Index(text[from:], recv)
			if i < 0 {
				break
			}
			p := from + i
			from = p + len(recv)
			if p > 0 {
				c := text[p-1]
				if c == '_' || (c >= 'a' && c <= 'z') || (c >= 'A' && c <= 'Z') || (c >= '0' && c <= '9') || c == '.' {
					continue // part of a longer identifier
				}
			}
			j := from
			for j < len(text) && (text[j] == '_' || (text[j] >= 'a' && text[j] <= 'z') || (text[j] >= 'A' && text[j] <= 'Z') || (text[j] >= '0' && text[j] <= '9')) {
				j++
			}
			sel := text[from:j]
			if sel == "" || (j < len(text) && text[j] == '(') {
				continue // method call
			}
			isField := false
			for _, f := range fields {
				isField = isField || f.name == sel
			}
			if !isField {
				vfObserve("bad-selector", recv+sel)
			}
			ok = ok && isField
		}
	}
	vfAssert(ok, "C01/selectors-on-table-values-name-existing-fields")
}

func c01IsIdent(s string) bool {
	if s == "" {
		return false
	}
	for i := 0; i < len(s); i++ {
		c := s[i]
		if !(c == '_' || (c >= 'a' && c <= 'z') || (c >= 'A' && c <= 'Z') || (i > 0 && c >= '0' && c <= '9')) {
			return false
		}
	}
	return true
}

// HC01_sqlcrudDecls: every function and type the CRUD file declares has an identifier as name and
// is declared once, whatever package the ID types of the foreign keys come from.
func HC01_sqlcrudDecls() {
	pkg := skelPkg()
	foreign := types.NewPackage("other.org/lib/ids", "ids")
	named := skelNamed(pkg, "Item", types.NewStruct(nil, nil))
	idT := an.VfNewNamed(skelNamed(pkg, "IdItem", types.Typ[types.Int64]), &an.Basic{B: types.Typ[types.Int64]})
	fields := []skelField{{name: "Id", typ: idT}}
	nfk := 1 + vfChoice("fks", 2)
	for i := 0; i < nfk; i++ {
		p := pkg
		if vfChoice(fmt.Sprint("foreign", i), 2) == 1 {
			p = foreign
		}
		var ft an.Type
		switch vfChoice(fmt.Sprint("fkkind", i), 3) {
		case 0: // named int64 ID type
			ft = an.VfNewNamed(skelNamed(p, fmt.Sprint("IdOwner", i), types.Typ[types.Int64]), &an.Basic{B: types.Typ[types.Int64]})
		case 1: // plain int64 with a tag
			ft = &an.Basic{B: types.Typ[types.Int64]}
		default: // nullable wrapper
			valid := types.NewField(0, p, "Valid", types.Typ[types.Bool], false)
			data := types.NewField(0, p, "Int64", types.Typ[types.Int64], false)
			nn := skelNamed(p, fmt.Sprint("OptID", i), types.NewStruct([]*types.Var{valid, data}, nil))
			ft = &an.Struct{Name: nn, Fields: []an.StructField{{Type: an.Bool, Field: valid}, {Type: &an.Basic{B: types.Typ[types.Int64]}, Field: data}}}
		}
		f := skelField{name: fmt.Sprint("Owner", i), typ: ft}
		if _, isNamed := ft.(*an.Named); !isNamed {
			f.extra = ` gomacro-sql-foreign:"Owner"`
		}
		fields = append(fields, f)
	}
	st := skelStruct(pkg, named, fields)
	if vfChoice("unique", 2) == 1 {
		st.Comments = append(st.Comments, an.SpecialComment{Kind: an.CommentSQL, Content: "ADD UNIQUE(Owner0)"})
	}
	ana := &an.Analysis{Pkg: &packages.Package{PkgPath: pkg.Path(), Types: pkg}, Types: map[types.Type]an.Type{named: st}, Source: []types.Type{named}}
	text := gen.WriteDeclarations(Generate(ana, vfChoice("sets", 2) == 1))
	seen := map[string]int{}
	okIdent := true
	for _, line := range strings.Split(text, "\n") {
		line = strings.TrimSpace(line)
		for _, kw := range []string{"func ", "type "} {
			if !strings.HasPrefix(line, kw) {
				continue
			}
			rest := line[len(kw):]
			if strings.HasPrefix(rest, "(") { // method: func (recv T) Name(
				rest = rest[strings.Index(rest, ")")+1:]
				rest = strings.TrimSpace(rest)
				name := rest[:strings.IndexAny(rest, "( ")]
				okIdent = okIdent && c01IsIdent(name)
				continue
			}
			end := strings.IndexAny(rest, "( ")
			if end < 0 {
				continue
			}
			name := rest[:end]
			if !c01IsIdent(name) {
				vfObserve("bad-name", name)
			}
			okIdent = okIdent && c01IsIdent(name)
			seen[kw+name]++
		}
	}
	vfAssert(okIdent, "C01/declared-functions-and-types-have-identifier-names")
	once := true
	for k, n := range seen {
		if n != 1 {
			vfObserve("declared-twice", k)
		}
		once = once && n == 1
	}
	vfAssert(once, "C01/no-function-or-type-declared-twice-in-the-crud-file")
}
