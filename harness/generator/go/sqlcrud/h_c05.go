package sqlcrud

import (
	"fmt"
	"go/types"
	"strings"

	an "github.com/benoitkugler/gomacro/analysis"
	"github.com/benoitkugler/gomacro/analysis/sql"
	gen "github.com/benoitkugler/gomacro/generator"
	gensql "github.com/benoitkugler/gomacro/generator/sql"
	"golang.org/x/tools/go/packages"
)

func c05Lower(s string) string {
	out := make([]byte, len(s))
	for i := 0; i < len(s); i++ {
		c := s[i]
		if vfAnd(c >= 'A', c <= 'Z') {
			c += 32
		}
		out[i] = c
	}
	return string(out)
}

// HC05_columnsCode: the parallel lists used by every statement speak of the same columns in the
// same order; placeholders are $1..$n; guards are excluded everywhere; the NoPrimary lists are the
// same lists without the primary column.
func HC05_columnsCode() {
	pkg := skelPkg()
	named := skelNamed(pkg, "Item", types.NewStruct(nil, nil))
	nc := 1 + vfChoice("cols", vfParam("C05.cols", 3))
	var fields []skelField
	for i := 0; i < nc; i++ {
		f := skelField{name: vfString(fmt.Sprint("name", i), 1, vfParam("C05.name", 2), "Ident"), typ: an.Int}
		for _, o := range fields {
			vfAssume(c05Lower(o.name) != c05Lower(f.name)) // SQL column names are case-insensitive
		}
		if vfChoice(fmt.Sprint("guard", i), 2) == 1 {
			f.extra = ` gomacro-sql-guard:"1"`
		}
		fields = append(fields, f)
	}
	st := skelStruct(pkg, named, fields)
	ta := sql.NewTable(st)
	code := newColumnsCode(ta)

	// reference
	primary := -1
	for i, f := range fields {
		if primary < 0 && vfFork(c05Lower(f.name) == "id") {
			primary = i
		}
	}
	var scan, val, quoted, names, ph, valNP, namesNP, phNP []string
	for i, f := range fields {
		if f.extra != "" {
			continue
		}
		scan = append(scan, "&item."+f.name+",")
		val = append(val, "item."+f.name)
		quoted = append(quoted, `"`+c05Lower(f.name)+`",`)
		names = append(names, c05Lower(f.name))
		ph = append(ph, fmt.Sprint("$", len(ph)+1))
		if i != primary {
			valNP = append(valNP, "item."+f.name)
			namesNP = append(namesNP, c05Lower(f.name))
			phNP = append(phNP, fmt.Sprint("$", len(phNP)+1))
		}
	}
	vfObserve("names", code.sqlColumnNames)
	ok := code.goScanFields == strings.Join(scan, "\n")
	ok = vfAnd(ok, code.goValueFields == strings.Join(val, ", "))
	ok = vfAnd(ok, code.sqlQuotedColumnNames == strings.Join(quoted, "\n"))
	ok = vfAnd(ok, code.sqlColumnNames == strings.Join(names, ", "))
	ok = vfAnd(ok, code.sqlPlaceholders == strings.Join(ph, ", "))
	vfAssert(ok, "C05/parallel-column-lists-are-aligned-placeholders-1-to-n")
	okNP := code.goValueFieldsNoPrimary == strings.Join(valNP, ", ")
	okNP = vfAnd(okNP, code.sqlColumnNamesNoPrimary == strings.Join(namesNP, ", "))
	okNP = vfAnd(okNP, code.sqlPlaceholdersNoPrimary == strings.Join(phNP, ", "))
	vfAssert(okNP, "C05/no-primary-lists-are-the-same-lists-without-the-primary-column")
	vfAssert(code.columnsCount == len(names), "C05/columns-count-is-the-number-of-non-guard-columns")
}

// ---- statement-level checks on the generated Go text (concrete names, enumerated shapes)

type c05Call struct {
	sql  string
	args int
}

// c05Calls extracts every call <recv>.Query/QueryRow/Exec("sql" or `sql`, args...) of the text.
func c05Calls(text string) []c05Call {
	var out []c05Call
	for _, m := range []string{".QueryRow(", ".Query(", ".Exec("} {
		from := 0
		for {
			i := strings.Index(text[from:], m)
			if i < 0 {
				break
			}
			p := from + i + len(m)
			from = p
			for p < len(text) && (text[p] == ' ' || text[p] == '\n' || text[p] == '\t') {
				p++
			}
			if p >= len(text) || (text[p] != '"' && text[p] != '`') {
				continue // stmt.Exec(values...) and the like: no SQL literal
			}
			q := text[p]
			e := p + 1
			for e < len(text) && text[e] != q {
				e++
			}
			c := c05Call{sql: text[p+1 : e]}
			// arguments up to the closing parenthesis of the call
			depth, k := 0, e+1
			cur := ""
			for k < len(text) {
				ch := text[k]
				if ch == '(' {
					depth++
				}
				if ch == ')' {
					if depth == 0 {
						break
					}
					depth--
				}
				if ch == ',' && depth == 0 {
					if strings.TrimSpace(cur) != "" {
						c.args++
					}
					cur = ""
				} else {
					cur += string(ch)
				}
				k++
			}
			if strings.TrimSpace(cur) != "" {
				c.args++
			}
			out = append(out, c)
		}
	}
	return out
}

// c05Placeholders returns the set of $k numbers of an SQL text as a sorted list without duplicates.
func c05Placeholders(s string) []int {
	seen := map[int]bool{}
	max := 0
	for i := 0; i < len(s); i++ {
		if s[i] == '$' {
			n, j := 0, i+1
			for j < len(s) && s[j] >= '0' && s[j] <= '9' {
				n = n*10 + int(s[j]-'0')
				j++
			}
			if j > i+1 {
				seen[n] = true
				if n > max {
					max = n
				}
			}
		}
	}
	var out []int
	for k := 1; k <= max; k++ {
		if seen[k] {
			out = append(out, k)
		}
	}
	if len(out) != len(seen) {
		return append(out, -1) // a $0 or a gap marker
	}
	return out
}

func c05Words(s string) []string {
	return strings.FieldsFunc(s, func(r rune) bool {
		return !(r == '_' || (r >= '0' && r <= '9') || (r >= 'a' && r <= 'z') || (r >= 'A' && r <= 'Z'))
	})
}

// c05Table: a table shape chosen structurally; names are concrete.
func c05Table() (*an.Analysis, *an.Struct, []string) {
	pkg := skelPkg()
	named := skelNamed(pkg, "Item", types.NewStruct(nil, nil))
	idOther := an.VfNewNamed(skelNamed(pkg, "IdOther", types.Typ[types.Int64]), &an.Basic{B: types.Typ[types.Int64]})
	var fields []skelField
	hasPrimary := vfChoice("primary", 2) == 1
	if hasPrimary {
		fields = append(fields, skelField{name: []string{"Id", "ID"}[vfChoice("idname", 2)], typ: an.VfNewNamed(skelNamed(pkg, "IdItem", types.Typ[types.Int64]), &an.Basic{B: types.Typ[types.Int64]})})
	}
	extras := []skelField{
		{name: "Name", typ: an.String},
		{name: "Other", typ: idOther},
		{name: "Guard", typ: an.Int, extra: ` gomacro-sql-guard:"1"`},
		{name: "Flag", typ: an.Bool},
	}
	mask := vfChoice("extras", 16)
	for i, e := range extras {
		if mask&(1<<i) != 0 {
			fields = append(fields, e)
		}
	}
	vfAssume(len(fields) > 0)
	st := skelStruct(pkg, named, fields)
	if vfChoice("unique", 2) == 1 && mask&2 != 0 {
		st.Comments = append(st.Comments, an.SpecialComment{Kind: an.CommentSQL, Content: "ADD UNIQUE(Other)"})
	}
	switch sk := vfChoice("selectkey", 3); {
	case sk == 1 && mask&1 != 0:
		st.Comments = append(st.Comments, an.SpecialComment{Kind: an.CommentSQL, Content: "_SELECT KEY(Name)"})
	case sk == 2 && mask&2 != 0: // a select key made of one foreign key column (it is not a UNIQUE constraint)
		st.Comments = append(st.Comments, an.SpecialComment{Kind: an.CommentSQL, Content: "_SELECT KEY(Other)"})
	}
	ana := &an.Analysis{Pkg: &packages.Package{PkgPath: pkg.Path(), Types: pkg}, Types: map[types.Type]an.Type{named: st}, Source: []types.Type{named}}
	var cols []string
	for _, f := range fields {
		cols = append(cols, strings.ToLower(f.name))
	}
	return ana, st, cols
}

// HC05_statements: every generated statement carries as many $n placeholders as arguments,
// numbered 1..n, and names only the table and the columns of the generated schema.
func HC05_statements() {
	ana, st, cols := c05Table()
	text := skelDeclsText(Generate(ana, false))
	schema := skelDeclsText(gensql.Generate(ana))
	table := gen.SQLTableName(sql.TableName(st.Name.Obj().Name()))

	// the schema creates that table with those columns (PostgreSQL folds unquoted identifiers)
	vfAssert(strings.Contains(schema, "CREATE TABLE "+table+" ("), "C05/schema-creates-the-table-the-crud-code-uses")
	isCol := map[string]bool{"id": false}
	for _, c := range cols {
		isCol[c] = true
	}
	sqlWords := map[string]bool{}
	for _, w := range strings.Fields("select from where insert into values returning update set delete any and or is null not in on conflict do nothing " +
		"limit offset order by asc desc group having count as join left right inner outer cross distinct exists true false default like ilike between " +
		"using case when then else end coalesce all union except intersect with for share nulls first last cast int bigint text boolean") {
		sqlWords[w] = true
	}
	calls := c05Calls(text)
	vfObserve("calls", len(calls)) // (the header is not observed: the package's own test files override the pq import path)
	for _, c := range calls {
		vfObserve("sql", c.sql)
		vfObserve("args", c.args)
	}
	vfAssert(len(calls) >= 2, "C05/statements-found")
	okPH, okNames := true, true
	for _, c := range calls {
		ph := c05Placeholders(c.sql)
		okPH = okPH && len(ph) == c.args && (len(ph) == 0 || ph[len(ph)-1] == len(ph))
		for _, w := range c05Words(c.sql) {
			lw := strings.ToLower(w)
			if sqlWords[lw] || (lw[0] >= '0' && lw[0] <= '9') {
				continue
			}
			okNames = okNames && (w == table || isCol[lw])
		}
	}
	vfAssert(okPH, "C05/as-many-placeholders-as-arguments-numbered-1-to-n")
	// a guard column is left out of every statement: the schema must give it its default and its check
	if isCol["guard"] {
		vfAssert(strings.Contains(schema, "ALTER TABLE "+table+" ALTER COLUMN Guard SET DEFAULT 1;") && strings.Contains(schema, "ALTER TABLE "+table+" ADD CHECK(Guard = 1);"),
			"C05/guard-columns-omitted-by-the-crud-code-get-their-default-from-the-schema")
	}
	// the select-one-by-foreign-key function (item, found, err) relies on a UNIQUE constraint of the schema
	if isCol["other"] {
		hasUnique := false
		for _, c := range st.Comments {
			hasUnique = hasUnique || c.Content == "ADD UNIQUE(Other)"
		}
		vfAssert(strings.Contains(text, "func SelectItemByOther(tx DB,") == hasUnique, "C05/select-one-by-foreign-key-exists-iff-the-schema-declares-it-unique")
	}
	vfAssert(okNames, "C05/statements-name-only-the-table-and-its-columns")
}

// ---- three-valued evaluation of a generated WHERE condition on symbolic values

type c05Val struct {
	null bool
	v    int64
}

type c05TV struct{ t, f bool } // true / false; neither = unknown

type c05Parser struct {
	toks []string
	pos  int
	cols map[string]c05Val // column values of the row
	args []c05Val          // $1, $2, ...
}

func c05Tokens(s string) []string {
	var out []string
	i := 0
	for i < len(s) {
		c := s[i]
		switch {
		case c == ' ' || c == '\n' || c == '\t':
			i++
		case c == '(' || c == ')' || c == '=':
			out = append(out, string(c))
			i++
		default:
			j := i
			for j < len(s) && s[j] != ' ' && s[j] != '\n' && s[j] != '\t' && s[j] != '(' && s[j] != ')' && s[j] != '=' {
				j++
			}
			out = append(out, s[i:j])
			i = j
		}
	}
	return out
}

func (p *c05Parser) peek() string {
	if p.pos < len(p.toks) {
		return p.toks[p.pos]
	}
	return ""
}

func (p *c05Parser) operand() c05Val {
	t := p.toks[p.pos]
	p.pos++
	if t[0] == '$' {
		n := 0
		for _, ch := range t[1:] {
			n = n*10 + int(ch-'0')
		}
		return p.args[n-1]
	}
	v, ok := p.cols[strings.ToLower(t)]
	if !ok {
		panic("unknown column in condition: " + t)
	}
	return v
}

func (p *c05Parser) factor() c05TV {
	if p.peek() == "(" {
		p.pos++
		r := p.expr()
		if p.peek() != ")" {
			panic("missing ) in condition")
		}
		p.pos++
		return r
	}
	a := p.operand()
	if strings.ToUpper(p.peek()) == "IS" {
		p.pos += 2 // IS NULL
		return c05TV{t: a.null, f: !a.null}
	}
	if p.peek() != "=" {
		panic("unsupported operator in condition: " + p.peek())
	}
	p.pos++
	b := p.operand()
	known := vfAnd(!a.null, !b.null)
	return c05TV{t: vfAnd(known, a.v == b.v), f: vfAnd(known, a.v != b.v)}
}

func (p *c05Parser) term() c05TV {
	r := p.factor()
	for strings.ToUpper(p.peek()) == "AND" {
		p.pos++
		s := p.factor()
		r = c05TV{t: vfAnd(r.t, s.t), f: vfOr(r.f, s.f)}
	}
	return r
}

func (p *c05Parser) expr() c05TV {
	r := p.term()
	for strings.ToUpper(p.peek()) == "OR" {
		p.pos++
		s := p.term()
		r = c05TV{t: vfOr(r.t, s.t), f: vfAnd(r.f, s.f)}
	}
	return r
}

// HC05_linkDelete: the Delete statement of a link table removes exactly the rows whose foreign
// keys equal those of the item, a NULL key matching only NULL (SQL three-valued logic), for
// every value of the row and of the item.
func HC05_linkDelete() {
	pkg := skelPkg()
	named := skelNamed(pkg, "Link", types.NewStruct(nil, nil))
	idA := an.VfNewNamed(skelNamed(pkg, "IdA", types.Typ[types.Int64]), &an.Basic{B: types.Typ[types.Int64]})
	// nullable key: struct {Valid bool; Int64 int64} with a foreign tag
	valid := types.NewField(0, pkg, "Valid", types.Typ[types.Bool], false)
	data := types.NewField(0, pkg, "Int64", types.Typ[types.Int64], false)
	nn := skelNamed(pkg, "OptID", types.NewStruct([]*types.Var{valid, data}, nil))
	opt := &an.Struct{Name: nn, Fields: []an.StructField{{Type: an.Bool, Field: valid}, {Type: &an.Basic{B: types.Typ[types.Int64]}, Field: data}}}
	fields := []skelField{{name: "IdA", typ: idA}}
	nullableFirst := vfChoice("nullableFirst", 2) == 1
	optField := skelField{name: "Opt", typ: opt, extra: ` gomacro-sql-foreign:"B"`}
	if nullableFirst {
		fields = []skelField{optField, fields[0]}
	} else {
		fields = append(fields, optField)
	}
	if vfChoice("extra", 2) == 1 {
		fields = append(fields, skelField{name: "Note", typ: an.String})
	}
	st := skelStruct(pkg, named, fields)
	ana := &an.Analysis{Pkg: &packages.Package{PkgPath: pkg.Path(), Types: pkg}, Types: map[types.Type]an.Type{named: st}, Source: []types.Type{named}}
	text := skelDeclsText(Generate(ana, false))
	i := strings.Index(text, "DELETE FROM links WHERE ")
	vfAssert(i >= 0, "C05/link-table-has-a-delete-statement")
	if i < 0 {
		return
	}
	rest := text[i+len("DELETE FROM links WHERE "):]
	end := strings.Index(rest, ";")
	cond := rest[:end]
	argText := rest[end:]
	argText = argText[strings.Index(argText, ",")+1:]
	argText = argText[:strings.Index(argText, ")")]
	vfObserve("cond", cond)
	vfObserve("args", argText)

	// symbolic row and item
	row := map[string]c05Val{
		"ida": {v: vfInt("row.ida", -2, 2)},
		"opt": {null: vfBool("row.opt.null"), v: vfInt("row.opt", -2, 2)},
	}
	item := map[string]c05Val{
		"ida": {v: vfInt("item.ida", -2, 2)},
		"opt": {null: vfBool("item.opt.null"), v: vfInt("item.opt", -2, 2)},
	}
	var args []c05Val
	for _, a := range strings.Split(argText, ",") {
		a = strings.TrimSpace(a)
		vfAssert(strings.HasPrefix(a, "item."), "C05/delete-arguments-are-item-fields")
		args = append(args, item[strings.ToLower(strings.TrimPrefix(a, "item."))])
	}
	p := &c05Parser{toks: c05Tokens(cond), cols: row, args: args}
	got := p.expr()
	// reference: every foreign key equal, NULL matching only NULL
	same := func(a, b c05Val) bool {
		return vfOr(vfAnd(a.null, b.null), vfAnd(vfAnd(!a.null, !b.null), a.v == b.v))
	}
	want := vfAnd(same(row["ida"], item["ida"]), same(row["opt"], item["opt"]))
	vfAssert(got.t == want, "C05/link-delete-removes-exactly-the-rows-with-the-same-keys")
}

// HC05_linkDeleteUnique: link tables written as real source, with two or three non-nullable foreign
// keys and an optional UNIQUE directive on one of them: the Delete statement removes exactly the rows
// whose keys all equal those of the item (condition evaluated on symbolic rows, as in HC05_linkDelete),
// with placeholders numbered 1..n for n arguments.
func HC05_linkDeleteUnique() {
	unique := vfChoice("unique", 4) // none, IdA, IdB, IdC
	three := vfChoice("keys", 2) == 1
	comment := ""
	switch unique {
	case 1:
		comment = "// gomacro:SQL ADD UNIQUE(IdA)\n"
	case 2:
		comment = "// gomacro:SQL ADD UNIQUE(IdB)\n"
	case 3:
		if !three {
			vfStop()
		}
		comment = "// gomacro:SQL ADD UNIQUE(IdC)\n"
	}
	third := ""
	if three {
		third = "\tIdC IdC\n"
	}
	src := "package p\n\ntype IdA int64\n\ntype IdB int64\n\ntype IdC int64\n\n" + comment +
		"type Link struct {\n\tIdA IdA\n\tIdB IdB\n" + third + "\tNote string\n}\n\ntype A struct{ Id IdA }\n\ntype B struct{ Id IdB }\n\ntype C struct{ Id IdC }\n"
	pkg := vfTypeCheck("example.com/mod/p", []string{"/m/p/p.go"}, []string{src}, nil)
	ana := an.NewAnalysisFromFile(pkg, "/m/p/p.go")
	text := skelDeclsText(Generate(ana, false))
	i := strings.Index(text, "DELETE FROM links WHERE ")
	vfAssert(i >= 0, "C05/link-table-has-a-delete-statement")
	if i < 0 {
		return
	}
	rest := text[i+len("DELETE FROM links WHERE "):]
	end := strings.Index(rest, ";")
	cond := rest[:end]
	argText := rest[end:]
	argText = argText[strings.Index(argText, ",")+1:]
	argText = argText[:strings.Index(argText, ")")]
	vfObserve("cond", cond)
	vfObserve("args", argText)
	keys := []string{"ida", "idb"}
	if three {
		keys = append(keys, "idc")
	}
	row, item := map[string]c05Val{}, map[string]c05Val{}
	for _, k := range keys {
		row[k] = c05Val{v: vfInt("row."+k, -2, 2)}
		item[k] = c05Val{v: vfInt("item."+k, -2, 2)}
	}
	var args []c05Val
	for _, a := range strings.Split(argText, ",") {
		a = strings.TrimSpace(a)
		v, ok := item[strings.ToLower(strings.TrimPrefix(a, "item."))]
		vfAssert(strings.HasPrefix(a, "item.") && ok, "C05/delete-arguments-are-foreign-keys-of-the-item")
		args = append(args, v)
	}
	ph := c05Placeholders(cond)
	numbered := len(ph) == len(args)
	for k, n := range ph {
		numbered = numbered && n == k+1
	}
	vfAssert(numbered, "C05/placeholders-are-numbered-1..n-for-n-arguments")
	if !numbered {
		return
	}
	p := &c05Parser{toks: c05Tokens(cond), cols: row, args: args}
	got := p.expr()
	want := true
	for _, k := range keys {
		want = vfAnd(want, row[k].v == item[k].v)
	}
	vfAssert(got.t == want, "C05/link-delete-removes-exactly-the-rows-with-the-same-keys")
}

// HC05_selectKeys: a table with one to three _SELECT KEY directives (one or two columns each): every
// directive yields its own select and delete functions, named after its columns in order, whose
// condition compares exactly those columns with $1..$n and whose arguments are those columns' variables.
func HC05_selectKeys() {
	pkg := skelPkg()
	named := skelNamed(pkg, "Item", types.NewStruct(nil, nil))
	colNames := []string{"Name", "Age", "Town", "Zip", "Rank"}
	fields := []skelField{{name: "Id", typ: &an.Basic{B: types.Typ[types.Int64]}}}
	for i, c := range colNames {
		ty := an.Type(an.Int)
		if i%2 == 0 {
			ty = an.String
		}
		fields = append(fields, skelField{name: c, typ: ty})
	}
	st := skelStruct(pkg, named, fields)
	keySets := [][]string{{"Name"}, {"Name", "Age"}, {"Town", "Zip"}, {"Rank"}, {"Zip", "Rank"}}
	nk := 1 + vfChoice("keys", 3)
	var keys [][]string
	for i := 0; i < nk; i++ {
		k := keySets[vfChoice(fmt.Sprint("key", i), len(keySets))]
		for _, o := range keys {
			vfAssume(strings.Join(o, ",") != strings.Join(k, ","))
		}
		keys = append(keys, k)
		st.Comments = append(st.Comments, an.SpecialComment{Kind: an.CommentSQL, Content: "_SELECT KEY(" + strings.Join(k, ", ") + ")"})
	}
	ana := &an.Analysis{Pkg: &packages.Package{PkgPath: pkg.Path(), Types: pkg}, Types: map[types.Type]an.Type{named: st}, Source: []types.Type{named}}
	text := skelDeclsText(Generate(ana, false))
	ok := true
	for _, k := range keys {
		title := strings.Join(k, "And")
		var cmp, vars []string
		for i, c := range k {
			cmp = append(cmp, fmt.Sprint(c, " = $", i+1))
			vars = append(vars, gen.ToLowerFirst(c))
		}
		for _, verb := range []string{"Select", "Delete"} {
			head := "func " + verb + "ItemsBy" + title + "(tx DB, "
			n := strings.Count(text, head)
			if n != 1 {
				vfObserve("functions", fmt.Sprint(verb, "ItemsBy", title, " declared ", n, " times"))
				ok = false
				continue
			}
			body := text[strings.Index(text, head):]
			body = body[:strings.Index(body, "\n\t\t}")]
			ok = ok && strings.Contains(body, " WHERE "+strings.Join(cmp, " AND ")) && strings.Contains(body, "\", "+strings.Join(vars, ", ")+")")
		}
	}
	vfAssert(ok, "C05/every-select-key-has-its-own-functions-comparing-its-own-columns")
	vfAssert(strings.Count(text, "func SelectItemsBy") == len(keys) && strings.Count(text, "func DeleteItemsBy")-strings.Count(text, "func DeleteItemsByIDs(") == len(keys), "C05/no-other-by-key-function")
}

// HC05_composite: a composite column (a struct of integers, some fields unexported, hidden from JSON
// or ignored): the CREATE TYPE of the schema, the record written by Value() and the record read by
// Scan() have the same number of fields, read at the indices 0..n-1.
func HC05_composite() {
	variants := []string{
		"type Position struct {\n\tX int\n\tY int\n\tZ int\n}\n",
		"type Position struct {\n\tX int\n\tside int\n\tZ int\n}\n",
		"type Position struct {\n\tX int\n\tHidden int `json:\"-\"`\n\tZ int `gomacro:\"ignore\"`\n\tW int\n}\n",
		"type Position struct {\n\tonly int\n}\n",
	}
	src := "package p\n\n" + variants[vfChoice("composite", len(variants))] + "\ntype Item struct {\n\tId int64\n\tP Position\n}\n"
	pkg := vfTypeCheck("example.com/mod/p", []string{"/m/p/p.go"}, []string{src}, nil)
	var text, schema string
	panicked, rt, msg := vfCatch(func() {
		ana := an.NewAnalysisFromFile(pkg, "/m/p/p.go")
		text = skelDeclsText(Generate(ana, false))
		schema = skelDeclsText(gensql.Generate(ana))
	})
	vfObserve("outcome", msg)
	vfAssert(!rt, "C05/composite-generation-no-runtime-error")
	if panicked {
		vfStop()
	}
	// the schema
	i := strings.Index(schema, "CREATE TYPE ")
	vfAssert(i >= 0, "C05/composite-type-is-created-by-the-schema")
	if i < 0 {
		return
	}
	decl := schema[i:]
	decl = decl[strings.Index(decl, "(")+1 : strings.Index(decl, ");")]
	nSchema := len(strings.Split(decl, ","))
	// Value()
	v := text[strings.Index(text, "func (s Position) Value()"):]
	v = v[:strings.Index(v, "\n\t\t\t}")]
	nPlaceholders := strings.Count(v, "%d")
	nSelectors := strings.Count(v, "s.")
	// Scan()
	sc := text[strings.Index(text, "func (s *Position) Scan("):]
	sc = sc[:strings.Index(sc, "func (s Position) Value()")]
	okScan := strings.Contains(sc, fmt.Sprint("len(fields) != ", nSchema))
	for k := 0; k < nSchema; k++ {
		okScan = okScan && strings.Count(sc, fmt.Sprint("fields[", k, "]")) == 1
	}
	okScan = okScan && !strings.Contains(sc, fmt.Sprint("fields[", nSchema, "]"))
	vfObserve("counts", fmt.Sprint(nSchema, " ", nPlaceholders, " ", nSelectors))
	vfAssert(nPlaceholders == nSchema && nSelectors == nSchema, "C05/composite-value-writes-one-value-per-field-of-the-sql-type")
	vfAssert(okScan, "C05/composite-scan-reads-one-value-per-field-of-the-sql-type")
}
