package sqlcrud

import (
	"fmt"
	"go/types"
	"strings"

	an "github.com/benoitkugler/gomacro/analysis"
	"github.com/benoitkugler/gomacro/analysis/sql"
	gen "github.com/benoitkugler/gomacro/generator"
	gensql "github.com/benoitkugler/gomacro/generator/sql"
	"golang.org/x/tools/go/packages"
)

func c05Lower(s string) string {
	out := make([]byte, len(s))
	for i := 0; i < len(s); i++ {
		c := s[i]
		if vfAnd(c >= 'A', c <= 'Z') {
			c += 32
		}
		out[i] = c
	}
	return string(out)
}

// HC05_columnsCode: the parallel lists used by every statement speak of the same columns in the
// same order; placeholders are $1..$n; guards are excluded everywhere; the NoPrimary lists are the
// same lists without the primary column.
func HC05_columnsCode() {
	pkg := skelPkg()
	named := skelNamed(pkg, "Item", types.NewStruct(nil, nil))
	nc := 1 + vfChoice("cols", vfParam("C05.cols", 3))
	var fields []skelField
	for i := 0; i < nc; i++ {
		f := skelField{name: vfString(fmt.Sprint("name", i), 1, vfParam("C05.name", 2), "Ident"), typ: an.Int}
		for _, o := range fields {
			vfAssume(c05Lower(o.name) != c05Lower(f.name)) // SQL column names are case-insensitive
		}
		if vfChoice(fmt.Sprint("guard", i), 2) == 1 {
			f.extra = ` gomacro-sql-guard:"1"`
		}
		fields = append(fields, f)
	}
	st := skelStruct(pkg, named, fields)
	ta := sql.NewTable(st)
	code := newColumnsCode(ta)

	// reference
	primary := -1
	for i, f := range fields {
		if primary < 0 && vfFork(c05Lower(f.name) == "id") {
			primary = i
		}
	}
	var scan, val, quoted, names, ph, valNP, namesNP, phNP []string
	for i, f := range fields {
		if f.extra != "" {
			continue
		}
		scan = append(scan, "&item."+f.name+",")
		val = append(val, "item."+f.name)
		quoted = append(quoted, `"`+c05Lower(f.name)+`",`)
		names = append(names, c05Lower(f.name))
		ph = append(ph, fmt.Sprint("$", len(ph)+1))
		if i != primary {
			valNP = append(valNP, "item."+f.name)
			namesNP = append(namesNP, c05Lower(f.name))
			phNP = append(phNP, fmt.Sprint("$", len(phNP)+1))
		}
	}
	vfObserve("names", code.sqlColumnNames)
	ok := code.goScanFields == strings.Join(scan, "\n")
	ok = vfAnd(ok, code.goValueFields == strings.Join(val, ", "))
	ok = vfAnd(ok, code.sqlQuotedColumnNames == strings.Join(quoted, "\n"))
	ok = vfAnd(ok, code.sqlColumnNames == strings.Join(names, ", "))
	ok = vfAnd(ok, code.sqlPlaceholders == strings.Join(ph, ", "))
	vfAssert(ok, "C05/parallel-column-lists-are-aligned-placeholders-1-to-n")
	okNP := code.goValueFieldsNoPrimary == strings.Join(valNP, ", ")
	okNP = vfAnd(okNP, code.sqlColumnNamesNoPrimary == strings.Join(namesNP, ", "))
	okNP = vfAnd(okNP, code.sqlPlaceholdersNoPrimary == strings.Join(phNP, ", "))
	vfAssert(okNP, "C05/no-primary-lists-are-the-same-lists-without-the-primary-column")
	vfAssert(code.columnsCount == len(names), "C05/columns-count-is-the-number-of-non-guard-columns")
}

// ---- statement-level checks on the generated Go text (concrete names, enumerated shapes)

type c05Call struct {
	sql  string
	args int
}

// c05Calls extracts every call <recv>.Query/QueryRow/Exec("sql" or `sql`, args...) of the text.
func c05Calls(text string) []c05Call {
	var out []c05Call
	for _, m := range []string{".QueryRow(", ".Query(", ".Exec("} {
		from := 0
		for {
			i := strings.Index(text[from:], m)
			if i < 0 {
				break
			}
			p := from + i + len(m)
			from = p
			for p < len(text) && (text[p] == ' ' || text[p] == '\n' || text[p] == '\t') {
				p++
			}
			if p >= len(text) || (text[p] != '"' && text[p] != '`') {
				continue // stmt.Exec(values...) and the like: no SQL literal
			}
			q := text[p]
			e := p + 1
			for e < len(text) && text[e] != q {
				e++
			}
			c := c05Call{sql: text[p+1 : e]}
			// arguments up to the closing parenthesis of the call
			depth, k := 0, e+1
			cur := ""
			for k < len(text) {
				ch := text[k]
				if ch == '(' {
					depth++
				}
				if ch == ')' {
					if depth == 0 {
						break
					}
					depth--
				}
				if ch == ',' && depth == 0 {
					if strings.TrimSpace(cur) != "" {
						c.args++
					}
					cur = ""
				} else {
					cur += string(ch)
				}
				k++
			}
			if strings.TrimSpace(cur) != "" {
				c.args++
			}
			out = append(out, c)
		}
	}
	return out
}

// c05Placeholders returns the set of $k numbers of an SQL text as a sorted list without duplicates.
func c05Placeholders(s string) []int {
	seen := map[int]bool{}
	max := 0
	for i := 0; i < len(s); i++ {
		if s[i] == '$' {
			n, j := 0, i+1
			for j < len(s) && s[j] >= '0' && s[j] <= '9' {
				n = n*10 + int(s[j]-'0')
				j++
			}
			if j > i+1 {
				seen[n] = true
				if n > max {
					max = n
				}
			}
		}
	}
	var out []int
	for k := 1; k <= max; k++ {
		if seen[k] {
			out = append(out, k)
		}
	}
	if len(out) != len(seen) {
		return append(out, -1) // a $0 or a gap marker
	}
	return out
}

func c05Words(s string) []string {
	return strings.FieldsFunc(s, func(r rune) bool {
		return !(r == '_' || (r >= '0' && r <= '9') || (r >= 'a' && r <= 'z') || (r >= 'A' && r <= 'Z'))
	})
}

// c05Table: a table shape chosen structurally; names are concrete.
func c05Table() (*an.Analysis, *an.Struct, []string) {
	pkg := skelPkg()
	named := skelNamed(pkg, "Item", types.NewStruct(nil, nil))
	idOther := an.VfNewNamed(skelNamed(pkg, "IdOther", types.Typ[types.Int64]), &an.Basic{B: types.Typ[types.Int64]})
	var fields []skelField
	hasPrimary := vfChoice("primary", 2) == 1
	if hasPrimary {
		fields = append(fields, skelField{name: []string{"Id", "ID"}[vfChoice("idname", 2)], typ: an.VfNewNamed(skelNamed(pkg, "IdItem", types.Typ[types.Int64]), &an.Basic{B: types.Typ[types.Int64]})})
	}
	extras := []skelField{
		{name: "Name", typ: an.String},
		{name: "Other", typ: idOther},
		{name: "Guard", typ: an.Int, extra: ` gomacro-sql-guard:"1"`},
		{name: "Flag", typ: an.Bool},
	}
	mask := vfChoice("extras", 16)
	for i, e := range extras {
		if mask&(1<<i) != 0 {
			fields = append(fields, e)
		}
	}
	vfAssume(len(fields) > 0)
	st := skelStruct(pkg, named, fields)
	if vfChoice("unique", 2) == 1 && mask&2 != 0 {
		st.Comments = append(st.Comments, an.SpecialComment{Kind: an.CommentSQL, Content: "ADD UNIQUE(Other)"})
	}
	if vfChoice("selectkey", 2) == 1 && mask&1 != 0 {
		st.Comments = append(st.Comments, an.SpecialComment{Kind: an.CommentSQL, Content: "_SELECT KEY(Name)"})
	}
	ana := &an.Analysis{Pkg: &packages.Package{PkgPath: pkg.Path(), Types: pkg}, Types: map[types.Type]an.Type{named: st}, Source: []types.Type{named}}
	var cols []string
	for _, f := range fields {
		cols = append(cols, strings.ToLower(f.name))
	}
	return ana, st, cols
}

// HC05_statements: every generated statement carries as many $n placeholders as arguments,
// numbered 1..n, and names only the table and the columns of the generated schema.
func HC05_statements() {
	ana, st, cols := c05Table()
	text := skelDeclsText(Generate(ana, false))
	schema := skelDeclsText(gensql.Generate(ana))
	table := gen.SQLTableName(sql.TableName(st.Name.Obj().Name()))

	// the schema creates that table with those columns (PostgreSQL folds unquoted identifiers)
	vfAssert(strings.Contains(schema, "CREATE TABLE "+table+" ("), "C05/schema-creates-the-table-the-crud-code-uses")
	isCol := map[string]bool{"id": false}
	for _, c := range cols {
		isCol[c] = true
	}
	sqlWords := map[string]bool{"select": true, "from": true, "where": true, "insert": true, "into": true, "values": true, "returning": true,
		"update": true, "set": true, "delete": true, "any": true, "and": true, "or": true, "is": true, "null": true}
	calls := c05Calls(text)
	vfObserve("calls", len(calls)) // (the header is not observed: the package's own test files override the pq import path)
	for _, c := range calls {
		vfObserve("sql", c.sql)
		vfObserve("args", c.args)
	}
	vfAssert(len(calls) >= 2, "C05/statements-found")
	okPH, okNames := true, true
	for _, c := range calls {
		ph := c05Placeholders(c.sql)
		okPH = okPH && len(ph) == c.args && (len(ph) == 0 || ph[len(ph)-1] == len(ph))
		for _, w := range c05Words(c.sql) {
			lw := strings.ToLower(w)
			if sqlWords[lw] || (lw[0] >= '0' && lw[0] <= '9') {
				continue
			}
			okNames = okNames && (w == table || isCol[lw])
		}
	}
	vfAssert(okPH, "C05/as-many-placeholders-as-arguments-numbered-1-to-n")
	vfAssert(okNames, "C05/statements-name-only-the-table-and-its-columns")
}
