package sqlcrud

import (
	"fmt"
	"strings"

	an "github.com/benoitkugler/gomacro/analysis"
	gen "github.com/benoitkugler/gomacro/generator"
	"golang.org/x/tools/go/packages"
)

// ---- the generated CRUD functions are executed against a table held in memory (map model)
//
// The generated file is run by vfExec together with the declarations it was generated from. Its
// import of database/sql is redirected to the stand-in below (rows held in memory; Scan assigns a
// column value to a basic destination or hands it to the destination's own Scan method, which is
// what database/sql's convertAssign does for these destination types); lib/pq is the stand-in of
// HC01_sqlcrudCompiles. encoding/json is the engine's model in the engine and the real package in
// the native twin.

const c05iSQL = `package sql

import "errors"

var ErrNoRows = errors.New("sql: no rows in result set")

type Scanner interface {
	Scan(src interface{}) error
}

type Result interface {
	LastInsertId() (int64, error)
	RowsAffected() (int64, error)
}

type Stmt struct{}

func (s *Stmt) Exec(args ...interface{}) (Result, error) { return nil, nil }
func (s *Stmt) Close() error                             { return nil }

type Tx struct{}

func (tx *Tx) Prepare(query string) (*Stmt, error) { return &Stmt{}, nil }
func (tx *Tx) Exec(query string, args ...interface{}) (Result, error) {
	return nil, nil
}

type DB struct{}

// Rows: the rows a statement returned, one []interface{} of column values per row.
type Rows struct {
	data   [][]interface{}
	pos    int
	closed bool
}

func NewRows(data [][]interface{}) *Rows { return &Rows{data: data} }

func (rs *Rows) Next() bool {
	if rs.closed || rs.pos >= len(rs.data) {
		rs.closed = true
		return false
	}
	rs.pos++
	return true
}

func (rs *Rows) Scan(dest ...interface{}) error {
	if rs.pos == 0 || rs.closed {
		return errors.New("sql: Scan called without calling Next")
	}
	return assign(rs.data[rs.pos-1], dest)
}

func (rs *Rows) Close() error { rs.closed = true; return nil }
func (rs *Rows) Err() error   { return nil }

type Row struct {
	vals  []interface{}
	found bool
}

func NewRow(vals []interface{}, found bool) *Row { return &Row{vals: vals, found: found} }

func (r *Row) Scan(dest ...interface{}) error {
	if !r.found {
		return ErrNoRows
	}
	return assign(r.vals, dest)
}

func assign(src, dest []interface{}) error {
	if len(src) != len(dest) {
		return errors.New("sql: wrong number of destination arguments in Scan")
	}
	for i, d := range dest {
		switch d := d.(type) {
		case Scanner:
			if err := d.Scan(src[i]); err != nil {
				return err
			}
		case *int64:
			v, ok := src[i].(int64)
			if !ok {
				return errors.New("sql: Scan error: not an integer")
			}
			*d = v
		case *int:
			v, ok := src[i].(int64)
			if !ok {
				return errors.New("sql: Scan error: not an integer")
			}
			*d = int(v)
		case *string:
			v, ok := src[i].(string)
			if !ok {
				return errors.New("sql: Scan error: not a string")
			}
			*d = v
		case *bool:
			v, ok := src[i].(bool)
			if !ok {
				return errors.New("sql: Scan error: not a boolean")
			}
			*d = v
		default:
			return errors.New("sql: Scan error: unsupported destination")
		}
	}
	return nil
}
`

// c05iJSON: the catalogue of jsonb column types (type Meta) and, for each, the text of a function
// building the value of one row from inputs named after the row.
var c05iJSON = []struct{ decl, mk string }{
	{ // map of booleans: any subset of two keys
		"type Meta map[string]bool\n",
		"func mkMeta(r string) Meta {\n\tm := Meta{}\n\tif vfBool(r + \".x\") {\n\t\tm[\"x\"] = vfBool(r + \".x.val\")\n\t}\n\tif vfBool(r + \".y\") {\n\t\tm[\"y\"] = vfBool(r + \".y.val\")\n\t}\n\treturn m\n}\n",
	},
	{ // map of integers
		"type Meta map[string]int\n",
		"func mkMeta(r string) Meta {\n\tm := Meta{}\n\tif vfBool(r + \".x\") {\n\t\tm[\"x\"] = int(vfInt(r+\".x.val\", 0, 3))\n\t}\n\tif vfBool(r + \".y\") {\n\t\tm[\"y\"] = int(vfInt(r+\".y.val\", 0, 3))\n\t}\n\treturn m\n}\n",
	},
	{ // struct whose zero fields are left out of the document
		"type Meta struct {\n\tA int `json:\"a,omitempty\"`\n\tS string `json:\"s,omitempty\"`\n}\n",
		"func mkMeta(r string) Meta {\n\treturn Meta{A: int(vfInt(r+\".A\", 0, 3)), S: vfString(r+\".S\", 0, 1, \"alnum\")}\n}\n",
	},
	{ // plain struct
		"type Meta struct {\n\tA int\n\tS string\n}\n",
		"func mkMeta(r string) Meta {\n\treturn Meta{A: int(vfInt(r+\".A\", 0, 3)), S: vfString(r+\".S\", 0, 1, \"alnum\")}\n}\n",
	},
	{ // struct holding a map
		"type Sub map[string]int\n\ntype Meta struct {\n\tS string\n\tSub Sub\n}\n",
		"func mkMeta(r string) Meta {\n\tm := Meta{S: vfString(r+\".S\", 0, 1, \"alnum\"), Sub: Sub{}}\n\tif vfBool(r + \".x\") {\n\t\tm.Sub[\"x\"] = int(vfInt(r+\".x.val\", 0, 3))\n\t}\n\tif vfBool(r + \".y\") {\n\t\tm.Sub[\"y\"] = int(vfInt(r+\".y.val\", 0, 3))\n\t}\n\treturn m\n}\n",
	},
}

// c05iShapes: the table the jsonb column belongs to: a primary table (the column last, or between the
// other columns) or a link table; `key` is the first column (primary key / foreign key), `values` the
// column values of a row in declaration order, which is the order of the SELECT list.
var c05iShapes = []struct {
	decl, table, key, values string
	link                     bool
}{
	{"type Item struct {\n\tId int64\n\tName string\n\tM Meta\n}\n", "Item", "Id", "it.Id, it.Name, doc", false},
	{"type Item struct {\n\tId int64\n\tM Meta\n\tName string\n}\n", "Item", "Id", "it.Id, doc, it.Name", false},
	{"type Owner struct {\n\tId int64\n\tLabel string\n}\n\ntype Item struct {\n\tIdOwner int64 `gomacro-sql-foreign:\"Owner\"`\n\tM Meta\n\tName string\n}\n", "Item", "IdOwner", "it.IdOwner, doc, it.Name", true},
}

const c05iCheck = `package p

import (
	"encoding/json"

	"example.com/mod/sql"
)

// memDB: a database holding one table; every query returns all its rows (the statements themselves
// are the subject of HC05_statements).
type memDB struct{ rows [][]interface{} }

func (d *memDB) Exec(query string, args ...interface{}) (sql.Result, error) { return nil, nil }
func (d *memDB) Query(query string, args ...interface{}) (*sql.Rows, error) {
	return sql.NewRows(d.rows), nil
}
func (d *memDB) QueryRow(query string, args ...interface{}) *sql.Row {
	if len(d.rows) == 0 {
		return sql.NewRow(nil, false)
	}
	return sql.NewRow(d.rows[0], true)
}
func (d *memDB) Prepare(query string) (*sql.Stmt, error) { return &sql.Stmt{}, nil }

MKMETA

func Check() {
	n := 2 + vfChoice("rows", NROWS-1)
	var want []TABLE
	db := &memDB{}
	for i := 0; i < n; i++ {
		r := "r" + string(rune('0'+i))
		it := TABLE{KEY: vfInt(r+".key", 1, 4), Name: vfString(r+".name", 1, 1, "alnum"), M: mkMeta(r)}
		for _, o := range want {
			vfAssume(o.KEY != it.KEY)
		}
		// the jsonb column holds the JSON document of the value
		doc, err := json.Marshal(it.M)
		vfAssert(err == nil, "C05/json-column-value-has-a-document")
		db.rows = append(db.rows, []interface{}{VALUES})
		want = append(want, it)
	}
	// one row read alone
	one, err := ScanTABLE(db.QueryRow(""))
	vfAssert(err == nil, "C05/single-row-scan-executes-without-error")
	vfAssert(vfDeepEqual(one, want[0]), "C05/a-single-row-comes-back-with-all-fields-equal")
	// all the rows of the table
	got, err := SelectAllTABLEs(db)
	vfAssert(err == nil, "C05/select-all-executes-without-error")
	vfAssert(len(got) == n, "C05/select-all-returns-one-item-per-row")
	if len(got) != n {
		return
	}
	ok := true
	for i, w := range want {
		_ = i
		ok = vfAnd(ok, vfDeepEqual(got[INDEX], w))
	}
	vfAssert(ok, "C05/select-all-returns-every-row-with-all-fields-equal")
}
`

// c05iFixImports: the import block of the generated file is replaced by the imports the file uses
// (what the tool's goimports pass does), database/sql and lib/pq being redirected to the stand-ins.
func c05iFixImports(text string) string {
	start := strings.Index(text, "import (")
	if start < 0 {
		return text
	}
	end := start
	for _, line := range strings.SplitAfter(text[start:], "\n") {
		end += len(line)
		if strings.TrimSpace(line) == ")" {
			break
		}
	}
	rest := text[end:]
	block := "import (\n"
	for _, imp := range [][2]string{{"sql.", "example.com/mod/sql"}, {"pq.", "example.com/mod/pq"}, {"driver.", "database/sql/driver"}, {"json.", "encoding/json"},
		{"errors.", "errors"}, {"fmt.", "fmt"}, {"strconv.", "strconv"}, {"strings.", "strings"}, {"time.", "time"}} {
		if strings.Contains(rest, imp[0]) {
			block += "\t\"" + imp[1] + "\"\n"
		}
	}
	return text[:start] + block + ")\n" + rest
}

// HC05_execSelectAll: a table (primary, or link) with a jsonb column whose type is taken from a
// catalogue (maps, structs with and without omitempty, a struct holding a map), holding 2..C05.rows
// rows of symbolic contents (keys, names, which map keys are present, every scalar): the generated
// SelectAllXs, executed against that table, returns exactly those rows, each with all fields equal
// to what was stored; so does ScanX on one row.
func HC05_execSelectAll() {
	jt := c05iJSON[vfChoice("jsontype", len(c05iJSON))]
	sh := c05iShapes[vfChoice("shape", len(c05iShapes))]
	// the tables are the structs of the file given to the tool; the column type lives in another file
	src, other := "package p\n\n"+sh.decl, "package p\n\n"+jt.decl
	pkg := vfTypeCheck("example.com/mod/p", []string{"/m/p/p.go", "/m/p/other.go"}, []string{src, other}, nil)
	sqlPkg := vfTypeCheck("example.com/mod/sql", []string{"/m/sql/sql.go"}, []string{c05iSQL}, nil)
	pqPkg := vfTypeCheck("example.com/mod/pq", []string{"/m/pq/pq.go"}, []string{e2ePq}, nil)
	var text string
	panicked, _, msg := vfCatch(func() {
		ana := an.NewAnalysisFromFile(pkg, "/m/p/p.go")
		text = gen.WriteDeclarations(Generate(ana, false))
	})
	vfObserve("generation", msg)
	vfAssert(!panicked, "C05/catalogue-is-accepted-by-the-generator")
	if panicked {
		vfStop()
	}
	// the two imports of the environment are redirected to the stand-ins; then what goimports does
	text = c05iFixImports(text)
	index := "w." + sh.key
	if sh.link {
		index = "i"
	}
	check := c05iCheck
	for _, r := range [][2]string{{"MKMETA", jt.mk}, {"NROWS", fmt.Sprint(vfParam("C05.rows", 2))}, {"TABLE", sh.table}, {"KEY", sh.key}, {"VALUES", sh.values}, {"INDEX", index}} {
		check = strings.ReplaceAll(check, r[0], r[1])
	}
	errs := vfExec("example.com/mod/p", []string{"/m/p/p.go", "/m/p/other.go", "/m/p/gen.go", "/m/p/check.go"}, []string{src, other, text, check}, []*packages.Package{sqlPkg, pqPkg}, "Check")
	if len(errs) > 0 {
		vfObserve("error", errs[0])
	}
	vfAssert(len(errs) == 0, "C05/generated-file-compiles-with-its-source-package")
}
