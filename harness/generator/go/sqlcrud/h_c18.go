package sqlcrud

import (
	"fmt"
	"go/types"

	an "github.com/benoitkugler/gomacro/analysis"
	"github.com/benoitkugler/gomacro/analysis/sql"
	gen "github.com/benoitkugler/gomacro/generator"
	"golang.org/x/tools/go/packages"
)

// HC18_selectKeys: column lists of the _SELECT KEY / UNIQUE directives are free text.
func HC18_selectKeys() {
	pkg := skelPkg()
	named := skelNamed(pkg, "Item", types.NewStruct(nil, nil))
	st := skelStruct(pkg, named, []skelField{{name: "Id", typ: &an.Basic{B: types.Typ[types.Int64]}}, {name: "Name", typ: an.String}, {name: "Age", typ: an.Int}})
	cols := []string{"Name", "Name, Age", "Unknown", "Name,Unknown"}
	col := cols[vfChoice("cols", len(cols))]
	directive := []string{"_SELECT KEY (" + col + ")", "ADD UNIQUE(" + col + ")", "_SELECT KEY(" + col + ")"}[vfChoice("directive", 3)]
	st.Comments = []an.SpecialComment{{Kind: an.CommentSQL, Content: directive}}
	ana := &an.Analysis{Pkg: &packages.Package{PkgPath: pkg.Path(), Types: pkg}, Types: map[types.Type]an.Type{named: st}, Source: []types.Type{named}}
	panicked, rt, msg := vfCatch(func() {
		ta := sql.NewTable(st)
		ctx := context{ana, gen.NewTableNameReplacer([]sql.Table{ta}), make(gen.Cache), false}
		ctx.generateTable(ta)
	})
	vfObserve("outcome", msg)
	vfAssert(!rt, "C18/directive-naming-an-unknown-column-no-runtime-error")
	_ = panicked
}

// HC18_primaryPosition: the CRUD generator on tables whose id field stands at any position among
// exported, unexported and unexported-guard fields: no runtime error (the index of the primary key is
// an index into the columns, which skip unexported fields).
func HC18_primaryPosition() {
	pkg := skelPkg()
	n := 2 + vfChoice("fields", 3)
	idAt := vfChoice("idAt", n)
	var fields []skelField
	for i := 0; i < n; i++ {
		if i == idAt {
			fields = append(fields, skelField{name: []string{"Id", "ID"}[vfChoice("idName", 2)], typ: &an.Basic{B: types.Typ[types.Int64]}})
			continue
		}
		switch vfChoice(fmt.Sprint("kind", i), 3) {
		case 0:
			fields = append(fields, skelField{name: fmt.Sprint("F", i), typ: an.String})
		case 1:
			fields = append(fields, skelField{name: fmt.Sprint("f", i), typ: an.Bool})
		default:
			fields = append(fields, skelField{name: fmt.Sprint("g", i), typ: an.Int, extra: ` gomacro-sql-guard:"7"`})
		}
	}
	named := skelNamed(pkg, "Item", types.NewStruct(nil, nil))
	st := skelStruct(pkg, named, fields)
	ana := &an.Analysis{Pkg: &packages.Package{PkgPath: pkg.Path(), Types: pkg}, Types: map[types.Type]an.Type{named: st}, Source: []types.Type{named}}
	rt, msg := skelDiagnostic(func() { Generate(ana, false) })
	vfObserve("outcome", msg)
	vfAssert(!rt, "C18/sqlcrud-no-runtime-error")
}
