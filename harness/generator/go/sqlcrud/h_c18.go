package sqlcrud

import (
	"go/types"

	an "github.com/benoitkugler/gomacro/analysis"
	"github.com/benoitkugler/gomacro/analysis/sql"
	gen "github.com/benoitkugler/gomacro/generator"
	"golang.org/x/tools/go/packages"
)

// HC18_selectKeys: column lists of the _SELECT KEY / UNIQUE directives are free text.
func HC18_selectKeys() {
	pkg := skelPkg()
	named := skelNamed(pkg, "Item", types.NewStruct(nil, nil))
	st := skelStruct(pkg, named, []skelField{{name: "Id", typ: &an.Basic{B: types.Typ[types.Int64]}}, {name: "Name", typ: an.String}, {name: "Age", typ: an.Int}})
	cols := []string{"Name", "Name, Age", "Unknown", "Name,Unknown"}
	col := cols[vfChoice("cols", len(cols))]
	directive := []string{"_SELECT KEY (" + col + ")", "ADD UNIQUE(" + col + ")", "_SELECT KEY(" + col + ")"}[vfChoice("directive", 3)]
	st.Comments = []an.SpecialComment{{Kind: an.CommentSQL, Content: directive}}
	ana := &an.Analysis{Pkg: &packages.Package{PkgPath: pkg.Path(), Types: pkg}, Types: map[types.Type]an.Type{named: st}, Source: []types.Type{named}}
	panicked, rt, msg := vfCatch(func() {
		ta := sql.NewTable(st)
		ctx := context{ana, gen.NewTableNameReplacer([]sql.Table{ta}), make(gen.Cache), false}
		ctx.generateTable(ta)
	})
	vfObserve("outcome", msg)
	vfAssert(!rt, "C18/directive-naming-an-unknown-column-no-runtime-error")
	_ = panicked
}
