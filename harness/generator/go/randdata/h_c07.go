package randdata

import (
	"fmt"
	"go/types"

	an "github.com/benoitkugler/gomacro/analysis"
)

// c07Analysis: one source struct whose fields are named types of n foreign packages
// (symbolic path suffixes).
func c07Analysis(n int) (*an.Analysis, *types.Package) {
	target := types.NewPackage("example.com/mod/target", "target")
	named := skelNamed(target, "S", types.NewStruct(nil, nil))
	var fields []skelField
	for i := 0; i < n; i++ {
		suffix := vfString(fmt.Sprint("path", i), 1, 1, "alnum")
		for j := 0; j < i; j++ {
			vfAssume(suffix != fields[j].extra)
		}
		pkg := types.NewPackage("example.com/dep/"+suffix, "dep"+fmt.Sprint(i))
		ft := an.VfNewNamed(skelNamed(pkg, "T", types.Typ[types.Int]), an.Int)
		fields = append(fields, skelField{name: fmt.Sprint("F", i), typ: ft, extra: suffix})
	}
	for i := range fields {
		fields[i].extra = ""
	}
	st := skelStruct(target, named, fields)
	ana := &an.Analysis{Types: map[types.Type]an.Type{named: st}, Source: []types.Type{named}}
	return ana, target
}

// HC07_randdataHeader: the generated file (header with its import block included) is the same
// for every iteration order of the cache.
func HC07_randdataHeader() {
	n := 1 + vfChoice("n", vfParam("C07.entries", 3))
	ana, target := c07Analysis(n)
	vfPermuteMaps(false)
	ref := skelDeclsText(generateWithTarget(ana, target))
	vfPermuteMaps(true)
	reps := 1
	if !vfEngine() {
		reps = 32
	}
	for r := 0; r < reps; r++ {
		vfAssert(skelDeclsText(generateWithTarget(ana, target)) == ref, "C07/randdata-output-independent-of-map-order")
	}
}
