package randdata

import (
	an "github.com/benoitkugler/gomacro/analysis"
	gen "github.com/benoitkugler/gomacro/generator"
	"github.com/benoitkugler/gomacro/generator/go/gounions"
)

// The generated random-data functions are *executed*: the source package, the file generated for it
// and a file of assertions are type-checked and compiled to SSA inside the engine (vfExec), and the
// entry function runs in the symbolic path with math/rand as an input: every outcome of every draw
// that selects an enum constant, a union member or a length is covered by the solver.

const c15Decls = `package p

type Color int

const (
	Red Color = iota + 1
	Green
	blue
	Yellow
)

type Mode string

const (
	On   Mode = "on!"
	off  Mode = "off"
	Auto Mode = "aut"
)

type Shape interface{ isShape() }

type Circle struct {
	R int
	C Color
}

func (Circle) isShape() {}

type Square struct{ Side uint8 }

func (Square) isShape() {}

type Tags []Mode

func (Tags) isShape() {}

type Fig interface{ isFig() }

type Dot struct{ C Color }

func (Dot) isFig() {}

type line struct{ M Mode }

func (line) isFig() {}
`

const c15Helpers = `
func okColor(c Color) bool { return vfOr(c == Red, vfOr(c == Green, c == Yellow)) }

func okMode(m Mode) bool { return vfOr(m == On, m == Auto) }

func okShape(s Shape) bool {
	switch v := s.(type) {
	case Circle:
		return okColor(v.C)
	case Square:
		return true
	case Tags:
		ok := v != nil
		for _, m := range v {
			ok = vfAnd(ok, okMode(m))
		}
		return ok
	}
	return false
}

func okFig(f Fig) bool {
	switch v := f.(type) {
	case Dot:
		return okColor(v.C)
	case line:
		return okMode(v.M)
	}
	return false
}
`

var c15Roots = []struct {
	decl, check string
	roundTrip   bool // the value is also sent through the JSON round trip of C02
}{
	{ // enums, union, skipped and unexported fields
		"type T struct {\n\tC Color\n\tM Mode\n\tS Shape\n\tSkip Color `gomacro-data:\"ignore\"`\n\tSkipS Shape `gomacro-data:\"ignore\"`\n\thidden Color\n\tLast Mode\n}\n",
		`	vfAssert(okColor(v.C), "C15/enum-component-is-one-of-the-exported-constants")
	vfAssert(vfAnd(okMode(v.M), okMode(v.Last)), "C15/enum-component-is-one-of-the-exported-constants")
	vfAssert(okShape(v.S), "C15/union-component-is-a-non-nil-member-with-well-formed-content")
	vfAssert(vfAnd(v.Skip == 0, vfAnd(v.SkipS == nil, v.hidden == 0)), "C15/skipped-and-unexported-fields-keep-their-zero-value")
`, false},
	{ // slices and fixed arrays (non square matrix), pointers
		"type T struct {\n\tCs []Color\n\tGrid [2][3]Color\n\tTall [3][2]Mode\n\tOpt *Circle\n}\n",
		`	vfAssert(len(v.Cs) > 0, "C15/slices-are-populated")
	for _, c := range v.Cs {
		vfAssert(okColor(c), "C15/slice-elements-are-well-formed")
	}
	for i := range v.Grid {
		for j := range v.Grid[i] {
			vfAssert(okColor(v.Grid[i][j]), "C15/fixed-array-elements-are-well-formed")
		}
	}
	for i := range v.Tall {
		for j := range v.Tall[i] {
			vfAssert(okMode(v.Tall[i][j]), "C15/fixed-array-elements-are-well-formed")
		}
	}
	vfAssert(v.Opt != nil, "C15/pointer-components-point-to-well-formed-values")
	vfAssert(okColor(v.Opt.C), "C15/pointer-components-point-to-well-formed-values")
`, false},
	{ // named types over enums and unions, nested struct, slice of unions
		"type T struct {\n\tIn Inner\n\tL []Fig\n\tN Named\n}\n\ntype Inner struct {\n\tA [1]Color\n\tB Mode\n}\n\ntype Named []Color\n",
		`	vfAssert(vfAnd(okColor(v.In.A[0]), okMode(v.In.B)), "C15/nested-struct-components-are-well-formed")
	vfAssert(vfAnd(len(v.L) > 0, len(v.N) > 0), "C15/slices-are-populated")
	for _, f := range v.L {
		vfAssert(okFig(f), "C15/slice-elements-are-well-formed")
	}
	for _, c := range v.N {
		vfAssert(okColor(c), "C15/slice-elements-are-well-formed")
	}
`, false},
	{ // fixed array of unions (a member is a slice)
		"type T struct {\n\tRow [2]Shape\n\tF Fig\n}\n",
		`	for _, s := range v.Row {
		vfAssert(okShape(s), "C15/fixed-array-elements-are-well-formed")
	}
	vfAssert(okFig(v.F), "C15/union-component-is-a-non-nil-member-with-well-formed-content")
`, false},
	{ // enums, unions, pointer, slices: also sent through the JSON round trip (generated union wrappers)
		"type T struct {\n\tC Color\n\tM Mode\n\tS Shape\n\tF Fig\n\tCs []Color\n\tOpt *Circle\n\tN Named\n}\n\ntype Named []Color\n",
		`	vfAssert(vfAnd(okColor(v.C), okMode(v.M)), "C15/enum-component-is-one-of-the-exported-constants")
	vfAssert(vfAnd(okShape(v.S), okFig(v.F)), "C15/union-component-is-a-non-nil-member-with-well-formed-content")
`, true},
}

// HC15_execRecursive: a recursive type. Known finding: the generated function recurses without bound.
func HC15_execRecursive() {
	src := "package p\n\ntype T struct {\n\tV int\n\tNext *T\n}\n"
	pkg := vfTypeCheck("example.com/mod/p", []string{"/m/p/p.go"}, []string{src}, nil)
	ana := an.NewAnalysisFromFile(pkg, "/m/p/p.go")
	text := execFixImports(gen.WriteDeclarations(Generate(ana)), "example.com/mod/p")
	check := "package p\n\nfunc Check() {\n\tvfKnown(\"C15/recursive-type-generated-function-recurses-without-bound\", true)\n" +
		"\tvfAssertTerminates(func() { randT() }, \"C15/generated-function-terminates\")\n}\n"
	errs := vfExec("example.com/mod/p", []string{"/m/p/p.go", "/m/p/gen.go", "/m/p/check.go"}, []string{src, text, check}, nil, "Check")
	vfAssert(len(errs) == 0, "C15/generated-file-compiles-with-its-source-package")
}

// HC15_exec: for each root type of the catalogue, randT() runs without panicking and returns a
// well-formed value, whatever the random source returns.
func HC15_exec() {
	root := c15Roots[vfChoice("root", len(c15Roots))]
	src := c15Decls + "\n" + root.decl
	pkg := vfTypeCheck("example.com/mod/p", []string{"/m/p/p.go"}, []string{src}, nil)
	var text, wrappers string
	panicked, _, msg := vfCatch(func() {
		ana := an.NewAnalysisFromFile(pkg, "/m/p/p.go")
		text = gen.WriteDeclarations(Generate(ana))
		if root.roundTrip {
			wrappers = gen.WriteDeclarations(gounions.Generate(ana))
		}
	})
	vfObserve("generation", msg)
	vfAssert(!panicked, "C15/catalogue-is-accepted-by-the-generator")
	if panicked {
		vfStop()
	}
	text = execFixImports(text, "example.com/mod/p")
	// the value also survives the JSON round trip of C02 (through the generated union wrappers)
	roundTrip := "\tdata, err := json.Marshal(v)\n\tvfAssert(err == nil, \"C15/random-value-survives-the-json-round-trip\")\n\tif err != nil {\n\t\treturn\n\t}\n" +
		"\tvar back T\n\terr = json.Unmarshal(data, &back)\n\tvfAssert(err == nil, \"C15/random-value-survives-the-json-round-trip\")\n\tvfAssert(vfDeepEqual(v, back), \"C15/random-value-survives-the-json-round-trip\")\n"
	check := "package p\n\nimport \"encoding/json\"\n" + c15Helpers + "\nfunc Check() {\n\tvar v T\n\tpanicked, _, msg := vfCatch(func() { v = randT() })\n\tvfObserve(\"panic\", msg)\n" +
		"\tvfAssert(!panicked, \"C15/generated-function-returns-without-panicking\")\n\tif panicked {\n\t\treturn\n\t}\n" + root.check + map[bool]string{true: roundTrip, false: "\t_ = json.Marshal\n"}[root.roundTrip] + "}\n"
	names, srcs := []string{"/m/p/p.go", "/m/p/gen.go", "/m/p/check.go"}, []string{src, text, check}
	if root.roundTrip {
		names, srcs = append(names, "/m/p/unions.go"), append(srcs, execFixImports(wrappers, "example.com/mod/p"))
	}
	errs := vfExec("example.com/mod/p", names, srcs, nil, "Check")
	if len(errs) > 0 {
		vfObserve("error", errs[0])
	}
	vfAssert(len(errs) == 0, "C15/generated-file-compiles-with-its-source-package")
}

// HC15_execMaps: maps keyed by types with few values (an enum, bool) and by integers: the generated
// function terminates and returns populated maps of well-formed keys and values. The random draws of
// this harness follow the concrete stream (a map of symbolic keys forks on every insertion): what is
// decided is termination and well-formedness on that stream.
func HC15_execMaps() {
	src := c15Decls + "\ntype T struct {\n\tByColor map[Color]int\n\tByBool map[bool]Mode\n\tPlain map[int]string\n\tNested map[Mode][]Color\n}\n"
	pkg := vfTypeCheck("example.com/mod/p", []string{"/m/p/p.go"}, []string{src}, nil)
	var text string
	panicked, _, msg := vfCatch(func() {
		ana := an.NewAnalysisFromFile(pkg, "/m/p/p.go")
		text = execFixImports(gen.WriteDeclarations(Generate(ana)), "example.com/mod/p")
	})
	vfObserve("generation", msg)
	vfAssert(!panicked, "C15/catalogue-is-accepted-by-the-generator")
	if panicked {
		vfStop()
	}
	check := "package p\n" + c15Helpers + "\nfunc Check() {\n\tvfRandConcrete(true)\n\tvar v T\n\tvfAssertTerminates(func() { v = randT() }, \"C15/generated-function-terminates\")\n" +
		"\tvfAssert(len(v.ByColor) > 0 && len(v.ByBool) > 0 && len(v.Plain) > 0 && len(v.Nested) > 0, \"C15/maps-are-populated\")\n" +
		"\tok := true\n\tfor k := range v.ByColor {\n\t\tok = vfAnd(ok, okColor(k))\n\t}\n\tfor _, m := range v.ByBool {\n\t\tok = vfAnd(ok, okMode(m))\n\t}\n" +
		"\tfor k, cs := range v.Nested {\n\t\tok = vfAnd(ok, okMode(k))\n\t\tfor _, c := range cs {\n\t\t\tok = vfAnd(ok, okColor(c))\n\t\t}\n\t}\n" +
		"\tvfAssert(ok, \"C15/map-keys-and-elements-are-well-formed\")\n}\n"
	errs := vfExec("example.com/mod/p", []string{"/m/p/p.go", "/m/p/gen.go", "/m/p/check.go"}, []string{src, text, check}, nil, "Check")
	if len(errs) > 0 {
		vfObserve("error", errs[0])
	}
	vfAssert(len(errs) == 0, "C15/generated-file-compiles-with-its-source-package")
}
