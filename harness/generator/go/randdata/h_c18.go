package randdata

import (
	"go/types"

	an "github.com/benoitkugler/gomacro/analysis"
	gen "github.com/benoitkugler/gomacro/generator"
)

// HC18_functionID: fixed-width slicing of the package name of a foreign type. Any identifier of
// length >= 1 is a legal package name.
func HC18_functionID() {
	target := skelPkg()
	pname := vfString("pkgname", 1, vfParam("C18.name", 4), "lident")
	foreign := types.NewPackage("other.org/"+pname, pname)
	var ty an.Type
	switch vfChoice("shape", 3) {
	case 0:
		ty = an.VfNewNamed(skelNamed(foreign, "T", types.Typ[types.Int]), an.Int)
	case 1:
		n := skelNamed(foreign, "S", types.NewStruct(nil, nil))
		ty = skelStruct(foreign, n, []skelField{{name: "X", typ: an.Int}})
	default:
		ty = &an.Array{Elem: an.VfNewNamed(skelNamed(foreign, "T", types.Typ[types.Int]), an.Int), Len: -1}
	}
	ctx := context{cache: make(gen.Cache), targetPackage: target}
	var id string
	rt, msg := skelDiagnostic(func() { id = ctx.functionID(ty) })
	vfObserve("outcome", msg)
	vfObserve("id", id)
	vfAssert(!rt, "C18/randdata-no-runtime-error-on-short-package-name")
}

// HC18_randdataSweep: every type skeleton either generates or is refused explicitly.
func HC18_randdataSweep() {
	w := newSkelWorld()
	ty := w.anyType("t", vfParam("C18.depth", 2))
	ctx := context{cache: make(gen.Cache), targetPackage: w.pkg}
	rt, msg := skelDiagnostic(func() { ctx.generate(ty) })
	vfObserve("outcome", msg)
	vfAssert(!rt, "C18/randdata-no-runtime-error")
}
