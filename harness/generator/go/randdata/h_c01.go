package randdata

import (
	"fmt"
	"go/constant"
	"go/types"
	"strings"

	an "github.com/benoitkugler/gomacro/analysis"
	gen "github.com/benoitkugler/gomacro/generator"
)

// HC01_functionIDs: two different named types never get the same random-function name (a
// duplicated top-level function does not compile).
func HC01_functionIDs() {
	target := types.NewPackage("example.com/mod/target", "target")
	mk := func(tag string) (*types.Named, bool) {
		local := vfChoice(tag+"local", 2) == 1
		pkg := target
		if !local {
			pname := vfString(tag+"pkg", 1, vfParam("C01.pkg", 4), "lident")
			pkg = types.NewPackage("other.org/"+tag+"/"+pname, pname)
		}
		name := vfString(tag+"type", 1, vfParam("C01.type", 2), "Ident")
		return skelNamed(pkg, name, types.Typ[types.Int]), local
	}
	a, aLocal := mk("a.")
	b, bLocal := mk("b.")
	sameType := aLocal && bLocal && vfFork(a.Obj().Name() == b.Obj().Name())
	vfAssume(!sameType)
	ctx := context{cache: make(gen.Cache), targetPackage: target}
	ida := ctx.functionID(an.VfNewNamed(a, an.Int))
	idb := ctx.functionID(an.VfNewNamed(b, an.Int))
	vfObserve("ida", ida)
	vfObserve("idb", idb)
	// known class: foreign types with the same local name whose package names share their first three letters
	pa, pb := a.Obj().Pkg().Name(), b.Obj().Pkg().Name()
	pre := func(s string) string {
		if len(s) > 3 {
			return s[:3]
		}
		return s
	}
	vfKnown("C01/randdata-same-type-name-in-packages-sharing-a-3-letter-prefix", !aLocal && !bLocal && a.Obj().Name() == b.Obj().Name() && pre(pa) == pre(pb))
	vfAssert(ida != idb, "C01/random-function-names-are-distinct-for-distinct-types")
}

// HC01_enumChoices: the composite literal listing the enum choices is well formed (no empty
// element) and lists exactly the exported constants.
func HC01_enumChoices() {
	enumChoices("C01/enum-choices-literal-present", "C01/enum-choices-are-exactly-the-exported-constants-no-empty-element")
}

// HC15_enum: the random enum value is picked among the exported constants only.
func HC15_enum() {
	enumChoices("C15/enum-choices-literal-present", "C15/enum-value-is-picked-among-exactly-the-exported-constants")
}

func enumChoices(clausePresent, clauseExact string) {
	target := types.NewPackage("example.com/mod/target", "target")
	named := skelNamed(target, "E", types.Typ[types.Int])
	n := 1 + vfChoice("n", vfParam("C01.members", 3))
	var members []an.EnumMember
	var exported []string
	for i := 0; i < n; i++ {
		name := fmt.Sprint("M", i)
		if vfChoice(fmt.Sprint("unexported", i), 2) == 1 {
			name = fmt.Sprint("m", i)
		} else {
			exported = append(exported, name)
		}
		members = append(members, an.EnumMember{Const: types.NewConst(0, target, name, named, constant.MakeInt64(int64(i)))})
	}
	e := an.VfNewEnum(named, members, false)
	an.VfSetIsIota(e)
	ctx := context{cache: make(gen.Cache), targetPackage: target}
	text := ctx.codeForEnum(e).Content
	vfObserve("text", text)
	open := strings.Index(text, "[...]E{")
	vfAssert(open >= 0, clausePresent)
	if open < 0 {
		return
	}
	list := text[open+len("[...]E{"):]
	list = list[:strings.Index(list, "}")]
	var elems []string
	for _, el := range strings.Split(list, ",") {
		elems = append(elems, strings.TrimSpace(el))
	}
	if len(elems) > 0 && elems[len(elems)-1] == "" {
		elems = elems[:len(elems)-1] // one trailing comma is legal Go
	}
	ok := len(elems) == len(exported)
	for _, el := range elems {
		ok = ok && el != ""
	}
	if ok {
		for i := range exported {
			ok = ok && elems[i] == exported[i]
		}
	}
	vfAssert(ok, clauseExact)
}

func c01Idents(text, prefix string) []string {
	var out []string
	from := 0
	for {
		i := strings.Index(text[from:], prefix)
		if i < 0 {
			return out
		}
		p := from + i
		from = p + len(prefix)
		if p > 0 {
			c := text[p-1]
			if c == '_' || (c >= 'a' && c <= 'z') || (c >= 'A' && c <= 'Z') || (c >= '0' && c <= '9') || c == '.' {
				continue
			}
		}
		j := from
		for j < len(text) && (text[j] == '_' || (text[j] >= 'a' && text[j] <= 'z') || (text[j] >= 'A' && text[j] <= 'Z') || (text[j] >= '0' && text[j] <= '9')) {
			j++
		}
		if j < len(text) && text[j] == '(' && j > from {
			out = append(out, text[from:j])
		}
	}
}

// HC01_randdataClosure: in the file generated for any type skeleton every rand<ID>() function
// that is called is defined, and no function is defined twice.
func HC01_randdataClosure() {
	w := newSkelWorld()
	ty := w.anyType("t", vfParam("C01.depth", 2))
	ctx := context{cache: make(gen.Cache), targetPackage: w.pkg}
	var decls []gen.Declaration
	panicked, _, _ := vfCatch(func() { decls = ctx.generate(ty) })
	if panicked {
		vfStop() // refused input: nothing is generated
	}
	text := gen.WriteDeclarations(decls)
	defs := c01Idents(text, "func rand")
	uses := c01Idents(text, "rand")
	defined := map[string]int{}
	for _, d := range defs {
		defined[d]++
	}
	ok := true
	for _, n := range defined {
		ok = ok && n == 1
	}
	vfAssert(ok, "C01/no-random-function-defined-twice")
	ok = true
	for _, u := range uses {
		if defined[u] == 0 {
			vfObserve("undefined", u)
		}
		ok = ok && defined[u] > 0
	}
	vfAssert(ok, "C01/every-random-function-called-is-defined")
	vfObserve("defs", len(defs))
}
