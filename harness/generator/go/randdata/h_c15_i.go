package randdata

import (
	an "github.com/benoitkugler/gomacro/analysis"
	gen "github.com/benoitkugler/gomacro/generator"
)

// Embedded components. The class: a struct T with one own enum field in front, 1..2 *embedded*
// components and one own enum field behind; each embedded component is, independently, a struct
// value or a pointer to a struct, and its base struct is any of a catalogue of four (two enums; a
// union with a skipped and an unexported field; an unexported struct type; a struct which itself
// embeds a pointer to a struct, next to a fixed array). The two components have distinct bases (Go
// rejects a duplicate embedded field, and the bases have disjoint field names, so that no promoted
// selector is ambiguous).
//
// The oracle is the property text, stated on the Go value and independent of how the analysis lays
// the fields out (flattened or not): randT() returns without panicking; the own fields on both sides
// of the embedded components are exported constants; every embedded struct value is well-formed;
// every embedded pointer whose field is exported is non nil (as any pointer component, see HC15_exec)
// and every non-nil embedded pointer points to a well-formed value; skipped and unexported fields of
// the bases keep their zero value. The embedded field of an unexported base type is itself an
// unexported field: it may stay zero/nil, or be populated with well-formed content through its
// promoted fields - both are accepted.

const c15EmbedDecls = `
type Stamp struct {
	C Color
	M Mode
}

type Geo struct {
	F      Fig
	Skip   Color ` + "`gomacro-data:\"ignore\"`" + `
	hidden Mode
}

type inner struct{ K Color }

type Leaf struct{ L Mode }

type Deep struct {
	*Leaf
	G [2]Mode
}
`

const c15EmbedHelpers = `
func okStamp(b Stamp) bool { return vfAnd(okColor(b.C), okMode(b.M)) }

func okGeo(b Geo) bool { return vfAnd(okFig(b.F), vfAnd(b.Skip == 0, b.hidden == "")) }

func okInner(b inner) bool { return vfOr(b.K == 0, okColor(b.K)) }

func okDeep(b Deep) bool {
	if b.Leaf == nil {
		return false
	}
	return vfAnd(okMode(b.Leaf.L), vfAnd(okMode(b.G[0]), okMode(b.G[1])))
}
`

var c15EmbedBases = []struct {
	name, ok string
	exported bool
}{
	{"Stamp", "okStamp", true},
	{"Geo", "okGeo", true},
	{"inner", "okInner", false},
	{"Deep", "okDeep", true},
}

// HC15_execEmbedded: see the comment at the top of the file.
func HC15_execEmbedded() {
	nb := len(c15EmbedBases)
	slots := 1 + vfChoice("moreEmbedded", vfParam("C15.embedded", 2))
	first := vfChoice("base0", nb)
	decl, check := "type T struct {\n\tOwn Color\n", ""
	for i := 0; i < slots; i++ {
		bi := first
		if i > 0 { // a different base
			bi = (first + 1 + vfChoice("base1", nb-1)) % nb
		}
		base := c15EmbedBases[bi]
		pointer := vfChoice([]string{"pointer0", "pointer1"}[i], 2) == 1
		if pointer {
			decl += "\t*" + base.name + "\n"
			if base.exported {
				check += "\tvfAssert(v." + base.name + " != nil, \"C15/pointer-components-point-to-well-formed-values\")\n"
			}
			check += "\tif v." + base.name + " != nil {\n\t\tvfAssert(" + base.ok + "(*v." + base.name + "), \"C15/embedded-pointer-points-to-a-well-formed-value\")\n\t}\n"
		} else {
			decl += "\t" + base.name + "\n"
			check += "\tvfAssert(" + base.ok + "(v." + base.name + "), \"C15/embedded-struct-components-are-well-formed\")\n"
		}
	}
	decl += "\tLast Mode\n}\n"
	check += "\tvfAssert(vfAnd(okColor(v.Own), okMode(v.Last)), \"C15/enum-component-is-one-of-the-exported-constants\")\n"

	src := c15Decls + c15EmbedDecls + "\n" + decl
	pkg := vfTypeCheck("example.com/mod/p", []string{"/m/p/p.go"}, []string{src}, nil)
	var text string
	panicked, _, msg := vfCatch(func() {
		ana := an.NewAnalysisFromFile(pkg, "/m/p/p.go")
		text = gen.WriteDeclarations(Generate(ana))
	})
	vfObserve("generation", msg)
	vfAssert(!panicked, "C15/catalogue-is-accepted-by-the-generator")
	if panicked {
		vfStop()
	}
	text = execFixImports(text, "example.com/mod/p")
	body := "package p\n" + c15Helpers + c15EmbedHelpers + "\nfunc Check() {\n\tvar v T\n\tpanicked, _, msg := vfCatch(func() { v = randT() })\n\tvfObserve(\"panic\", msg)\n" +
		"\tvfAssert(!panicked, \"C15/generated-function-returns-without-panicking\")\n\tif panicked {\n\t\treturn\n\t}\n" + check + "}\n"
	errs := vfExec("example.com/mod/p", []string{"/m/p/p.go", "/m/p/gen.go", "/m/p/check.go"}, []string{src, text, body}, nil, "Check")
	if len(errs) > 0 {
		vfObserve("error", errs[0])
	}
	vfAssert(len(errs) == 0, "C15/generated-file-compiles-with-its-source-package")
}
