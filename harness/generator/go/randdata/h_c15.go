package randdata

import (
	"fmt"
	"go/types"
	"strings"

	an "github.com/benoitkugler/gomacro/analysis"
	gen "github.com/benoitkugler/gomacro/generator"
)

// HC15_union: the random function of a union picks, uniformly by index, among exactly one call
// per member.
func HC15_union() {
	pkg := skelPkg()
	n := 1 + vfChoice("members", 3)
	var members []an.Type
	var calls []string
	for i := 0; i < n; i++ {
		nm := vfString(fmt.Sprint("member", i), 1, 2, "ident") // exported or not: every member is a possible value
		for _, m := range members {
			vfAssume(an.LocalName(m) != nm)
		}
		members = append(members, skelStruct(pkg, skelNamed(pkg, nm, types.NewStruct(nil, nil)), []skelField{{name: "X", typ: an.Int}}))
		calls = append(calls, "rand"+nm+"(),")
	}
	u := an.VfNewUnion(skelNamed(pkg, "Shape", types.NewInterfaceType(nil, nil)), members)
	ctx := context{cache: make(gen.Cache), targetPackage: pkg}
	decls := ctx.codeForUnion(u)
	text := skelSquash(decls[len(decls)-1].Content)
	vfObserve("text", text)
	vfAssert(skelHas(text, "choix := [...]Shape{"+strings.Join(calls, "")+"}"), "C15/union-choices-are-exactly-one-call-per-member")
	vfAssert(skelHas(text, fmt.Sprint("i := rand.Intn(", n, ")")) && skelHas(text, "return choix[i]"), "C15/union-value-is-picked-among-all-members")
}

// HC15_struct: one assignment per exported field not marked to be skipped, none for the others.
func HC15_struct() {
	pkg := skelPkg()
	n := vfChoice("fields", 3)
	var fields []skelField
	want := ""
	for i := 0; i < n; i++ {
		f := skelField{name: vfString(fmt.Sprint("name", i), 1, 2, "ident"), typ: []an.Type{an.Int, an.String}[vfChoice(fmt.Sprint("type", i), 2)]}
		for _, o := range fields {
			vfAssume(o.name != f.name)
		}
		skip := vfChoice(fmt.Sprint("skip", i), 3)
		switch skip {
		case 1:
			f.extra = ` gomacro-data:"ignore"`
		case 2:
			f.extra = ` gomacro-data:"other"`
		}
		// fields hidden from JSON or from the other generators are still populated
		switch vfChoice(fmt.Sprint("hidden", i), 3) {
		case 1:
			f.hasTag, f.tag = true, "-"
		case 2:
			f.gm = 1
		}
		fields = append(fields, f)
		if vfFork(vfAnd(f.name[0] >= 'A', f.name[0] <= 'Z')) && skip != 1 {
			id := "int"
			if f.typ == an.Type(an.String) {
				id = "string"
			}
			want += "s." + f.name + " = rand" + id + "()\n"
		}
	}
	st := skelStruct(pkg, skelNamed(pkg, "Thing", types.NewStruct(nil, nil)), fields)
	ctx := context{cache: make(gen.Cache), targetPackage: pkg}
	decls := ctx.codeForStruct(st)
	text := skelSquash(decls[len(decls)-1].Content)
	vfObserve("text", text)
	vfAssert(skelHas(text, "var s Thing "+want+" return s"), "C15/exactly-the-exported-unskipped-fields-are-assigned")
}

// HC15_arrays: fixed arrays are filled over their whole length, slices and maps are populated.
func HC15_arrays() {
	pkg := skelPkg()
	elem := []an.Type{an.Int, an.String}[vfChoice("elem", 2)]
	eid := "int"
	if elem == an.Type(an.String) {
		eid = "string"
	}
	L := vfChoice("len", 4) // 0..3
	ctx := context{cache: make(gen.Cache), targetPackage: pkg}
	decls := ctx.codeForArray(&an.Array{Elem: elem, Len: L})
	text := skelSquash(decls[len(decls)-1].Content)
	vfAssert(skelHas(text, fmt.Sprint("var out [", L, "]", eid)) && skelHas(text, "for i := range out { out[i] = rand"+eid+"() }"), "C15/fixed-array-is-filled-over-its-whole-length")
	sdecls := ctx.codeForArray(&an.Array{Elem: elem, Len: -1})
	stext := skelSquash(sdecls[len(sdecls)-1].Content)
	vfAssert(skelHas(stext, "out := make([]"+eid+", l)") && skelHas(stext, "for i := range out { out[i] = rand"+eid+"() }"), "C15/slice-is-populated-with-random-elements")
}
