package randdata

import (
	an "github.com/benoitkugler/gomacro/analysis"
	gen "github.com/benoitkugler/gomacro/generator"
)

// HC18_randdataAliasDeclarations: a well-typed source file whose top level declarations include alias declarations
// (type A = T, T supported; see c18AliasSource for the class) goes through the real analysis and the
// randdata generator: each of them completes or stops with an explicit diagnostic, never with a Go runtime error.
func HC18_randdataAliasDeclarations() {
	src, _ := c18AliasSource()
	pkg := vfTypeCheck("example.com/mod/p", []string{"/m/p/p.go", "/m/p/generics.go"}, []string{src, c18AliasGenerics}, nil)
	var ana *an.Analysis
	panicked, rt, msg := vfCatch(func() { ana = an.NewAnalysisFromFile(pkg, "/m/p/p.go") })
	vfObserve("analysis", msg)
	vfAssert(!rt, "C18/analysis-of-alias-declarations-no-runtime-error")
	if panicked {
		vfStop()
	}
	text := ""
	panicked, rt, msg = vfCatch(func() {
		text = gen.WriteDeclarations(Generate(ana))
	})
	vfObserve("outcome", msg)
	vfObserve("completed", len(text) > 0)
	vfAssert(!rt, "C18/randdata-alias-declarations-no-runtime-error")
}
