package randdata

import (
	"strings"

	an "github.com/benoitkugler/gomacro/analysis"
	gen "github.com/benoitkugler/gomacro/generator"
	"golang.org/x/tools/go/packages"
)

// HC01_randdataCompiles: the random-data functions generated for a real source package (types of
// another package included) type-check together with it (the real go/types is the oracle).
func HC01_randdataCompiles() {
	lib := vfTypeCheck("example.com/mod/lib", []string{"/m/lib/lib.go"}, []string{
		"package lib\n\ntype ID int64\n\ntype Point struct{ X, Y int }\n\ntype Level uint8\n\nconst (\n\tLow Level = iota\n\tHigh\n)\n"}, nil)
	bodies := []string{
		"type T struct {\n\tA int\n\tB []byte\n\tC [3]rune\n\tD map[string]bool\n}\n",
		"type T struct {\n\tP lib.Point\n\tI lib.ID\n\tL lib.Level\n\tIDs []lib.ID\n}\n",
		"type T struct {\n\tE Mode\n\tHidden Mode `gomacro-data:\"ignore\"`\n\tu int\n}\n\ntype Mode string\n\nconst (\n\tOn Mode = \"on\"\n\toff Mode = \"off\"\n)\n",
		"type T struct {\n\tS Shape\n\tL []Shape\n\tN Named\n}\n\ntype Named map[lib.ID][2]float64\n\ntype Shape interface{ isShape() }\n\ntype Circle struct{ R int8 }\n\nfunc (Circle) isShape() {}\n\ntype square struct{ W uint16 }\n\nfunc (square) isShape() {}\n",
		"type T struct {\n\tNext *T\n\tKids []T\n\tF float64\n\tG int32\n}\n",
		"type T struct {\n\tBase\n\tinner\n\tName string\n}\n\ntype Base struct {\n\tID int\n\tTags []string\n}\n\ntype inner struct{ Flag bool }\n",
		"type T struct {\n\tAt time.Time\n\tTs []time.Time\n\tP *time.Time\n\tM map[string]time.Time\n\tD Day\n\tDs []Day\n}\n\ntype Day time.Time\n\nvar _ time.Time\n",
	}
	src := "package p\n\nimport (\n\t\"time\"\n\n\t\"example.com/mod/lib\"\n)\n\nvar _ lib.ID\nvar _ time.Time\n\n" + bodies[vfChoice("body", len(bodies))]
	pkg := vfTypeCheck("example.com/mod/p", []string{"/m/p/p.go"}, []string{src}, []*packages.Package{lib})
	var text string
	panicked, rt, msg := vfCatch(func() {
		ana := an.NewAnalysisFromFile(pkg, "/m/p/p.go")
		text = gen.WriteDeclarations(Generate(ana))
	})
	vfObserve("outcome", msg)
	vfAssert(!rt, "C01/randdata-generation-no-runtime-error")
	if panicked {
		vfStop()
	}
	var errs []string
	for _, e := range vfTypeErrors("example.com/mod/p", []string{"/m/p/p.go", "/m/p/gen.go"}, []string{src, text}, []*packages.Package{lib}) {
		// the tool runs goimports on its output: unused imports (the package's own path among them) are removed there
		if strings.Contains(e, "imported and not used") || strings.Contains(e, "could not import example.com/mod/p ") {
			continue
		}
		errs = append(errs, e)
	}
	if len(errs) > 0 {
		vfObserve("error", errs[0])
	}
	vfAssert(len(errs) == 0, "C01/generated-random-data-functions-type-check-with-their-source-package")
}
