package dart

import (
	"strings"

	an "github.com/benoitkugler/gomacro/analysis"
	gen "github.com/benoitkugler/gomacro/generator"
)

// c06Keys: the keys read by <id>FromJson (json['k'], in order) and written by <id>ToJson ("k" :, in order).
func c06Keys(text, class string) (from, to []string) {
	id := lowerFirst(class)
	if i := strings.Index(text, " "+id+"FromJson(dynamic json_)"); i >= 0 {
		body := text[i:]
		if end := strings.Index(body, "\n\t}"); end >= 0 {
			body = body[:end]
		}
		for {
			j := strings.Index(body, "json['")
			if j < 0 {
				break
			}
			body = body[j+len("json['"):]
			from = append(from, body[:strings.Index(body, "']")])
		}
	}
	if i := strings.Index(text, " "+id+"ToJson("+class+" item)"); i >= 0 {
		body := text[i:]
		body = body[strings.Index(body, "return {")+len("return {"):]
		body = body[:strings.Index(body, "};")]
		for _, line := range strings.Split(body, "\n") {
			line = strings.TrimSpace(line)
			if strings.HasPrefix(line, "\"") {
				line = line[1:]
				to = append(to, line[:strings.Index(line, "\"")])
			}
		}
	}
	return
}

// HC06_e2e: real source packages through the real analysis and the Dart generator: for the structs
// hand-listed with the keys encoding/json writes for them, fromJson reads and toJson writes exactly
// those keys in field order, with one constructor argument each (embedded structs of exported and
// unexported type names, tags with options, '-' tags, unexported fields).
func HC06_e2e() {
	type entry struct {
		src   string
		class string
		keys  []string
	}
	catalogue := []entry{
		{"type tracking struct {\n\tCreatedBy string\n\tRevision int `json:\"rev\"`\n}\n\ntype Extra struct{ Tags []string }\n\ntype Payload struct {\n\ttracking\n\tExtra\n\tTitle string\n\tnote string\n\tHidden int `json:\"-\"`\n\tDash int `json:\"-,\"`\n}\n",
			"Payload", []string{"CreatedBy", "rev", "Tags", "Title", "-"}},
		{"type Inner struct {\n\tA int `json:\"a,omitempty\"`\n\tB string `json:\",omitempty\"`\n\tC bool `json:\",string\"`\n}\n\ntype Payload struct {\n\tIn Inner\n\tL []Inner\n}\n",
			"Inner", []string{"a", "B", "C"}},
	}
	e := catalogue[vfChoice("package", len(catalogue))]
	src := "package p\n\n" + e.src
	pkg := vfTypeCheck("example.com/mod/p", []string{"/m/p/p.go"}, []string{src}, nil)
	text := ""
	panicked, rt, msg := vfCatch(func() {
		ana := an.NewAnalysisFromFile(pkg, "/m/p/p.go")
		for _, out := range Generate("/home/u/go/src/example.com/mod/p", []*an.Analysis{ana}) {
			text += gen.WriteDeclarations(out.Content)
		}
	})
	vfObserve("outcome", msg)
	vfAssert(!rt && !panicked, "C06/catalogue-is-accepted-by-the-generator")
	if panicked {
		vfStop()
	}
	from, to := c06Keys(text, e.class)
	vfObserve("from", from)
	vfObserve("to", to)
	same := func(got []string) bool {
		ok := len(got) == len(e.keys)
		if ok {
			for i := range got {
				ok = ok && got[i] == e.keys[i]
			}
		}
		return ok
	}
	vfAssert(same(from), "C06/fromjson-reads-exactly-the-go-json-keys-in-field-order")
	vfAssert(same(to), "C06/tojson-writes-exactly-the-go-json-keys-in-field-order")
	// one constructor argument per key
	ctor := ""
	if i := strings.Index(text, "const "+e.class+"("); i >= 0 {
		ctor = text[i+len("const "+e.class+"("):]
		ctor = ctor[:strings.Index(ctor, ")")]
	}
	vfAssert(strings.Count(ctor, "this.") == len(e.keys), "C06/one-constructor-argument-per-exported-field")
}
