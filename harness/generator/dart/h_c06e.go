package dart

import (
	"fmt"
	"strings"

	an "github.com/benoitkugler/gomacro/analysis"
	gen "github.com/benoitkugler/gomacro/generator"
	"golang.org/x/tools/go/packages"
)

// c06Keys: the keys read by <id>FromJson (json['k'], in order) and written by <id>ToJson ("k" :, in order).
func c06Keys(text, class string) (from, to []string) {
	id := lowerFirst(class)
	if i := strings.Index(text, " "+id+"FromJson(dynamic json_)"); i >= 0 {
		body := text[i:]
		if end := strings.Index(body, "\n\t}"); end >= 0 {
			body = body[:end]
		}
		for {
			j := strings.Index(body, "json['")
			if j < 0 {
				break
			}
			body = body[j+len("json['"):]
			from = append(from, body[:strings.Index(body, "']")])
		}
	}
	if i := strings.Index(text, " "+id+"ToJson("+class+" item)"); i >= 0 {
		body := text[i:]
		body = body[strings.Index(body, "return {")+len("return {"):]
		body = body[:strings.Index(body, "};")]
		for _, line := range strings.Split(body, "\n") {
			line = strings.TrimSpace(line)
			if strings.HasPrefix(line, "\"") {
				line = line[1:]
				to = append(to, line[:strings.Index(line, "\"")])
			}
		}
	}
	return
}

// HC06_e2e: real source packages through the real analysis and the Dart generator: for the structs
// hand-listed with the keys encoding/json writes for them, fromJson reads and toJson writes exactly
// those keys in field order, with one constructor argument each (embedded structs of exported and
// unexported type names, tags with options, '-' tags, unexported fields).
func HC06_e2e() {
	type entry struct {
		src   string
		class string
		keys  []string
	}
	catalogue := []entry{
		{"type tracking struct {\n\tCreatedBy string\n\tRevision int `json:\"rev\"`\n}\n\ntype Extra struct{ Tags []string }\n\ntype Payload struct {\n\ttracking\n\tExtra\n\tTitle string\n\tnote string\n\tHidden int `json:\"-\"`\n\tDash int `json:\"-,\"`\n}\n",
			"Payload", []string{"CreatedBy", "rev", "Tags", "Title", "-"}},
		{"type Inner struct {\n\tA int `json:\"a,omitempty\"`\n\tB string `json:\",omitempty\"`\n\tC bool `json:\",string\"`\n}\n\ntype Payload struct {\n\tIn Inner\n\tL []Inner\n}\n",
			"Inner", []string{"a", "B", "C"}},
	}
	e := catalogue[vfChoice("package", len(catalogue))]
	src := "package p\n\n" + e.src
	pkg := vfTypeCheck("example.com/mod/p", []string{"/m/p/p.go"}, []string{src}, nil)
	text := ""
	panicked, rt, msg := vfCatch(func() {
		ana := an.NewAnalysisFromFile(pkg, "/m/p/p.go")
		for _, out := range Generate("/home/u/go/src/example.com/mod/p", []*an.Analysis{ana}) {
			text += gen.WriteDeclarations(out.Content)
		}
	})
	vfObserve("outcome", msg)
	vfAssert(!rt && !panicked, "C06/catalogue-is-accepted-by-the-generator")
	if panicked {
		vfStop()
	}
	from, to := c06Keys(text, e.class)
	vfObserve("from", from)
	vfObserve("to", to)
	same := func(got []string) bool {
		ok := len(got) == len(e.keys)
		if ok {
			for i := range got {
				ok = ok && got[i] == e.keys[i]
			}
		}
		return ok
	}
	vfAssert(same(from), "C06/fromjson-reads-exactly-the-go-json-keys-in-field-order")
	vfAssert(same(to), "C06/tojson-writes-exactly-the-go-json-keys-in-field-order")
	// one constructor argument per key
	ctor := ""
	if i := strings.Index(text, "const "+e.class+"("); i >= 0 {
		ctor = text[i+len("const "+e.class+"("):]
		ctor = ctor[:strings.Index(ctor, ")")]
	}
	vfAssert(strings.Count(ctor, "this.") == len(e.keys), "C06/one-constructor-argument-per-exported-field")
}

// c06eFromJson: the <id>FromJson helpers a Dart text defines (defs) or uses (uses).
func c06eFromJson(text string) (defs map[string]int, uses []string) {
	defs = map[string]int{}
	from := 0
	for {
		i := strings.Index(text[from:], "FromJson(")
		if i < 0 {
			return
		}
		p := from + i
		from = p + len("FromJson(")
		j := p
		for j > 0 && (text[j-1] == '_' || (text[j-1] >= 'a' && text[j-1] <= 'z') || (text[j-1] >= 'A' && text[j-1] <= 'Z') || (text[j-1] >= '0' && text[j-1] <= '9')) {
			j--
		}
		if j == p {
			continue
		}
		if strings.HasPrefix(text[from:], "dynamic json") {
			defs[text[j:p]]++
		} else {
			uses = append(uses, text[j:p])
		}
	}
}

// HC06_e2eFiles: a tree of real source packages (types of three other packages reached through fields,
// map keys and a struct of yet another package; one of them also analysed as a source of its own)
// through the exported Generate: no file imports itself, every import names a generated file, every
// JSON helper a file uses is defined in that file or in a file it imports, and no file defines a
// helper twice. Only the exported API of the generator is used.
func HC06_e2eFiles() {
	keys := vfTypeCheck("example.com/mod/keys", []string{"/m/keys/keys.go"}, []string{"package keys\n\ntype IdUser int64\n\ntype Kind string\n\nconst (\n\tKA Kind = \"a\"\n\tKB Kind = \"b\"\n)\n"}, nil)
	other := vfTypeCheck("example.com/mod/other", []string{"/m/other/other.go"}, []string{"package other\n\ntype Thing struct {\n\tValues []int\n\tNames map[string]bool\n}\n"}, nil)
	sub := vfTypeCheck("example.com/mod/sub", []string{"/m/sub/sub.go"}, []string{"package sub\n\nimport \"example.com/mod/other\"\n\ntype Inner struct {\n\tL []int\n\tM map[string]bool\n\tO other.Thing\n}\n"}, []*packages.Package{other})
	variants := []string{
		"type Root struct {\n\tIn sub.Inner\n}\n\nvar _ keys.IdUser\n",
		"type Root struct {\n\tByUser map[keys.IdUser]string\n}\n\nvar _ sub.Inner\n",
		"type Root struct {\n\tByKind map[keys.Kind]sub.Inner\n}\n",
		"type Root struct {\n\tL [][]int\n\tIn sub.Inner\n\tByUser map[keys.IdUser][]keys.Kind\n}\n",
	}
	src := "package app\n\nimport (\n\t\"example.com/mod/keys\"\n\t\"example.com/mod/sub\"\n)\n\n" + variants[vfChoice("root", len(variants))]
	app := vfTypeCheck("example.com/mod/app", []string{"/m/app/app.go"}, []string{src}, []*packages.Package{keys, sub})
	alsoOther := vfChoice("otherIsASource", 3) // 0: no, 1: after the root file, 2: before it
	texts := map[string]string{}
	imports := map[string][]string{}
	panicked, rt, msg := vfCatch(func() {
		anas := []*an.Analysis{an.NewAnalysisFromFile(app, "/m/app/app.go")}
		switch alsoOther {
		case 1:
			anas = append(anas, an.NewAnalysisFromFile(other, "/m/other/other.go"))
		case 2:
			anas = append([]*an.Analysis{an.NewAnalysisFromFile(other, "/m/other/other.go")}, anas...)
		}
		for _, out := range Generate("/home/u/go/src/example.com/mod/app", anas) {
			text := gen.WriteDeclarations(out.Content)
			texts[out.Filename] = text
			for _, l := range strings.Split(text, "\n") {
				l = strings.TrimSpace(l)
				if strings.HasPrefix(l, "import '") {
					imports[out.Filename] = append(imports[out.Filename], strings.TrimSuffix(strings.TrimPrefix(l, "import '"), "';"))
				}
			}
		}
	})
	vfObserve("outcome", msg)
	vfAssert(!rt && !panicked, "C06/catalogue-is-accepted-by-the-generator")
	if panicked {
		vfStop()
	}
	okSelf, okImports, okOnce, okClosure, okTypes := true, true, true, true, true
	for file, text := range texts {
		defs, uses := c06eFromJson(text)
		for _, n := range defs {
			okOnce = okOnce && n == 1
		}
		for _, imp := range imports[file] {
			okSelf = okSelf && imp != file
			_, exists := texts[imp]
			okImports = okImports && exists
		}
		for _, u := range uses {
			// a definition of the file itself hides the imported ones; otherwise exactly one import must define it
			n := 0
			for _, imp := range imports[file] {
				d, _ := c06eFromJson(texts[imp])
				n += d[u]
			}
			resolved := defs[u] == 1 || (defs[u] == 0 && n == 1)
			if !resolved {
				vfObserve("helper", fmt.Sprint(file, ":", u, " defined ", defs[u], " times in the file and ", n, " times in its imports"))
			}
			okClosure = okClosure && resolved
		}
		// type names: classes, typedefs and enums used by the file
		declared := func(t string) map[string]int {
			out := map[string]int{}
			for _, l := range strings.Split(t, "\n") {
				l = strings.TrimSpace(l)
				for _, pre := range []string{"class ", "typedef ", "enum ", "abstract class "} {
					if strings.HasPrefix(l, pre) {
						name := strings.TrimSpace(l[len(pre):])
						k := 0
						for k < len(name) && (name[k] == '_' || (name[k] >= 'a' && name[k] <= 'z') || (name[k] >= 'A' && name[k] <= 'Z') || (name[k] >= '0' && name[k] <= '9')) {
							k++
						}
						out[name[:k]]++
					}
				}
			}
			return out
		}
		own := declared(text)
		for _, l := range strings.Split(text, "\n") {
			l = strings.TrimSpace(l)
			if !strings.HasPrefix(l, "final ") {
				continue
			}
			decl := l[len("final "):]
			if sp := strings.LastIndex(decl, " "); sp > 0 {
				decl = decl[:sp] // the type of the field
			}
			k := 0
			for k < len(decl) {
				c := decl[k]
				if !(c >= 'A' && c <= 'Z') {
					for k < len(decl) && (decl[k] == '_' || (decl[k] >= 'a' && decl[k] <= 'z') || (decl[k] >= 'A' && decl[k] <= 'Z') || (decl[k] >= '0' && decl[k] <= '9')) {
						k++
					}
					k++
					continue
				}
				j := k
				for j < len(decl) && (decl[j] == '_' || (decl[j] >= 'a' && decl[j] <= 'z') || (decl[j] >= 'A' && decl[j] <= 'Z') || (decl[j] >= '0' && decl[j] <= '9')) {
					j++
				}
				name := decl[k:j]
				k = j
				if name == "String" || name == "Map" || name == "List" || name == "DateTime" {
					continue
				}
				n := 0
				for _, imp := range imports[file] {
					n += declared(texts[imp])[name]
				}
				resolved := own[name] == 1 || (own[name] == 0 && n == 1)
				if !resolved {
					vfObserve("type", fmt.Sprint(file, ":", name, " declared ", own[name], " times in the file and ", n, " times in its imports"))
				}
				okTypes = okTypes && resolved
			}
		}
	}
	vfObserve("files", len(texts))
	vfAssert(okSelf, "C06/no-file-imports-itself")
	vfAssert(okImports, "C06/every-import-names-a-generated-file")
	vfAssert(okOnce, "C06/json-helpers-defined-once-per-file")
	vfAssert(okClosure, "C06/every-json-helper-used-resolves-to-one-definition-in-the-file-or-an-imported-file")
	vfAssert(okTypes, "C06/every-type-name-used-resolves-to-one-declaration-in-the-file-or-an-imported-file")
}
