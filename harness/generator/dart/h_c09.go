package dart

import (
	"go/types"

	an "github.com/benoitkugler/gomacro/analysis"
)

// c09Render: the Dart text (class + JSON routines, and what its fields pull in) for a struct.
func c09Render(fields []skelField) string {
	pkg := skelPkg()
	named := skelNamed(pkg, "S", types.NewStruct(nil, nil))
	st := skelStruct(pkg, named, fields)
	ana := &an.Analysis{Types: map[types.Type]an.Type{named: st}, Source: []types.Type{named}}
	lk := an.NewLinker("/home/u/go/src/example.com/mod", []*an.Analysis{ana})
	lk.Extension = ".dart"
	buf := newBuffer(lk)
	decl, imports := buf.codeForStruct(st)
	out := "<<" + decl.ID + ">>" + decl.Content
	for _, imp := range imports {
		out += "|import " + imp
	}
	// declarations pulled in by the fields, per output file (sorted file list)
	for _, f := range lk.OutputFiles() {
		out += "\n== " + f + "\n" + skelDeclsText(buf.files[f].decls)
	}
	return out
}

func HC09_dartIgnoredField() {
	c09IgnoredField(c09Render, "C09/ignored-field-leaves-dart-unchanged")
}

func HC09_dartKeyOnly() {
	c09KeyOnly(c09Render, "C09/dart-depends-on-field-only-through-selection-and-key")
}
