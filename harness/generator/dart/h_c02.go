package dart

import "strings"

// HC02_dartKind: the Dart union routines dispatch on the Go member names under Kind/Data.
func HC02_dartKind() { dartKind("C02") }

// HC06_union: same clauses, reported under C06.
func HC06_union() { dartKind("C06") }

func dartKind(prop string) {
	u, names := c02KindUnion()
	text := jsonForUnion(u)
	vfObserve("text", text)
	text = skelSquash(text)
	vfAssert(skelHas(text, "json['Kind'] as String") && skelHas(text, "json['Data']"), prop+"/dart-reads-kind-and-data")
	for _, nm := range names {
		class := strings.Title(nm) // the Dart class name; the Kind on the wire stays the Go name
		vfAssert(skelHas(text, "case \""+nm+"\":\n\t\t\treturn "+lowerFirst(class)+"FromJson(data);"), prop+"/dart-fromjson-dispatches-on-the-go-member-name")
		vfAssert(skelHas(text, "if (item is "+class+") {\n\t\t\treturn {'Kind': \""+nm+"\", 'Data': "+lowerFirst(class)+"ToJson(item)};"), prop+"/dart-tojson-writes-the-go-member-name-as-kind")
	}
	vfAssert(skelCount(text, "'Kind': \"") == len(names), prop+"/dart-one-case-per-member")
}
