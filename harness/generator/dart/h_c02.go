package dart


// HC02_dartKind: the Dart union routines dispatch on the Go member names under Kind/Data.
func HC02_dartKind() {
	u, names := c02KindUnion()
	text := jsonForUnion(u)
	vfObserve("text", text)
	text = skelSquash(text)
	vfAssert(skelHas(text, "json['Kind'] as String") && skelHas(text, "json['Data']"), "C02/dart-reads-kind-and-data")
	for _, nm := range names {
		vfAssert(skelHas(text, "case \""+nm+"\":\n\t\t\treturn "+lowerFirst(nm)+"FromJson(data);"), "C02/dart-fromjson-dispatches-on-the-go-member-name")
		vfAssert(skelHas(text, "if (item is "+nm+") {\n\t\t\treturn {'Kind': \""+nm+"\", 'Data': "+lowerFirst(nm)+"ToJson(item)};"), "C02/dart-tojson-writes-the-go-member-name-as-kind")
	}
	vfAssert(skelCount(text, "'Kind': \"") == len(names), "C02/dart-one-case-per-member")
}
