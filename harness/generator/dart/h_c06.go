package dart

import (
	"fmt"
	"go/constant"
	"go/types"
	"strings"

	an "github.com/benoitkugler/gomacro/analysis"
	gen "github.com/benoitkugler/gomacro/generator"
)

// HC06_struct: fromJson reads and toJson writes exactly the JSON keys Go uses, in field order,
// with one constructor argument per exported field.
func HC06_struct() {
	pkg := skelPkg()
	n := vfChoice("fields", 3)
	var fields []skelField
	var keys []string
	for i := 0; i < n; i++ {
		f := skelField{name: vfString(fmt.Sprint("name", i), 1, 2, "ident"), typ: []an.Type{an.Int, an.String}[vfChoice(fmt.Sprint("type", i), 2)]}
		for _, o := range fields {
			vfAssume(o.name != f.name)
		}
		f.hasTag = vfChoice(fmt.Sprint("hasTag", i), 2) == 1
		if f.hasTag {
			f.tag = "k" + vfString(fmt.Sprint("tag", i), 0, 1, "alnum")
		}
		fields = append(fields, f)
		if vfFork(skelIncluded(f)) {
			if f.hasTag {
				keys = append(keys, f.tag)
			} else {
				keys = append(keys, f.name)
			}
		}
	}
	named := skelNamed(pkg, "Thing", types.NewStruct(nil, nil))
	st := skelStruct(pkg, named, fields)
	ana := &an.Analysis{Types: map[types.Type]an.Type{named: st}, Source: []types.Type{named}}
	lk := an.NewLinker("/home/u/go/src/example.com/mod", []*an.Analysis{ana})
	lk.Extension = ".dart"
	buf := newBuffer(lk)
	decl, _ := buf.codeForStruct(st)
	text := skelSquash(decl.Content)
	vfObserve("text", text)
	// fromJson: the constructor call lists json['k'] in order; toJson: "k" : ... in order
	from, to, ctor := "", "", ""
	for i, k := range keys {
		sep := ""
		if i > 0 {
			sep = ","
		}
		id := "int"
		// the type of the i-th included field
		cnt := -1
		for _, f := range fields {
			if vfFork(skelIncluded(f)) {
				cnt++
				if cnt == i && f.typ == an.Type(an.String) {
					id = "string"
				}
			}
		}
		from += sep + id + "FromJson(json['" + k + "'])"
		to += sep + "\"" + k + "\":" + id + "ToJson(item." + lowerFirst(k) + ")"
		ctor += sep + "this." + lowerFirst(k)
	}
	vfAssert(skelHas(text, "returnThing("+from+");"), "C06/fromjson-reads-exactly-the-go-json-keys-in-field-order")
	vfAssert(skelHas(text, "return{"+to+"};"), "C06/tojson-writes-exactly-the-go-json-keys-in-field-order")
	vfAssert(skelHas(text, "constThing("+ctor+");"), "C06/one-constructor-argument-per-exported-field")
}

// HC06_implements: a member class is declared as implementing exactly its exported unions.
func HC06_implements() {
	pkg := skelPkg()
	named := skelNamed(pkg, "Thing", types.NewStruct(nil, nil))
	st := skelStruct(pkg, named, []skelField{{name: "X", typ: an.Int}})
	n := vfChoice("unions", 3)
	var want []string
	for i := 0; i < n; i++ {
		name := fmt.Sprint("U", i)
		if vfChoice(fmt.Sprint("unexported", i), 2) == 1 {
			name = fmt.Sprint("u", i)
		} else {
			want = append(want, name)
		}
		st.Implements = append(st.Implements, an.VfNewUnion(skelNamed(pkg, name, types.NewInterfaceType(nil, nil)), []an.Type{st}))
	}
	ana := &an.Analysis{Types: map[types.Type]an.Type{named: st}, Source: []types.Type{named}}
	lk := an.NewLinker("/home/u/go/src/example.com/mod", []*an.Analysis{ana})
	lk.Extension = ".dart"
	decl, _ := newBuffer(lk).codeForStruct(st)
	text := skelSquash(decl.Content)
	if len(want) == 0 {
		vfAssert(skelHas(text, "classThing{"), "C06/no-implements-clause-without-exported-union")
	} else {
		vfAssert(skelHas(text, "classThingimplements"+strings.Join(want, ",")+"{"), "C06/class-implements-exactly-its-exported-unions")
	}
}

func c06IsIdent(s string) bool {
	if len(s) == 0 {
		return false
	}
	ok := vfOr(vfOr(vfAnd(s[0] >= 'a', s[0] <= 'z'), vfAnd(s[0] >= 'A', s[0] <= 'Z')), s[0] == '_')
	for i := 1; i < len(s); i++ {
		c := s[i]
		ok = vfAnd(ok, vfOr(vfOr(vfAnd(c >= 'a', c <= 'z'), vfAnd(c >= 'A', c <= 'Z')), vfOr(vfAnd(c >= '0', c <= '9'), c == '_')))
	}
	return ok
}

// HC06_enum: the value table lists exactly the exported constants, parallel to the enum names,
// so that member<->value conversion is the identity on the wire; names are distinct identifiers.
func HC06_enum() {
	pkg := skelPkg()
	isInt := vfChoice("int", 2) == 1
	var under types.Type = types.Typ[types.String]
	if isInt {
		under = types.Typ[types.Int]
	}
	named := skelNamed(pkg, "Color", under)
	n := 1 + vfChoice("n", vfParam("C06.members", 2))
	var members []an.EnumMember
	for i := 0; i < n; i++ {
		name := vfString(fmt.Sprint("name", i), 1, vfParam("C06.name", 3), "ident")
		for _, m := range members {
			vfAssume(m.Const.Name() != name)
		}
		var val constant.Value = constant.MakeString(fmt.Sprint("v", i))
		if isInt {
			val = constant.MakeInt64(int64(vfChoice(fmt.Sprint("val", i), 4)))
		}
		members = append(members, an.EnumMember{Const: types.NewConst(0, pkg, name, named, val)})
	}
	e := an.VfNewEnum(named, members, false)
	an.VfSetIsIota(e)
	text := codeForEnum(e).Content
	vfObserve("isIota", e.IsIota)
	// the enum names
	open := strings.Index(text, "enum  Color {")
	body := text[open+len("enum  Color {"):]
	body = body[:strings.Index(body, "}")]
	var names []string
	for _, nm := range strings.Split(body, ",") {
		names = append(names, strings.TrimSpace(nm))
	}
	var exported []an.EnumMember
	for _, m := range e.Members {
		if vfFork(m.Const.Exported()) {
			exported = append(exported, m)
		}
	}
	if len(exported) == 0 {
		vfStop()
	}
	vfAssert(len(names) == len(exported), "C06/one-enum-name-per-exported-constant")
	if len(names) != len(exported) {
		return
	}
	distinct, idents := true, true
	for i := range names {
		idents = vfAnd(idents, c06IsIdent(names[i]))
		for j := 0; j < i; j++ {
			distinct = vfAnd(distinct, names[i] != names[j])
		}
	}
	trimmed := false
	for _, m := range exported {
		nm := m.Const.Name()
		for k := 0; k+1 < len(nm); k++ {
			trimmed = vfOr(trimmed, nm[k] == '_')
		}
	}
	vfKnown("C06/enum-names-collide-or-are-not-identifiers-after-prefix-trimming", trimmed)
	vfAssert(vfAnd(distinct, idents), "C06/enum-names-are-distinct-identifiers")
	if e.IsIota {
		// built-in index <-> value: the i-th listed constant has the value i
		ok := true
		for i, m := range exported {
			v, _ := constant.Int64Val(m.Const.Val())
			ok = ok && v == int64(i)
		}
		vfAssert(ok && strings.Contains(text, "return index;"), "C06/iota-enum-converts-by-position-only-when-values-are-positions")
	} else {
		vi := strings.Index(text, "static const _values = [")
		vfAssert(vi >= 0, "C06/non-iota-enum-has-a-value-table")
		if vi < 0 {
			return
		}
		vals := text[vi+len("static const _values = ["):]
		vals = vals[:strings.Index(vals, "]")]
		var list []string
		for _, v := range strings.Split(vals, ",") {
			list = append(list, strings.TrimSpace(v))
		}
		ok := len(list) == len(exported)
		if ok {
			for i, m := range exported {
				ok = ok && list[i] == m.Const.Val().String()
			}
		}
		vfAssert(ok, "C06/value-table-lists-exactly-the-exported-constants-in-name-order")
	}
}

func c06Helpers(text, suffix string, defsOnly bool) []string {
	var out []string
	from := 0
	for {
		i := strings.Index(text[from:], suffix+"(")
		if i < 0 {
			return out
		}
		p := from + i
		from = p + len(suffix) + 1
		j := p
		for j > 0 && (text[j-1] == '_' || (text[j-1] >= 'a' && text[j-1] <= 'z') || (text[j-1] >= 'A' && text[j-1] <= 'Z') || (text[j-1] >= '0' && text[j-1] <= '9')) {
			j--
		}
		if j == p {
			continue
		}
		isDef := strings.HasPrefix(text[from:], "dynamic json") || (suffix == "ToJson" && !strings.HasPrefix(text[from:], "item") && !strings.HasPrefix(text[from:], "k)") && !strings.HasPrefix(text[from:], "v)") && !strings.HasPrefix(text[from:], ")"))
		if defsOnly == isDef {
			out = append(out, text[j:p])
		}
	}
}

// HC06_files: no generated file imports itself; every JSON helper a file uses is defined exactly
// once, in that file or in a file it imports; the source type lands in the file of its package.
func HC06_files() {
	w := newSkelWorld()
	ty := w.anyType("t", vfParam("C06.depth", 2))
	named, isNamed := ty.Type().(*types.Named)
	if !isNamed {
		vfStop()
	}
	ana := &an.Analysis{Types: map[types.Type]an.Type{named: ty}, Source: []types.Type{named}}
	c06Register(ty, ana.Types, map[an.Type]bool{})
	var outs []Output
	panicked, _, _ := vfCatch(func() { outs = Generate("/home/u/go/src/example.com/mod", []*an.Analysis{ana}) })
	if panicked {
		vfStop()
	}
	texts := map[string]string{}
	imports := map[string][]string{}
	for _, o := range outs {
		texts[o.Filename] = gen.WriteDeclarations(o.Content)
		for _, d := range o.Content {
			if d.ID == "aa_imports" {
				for _, l := range strings.Split(d.Content, "\n") {
					if strings.HasPrefix(l, "import '") {
						imports[o.Filename] = append(imports[o.Filename], strings.TrimSuffix(strings.TrimPrefix(l, "import '"), "';"))
					}
				}
			}
		}
	}
	okSelf, okClosure, okOnce := true, true, true
	onlyBasicMissing := true // every undefined helper is the helper of a basic or time type
	for file, text := range texts {
		for _, imp := range imports[file] {
			okSelf = okSelf && imp != file
			_, exists := texts[imp]
			okClosure = okClosure && exists
		}
		defs := map[string]int{}
		for _, d := range c06Helpers(text, "FromJson", true) {
			defs[d]++
		}
		for _, n := range defs {
			okOnce = okOnce && n == 1
		}
		for _, u := range c06Helpers(text, "FromJson", false) {
			found := defs[u] > 0
			for _, imp := range imports[file] {
				for _, d := range c06Helpers(texts[imp], "FromJson", true) {
					found = found || d == u
				}
			}
			if !found {
				vfObserve("undefined", file+":"+u)
				onlyBasicMissing = onlyBasicMissing && (u == "int" || u == "string" || u == "bool" || u == "double" || u == "dateTime")
			}
			okClosure = okClosure && found
		}
	}
	vfAssert(okSelf, "C06/no-file-imports-itself")
	vfAssert(okOnce, "C06/json-helpers-defined-once-per-file")
	vfKnown("C06/helper-of-a-basic-type-reached-only-through-a-named-type-of-another-file", onlyBasicMissing && c06HasNamedBasic(ty, map[an.Type]bool{}))
	vfAssert(okClosure, "C06/every-json-helper-used-is-defined-in-the-file-or-an-imported-file")
	vfObserve("files", len(texts))
}

// c06Register records every named node of the skeleton in the analysis types (the linker walks them).
func c06Register(ty an.Type, into map[types.Type]an.Type, seen map[an.Type]bool) {
	if seen[ty] {
		return
	}
	seen[ty] = true
	if named, ok := ty.Type().(*types.Named); ok {
		into[named] = ty
	}
	switch ty := ty.(type) {
	case *an.Array:
		c06Register(ty.Elem, into, seen)
	case *an.Map:
		c06Register(ty.Key, into, seen)
		c06Register(ty.Elem, into, seen)
	case *an.Named:
		c06Register(ty.Underlying, into, seen)
	case *an.Pointer:
		c06Register(ty.Elem, into, seen)
	case *an.Struct:
		for _, f := range ty.Fields {
			c06Register(f.Type, into, seen)
		}
	case *an.Union:
		for _, m := range ty.Members {
			c06Register(m, into, seen)
		}
	}
}

// c06HasNamedBasic: the skeleton contains a named type over a basic or time type.
func c06HasNamedBasic(ty an.Type, seen map[an.Type]bool) bool {
	if seen[ty] {
		return false
	}
	seen[ty] = true
	switch ty := ty.(type) {
	case *an.Named:
		switch ty.Underlying.(type) {
		case *an.Basic, *an.Time:
			return true
		}
		return c06HasNamedBasic(ty.Underlying, seen)
	case *an.Array:
		return c06HasNamedBasic(ty.Elem, seen)
	case *an.Map:
		return c06HasNamedBasic(ty.Key, seen) || c06HasNamedBasic(ty.Elem, seen)
	case *an.Struct:
		for _, f := range ty.Fields {
			if c06HasNamedBasic(f.Type, seen) {
				return true
			}
		}
	case *an.Union:
		for _, m := range ty.Members {
			if c06HasNamedBasic(m, seen) {
				return true
			}
		}
	}
	return false
}

// HC06_mapKeys: JSON object keys are strings; Go writes integer keys in decimal: the Dart fromJson
// must parse the keys of integer kind (named or not) and take string keys as they are.
func HC06_mapKeys() {
	pkg := skelPkg()
	var key an.Type
	wantParse := false
	isEnum := false
	switch vfChoice("key", 6) {
	case 0:
		key = an.String
	case 1:
		key, wantParse = an.Int, true
	case 2:
		key, wantParse = an.VfNewNamed(skelNamed(pkg, "IdItem", types.Typ[types.Int64]), &an.Basic{B: types.Typ[types.Int64]}), true
	case 3:
		key = an.VfNewNamed(skelNamed(pkg, "Code", types.Typ[types.String]), an.String)
	case 4:
		key, wantParse = &an.Basic{B: types.Typ[types.Uint8]}, true
	default:
		named := skelNamed(pkg, "Level", types.Typ[types.Int])
		e := an.VfNewEnum(named, []an.EnumMember{{Const: types.NewConst(0, pkg, "Low", named, constant.MakeInt64(0))}}, true)
		key, wantParse, isEnum = e, true, true
	}
	elem := []an.Type{an.Int, an.String}[vfChoice("elem", 2)]
	text := skelSquash(jsonForMap(&an.Map{Key: key, Elem: elem}))
	vfObserve("text", text)
	vfKnown("C06/map-keyed-by-an-enum", isEnum)
	if wantParse {
		vfAssert(skelHas(text, "int.parse(k)"), "C06/integer-map-keys-are-parsed-from-their-decimal-form")
	} else {
		vfAssert(skelHas(text, "MapEntry(k as ") && !skelHas(text, "int.parse(k)"), "C06/string-map-keys-are-taken-as-they-are")
	}
}

// HC06_enumOrder: the same clauses on enums of up to 4 constants with one-letter names (the order of
// the Dart enum names against the values needs at least 3 constants to go wrong).
func HC06_enumOrder() { HC06_enum() }
