package dart

import (
	"fmt"
	"go/types"

	an "github.com/benoitkugler/gomacro/analysis"
)

// c07Sources: two analyses (two packages of one module); the struct of the first one uses a
// type of the second, a stdlib-like type and a list, so that several files import each other.
func c07Sources() []*an.Analysis {
	pa := types.NewPackage("example.com/mod/a", "a")
	pb := types.NewPackage("example.com/mod/b", "b")
	nb := skelNamed(pb, "B", types.NewStruct(nil, nil))
	sb := skelStruct(pb, nb, []skelField{{name: "X", typ: an.Int}, {name: "Y", typ: an.String}})
	na := skelNamed(pa, "A", types.NewStruct(nil, nil))
	fields := []skelField{{name: "B", typ: sb}, {name: "L", typ: &an.Array{Elem: sb, Len: -1}}}
	typesA := map[types.Type]an.Type{nb: sb}
	if vfParam("C07.dart", 0) >= 1 {
		pc := types.NewPackage("other.org/c", "c")
		nc := skelNamed(pc, "C", types.Typ[types.Int])
		tc := an.VfNewNamed(nc, an.Int)
		fields = append(fields, skelField{name: "C", typ: tc})
		typesA[nc] = tc
	}
	sa := skelStruct(pa, na, fields)
	typesA[na] = sa
	anaA := &an.Analysis{Types: typesA, Source: []types.Type{na}}
	if vfParam("C07.dart", 0) >= 2 {
		anaB := &an.Analysis{Types: map[types.Type]an.Type{nb: sb}, Source: []types.Type{nb}}
		return []*an.Analysis{anaA, anaB}
	}
	return []*an.Analysis{anaA}
}

// c07Files renders the output as "file name -> text", sorted by file name: the statement is
// about the set of files and their text.
func c07Files(outs []Output) string {
	names := make([]string, 0, len(outs))
	byName := map[string]string{}
	for _, o := range outs {
		names = append(names, o.Filename)
		byName[o.Filename] = skelDeclsText(o.Content)
	}
	// insertion sort (no package sort in the oracle)
	for i := 1; i < len(names); i++ {
		for j := i; j > 0 && names[j] < names[j-1]; j-- {
			names[j], names[j-1] = names[j-1], names[j]
		}
	}
	out := ""
	for _, n := range names {
		out += fmt.Sprint("== ", n, "\n", byName[n])
	}
	return out
}

// HC07_dartGenerate: same files with the same text for every map iteration order.
func HC07_dartGenerate() {
	src := c07Sources()
	vfPermuteMaps(false)
	ref := c07Files(Generate("/home/u/go/src/example.com/mod", src))
	vfPermuteMaps(true)
	reps := 1
	if !vfEngine() {
		reps = 32
	}
	for r := 0; r < reps; r++ {
		got := Generate("/home/u/go/src/example.com/mod", src)
		vfPermuteMaps(false)
		text := c07Files(got)
		vfPermuteMaps(true)
		vfAssert(text == ref, "C07/dart-files-independent-of-map-order")
	}
	vfObserve("ref", ref)
}
