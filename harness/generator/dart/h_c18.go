package dart

import (
	"fmt"
	"go/constant"
	"go/types"

	an "github.com/benoitkugler/gomacro/analysis"
)

// HC18_dartEnumNames: constant names are free identifiers; the xxx_ prefix trimming and the
// lower-casing of the first letter must not crash on any of them.
func HC18_dartEnumNames() {
	pkg := skelPkg()
	named := skelNamed(pkg, "E", types.Typ[types.Int])
	var members []an.EnumMember
	n := 1 + vfChoice("n", 2)
	for i := 0; i < n; i++ {
		name := vfString(fmt.Sprint("const", i), 1, vfParam("C18.name", 3), "ident")
		for _, m := range members {
			vfAssume(m.Const.Name() != name)
		}
		members = append(members, an.EnumMember{Const: types.NewConst(0, pkg, name, named, constant.MakeInt64(int64(i)))})
	}
	e := an.VfNewEnum(named, members, false)
	an.VfSetIsIota(e)
	rt, msg := skelDiagnostic(func() { codeForEnum(e) })
	vfObserve("outcome", msg)
	vfAssert(!rt, "C18/dart-no-runtime-error-on-constant-names")
}

// HC18_dartSweep: every type skeleton either generates or is refused explicitly.
func HC18_dartSweep() {
	w := newSkelWorld()
	ty := w.anyType("t", vfParam("C18.depth", 2))
	rt, msg := skelDiagnostic(func() {
		_ = jsonID(ty)
		_ = typeName(ty)
		if named, ok := ty.Type().(*types.Named); ok {
			ana := &an.Analysis{Types: map[types.Type]an.Type{named: ty}, Source: []types.Type{named}}
			Generate("/home/u/go/src/example.com/mod", []*an.Analysis{ana})
		}
	})
	vfObserve("outcome", msg)
	vfAssert(!rt, "C18/dart-no-runtime-error")
}
