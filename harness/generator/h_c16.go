package generator

import (
	"fmt"
	"go/types"

	"github.com/benoitkugler/gomacro/analysis"
	"github.com/benoitkugler/gomacro/analysis/sql"
)

func c16IsWordByte(c byte) bool {
	return vfOr(vfOr(vfAnd(c >= 'a', c <= 'z'), vfAnd(c >= 'A', c <= 'Z')), vfOr(vfAnd(c >= '0', c <= '9'), c == '_'))
}

// c16RefReplace: reference for whole-word replacement written with plain loops: maximal runs of
// [0-9A-Za-z_] are words; a word equal to a table name is replaced, everything else is copied.
func c16RefReplace(input string, names []string, subs []string) string {
	out := ""
	i := 0
	for i < len(input) {
		if !c16IsWordByte(input[i]) {
			out += input[i : i+1]
			i++
			continue
		}
		j := i
		for j < len(input) && c16IsWordByte(input[j]) {
			j++
		}
		word := input[i:j]
		repl := word
		for k, n := range names {
			if word == n {
				repl = subs[k]
			}
		}
		out += repl
		i = j
	}
	return out
}

// HC16_tableNameReplacer: every whole-word occurrence of a table-struct name is replaced by the
// SQL table name and no other word is altered (names containing table names as substrings included).
func HC16_tableNameReplacer() {
	pkg := types.NewPackage("example.com/mod/pkg", "pkg")
	nt := 1 + vfChoice("tables", vfParam("C16.tables", 1))
	var tables []sql.Table
	var names, subs []string
	for i := 0; i < nt; i++ {
		// table names are concrete (their snake-case form is computed by the real ToSnakeCase),
		// chosen so that one is a prefix of the other
		name := []string{"Item", "ItemLink", "It"}[vfChoice(fmt.Sprint("name", i), 3)]
		for _, n := range names {
			vfAssume(n != name)
		}
		named := types.NewNamed(types.NewTypeName(0, pkg, name, nil), types.NewStruct(nil, nil), nil)
		tables = append(tables, sql.NewTable(&analysis.Struct{Name: named}))
		names = append(names, name)
		subs = append(subs, SQLTableName(sql.TableName(name)))
	}
	rp := NewTableNameReplacer(tables)
	// the input: symbolic text around and inside a possible occurrence of the first table name
	pre := vfString("pre", 0, vfParam("C16.pre", 2), "sqltext")
	post := vfString("post", 0, vfParam("C16.post", 2), "sqltext")
	mid := ""
	switch vfChoice("mid", 3) {
	case 1:
		mid = names[0]
	case 2:
		mid = names[0] + " " + names[len(names)-1]
	}
	input := pre + mid + post
	got := rp.Replace(input)
	want := c16RefReplace(input, names, subs)
	vfObserve("got", got)
	vfAssert(got == want, "C16/whole-word-table-names-replaced-nothing-else-altered")
}

func c16IsDigit(c byte) bool { return vfAnd(c >= '0', c <= '9') }

// HC16_replaceEnums: #[Type.Const] becomes the SQL literal of the constant (numbers as written,
// strings single-quoted), possibly followed by an SQL comment; the surrounding text is untouched.
func HC16_replaceEnums() {
	stringBacked := vfChoice("stringBacked", 2) == 1
	ana := c18EnumAnalysis(stringBacked)
	pre := vfString("pre", 0, vfParam("C16.pre", 2), "sqltext")
	post := vfString("post", 0, vfParam("C16.post", 2), "sqltext")
	member := []string{"A", "B"}[vfChoice("member", 2)]
	content := pre + "#[E." + member + "]" + post
	// the surrounding text must not itself extend the placeholder into another one
	got := ReplaceEnums(ana, content)
	vfObserve("got", got)
	literal := map[string]string{"A": "3", "B": "4"}[member]
	if stringBacked {
		literal = "'v" + member + "'"
	}
	ok := len(got) >= len(pre)+len(literal)+len(post)
	if ok {
		ok = vfAnd(got[:len(pre)] == pre, got[len(got)-len(post):] == post)
		ok = vfAnd(ok, got[len(pre):len(pre)+len(literal)] == literal)
		// what follows the literal is blank space and an SQL comment
		rest := got[len(pre)+len(literal) : len(got)-len(post)]
		if len(rest) > 0 {
			ok = vfAnd(ok, len(rest) >= 5 && rest[:3] == " /*" && rest[len(rest)-2:] == "*/")
		}
	}
	vfAssert(ok, "C16/enum-placeholder-becomes-the-sql-literal-of-the-constant")
}

func c08Upper(c byte) bool { return vfAnd(c >= 'A', c <= 'Z') }
func c08Lower(c byte) bool { return vfAnd(c >= 'a', c <= 'z') }
func c08Digit(c byte) bool { return vfAnd(c >= '0', c <= '9') }

// c08RefSnake: the snake-case convention written with plain loops:
// (1) an underscore goes between any character and a capitalised word (an upper-case letter
// followed by at least one lower-case letter), scanning left to right without overlap;
// (2) then between a lower-case letter or digit and an upper-case letter; (3) lower-case all.
func c08RefSnake(s string) string {
	// pass 1
	var p1 []byte
	i := 0
	for i < len(s) {
		if i+2 < len(s) && vfFork(vfAnd(c08Upper(s[i+1]), c08Lower(s[i+2]))) {
			j := i + 3
			for j < len(s) && vfFork(c08Lower(s[j])) {
				j++
			}
			p1 = append(p1, s[i], '_')
			p1 = append(p1, s[i+1:j]...)
			i = j
			continue
		}
		p1 = append(p1, s[i])
		i++
	}
	// pass 2
	var p2 []byte
	i = 0
	for i < len(p1) {
		if i+1 < len(p1) && vfFork(vfAnd(vfOr(c08Lower(p1[i]), c08Digit(p1[i])), c08Upper(p1[i+1]))) {
			p2 = append(p2, p1[i], '_', p1[i+1])
			i += 2
			continue
		}
		p2 = append(p2, p1[i])
		i++
	}
	for k, c := range p2 {
		if vfFork(c08Upper(c)) {
			p2[k] = c + 32
		}
	}
	return string(p2)
}

// HC08_snakeCase: table names follow the snake-case-plural convention, for every name.
func HC08_snakeCase() {
	name := vfString("name", 1, vfParam("C08.table", 4), "alnum")
	got := SQLTableName(sql.TableName(name))
	vfObserve("got", got)
	vfAssert(got == c08RefSnake(name)+"s", "C08/table-named-by-the-snake-case-plural-convention")
}

// HC16_replaceEnumsTwoFiles: one process expands the placeholders of two model files whose packages
// declare the same enum and constant names with different values (what `gomacro -config` does): each
// file gets the literals of its own constants, whatever was expanded before.
func HC16_replaceEnumsTwoFiles() {
	first := vfChoice("first", 2) == 1
	member := []string{"A", "B"}[vfChoice("member", 2)]
	again := []string{"A", "B"}[vfChoice("again", 2)]
	anas := []*analysis.Analysis{c18EnumAnalysis(first), c18EnumAnalysis(!first)}
	ok := true
	for round, m := range []string{member, again, member} {
		i := round % 2
		stringBacked := first == (i == 0)
		got := ReplaceEnums(anas[i], "x = #[E."+m+"]")
		want := "x = " + map[string]string{"A": "3", "B": "4"}[m]
		if stringBacked {
			want = "x = 'v" + m + "'"
		}
		vfObserve("got", got)
		ok = ok && len(got) >= len(want) && got[:len(want)] == want
	}
	vfAssert(ok, "C16/enum-placeholder-becomes-the-sql-literal-of-the-constant-of-its-own-file")
}
