package generator

import "fmt"

// refAssemble is the reference of C19 written without package sort: the distinct IDs, those
// having at least one priority declaration first, each group in increasing byte-wise ID order,
// each content followed by a newline.
func refAssemble(decls []Declaration) string {
	n := len(decls)
	// rep[i]: i is the first declaration carrying its ID
	rep := make([]bool, n)
	prio := make([]bool, n) // for representatives: some declaration with the same ID has Priority
	for i := 0; i < n; i++ {
		first := true
		pr := false
		for j := 0; j < n; j++ {
			same := decls[j].ID == decls[i].ID
			if j < i {
				first = vfAnd(first, !same)
			}
			pr = vfOr(pr, vfAnd(same, decls[j].Priority))
		}
		rep[i] = first
		prio[i] = pr
	}
	out := ""
	for pass := 0; pass < 2; pass++ {
		done := make([]bool, n)
		for count := 0; count < n; count++ {
			best := -1
			for i := 0; i < n; i++ {
				if done[i] || !rep[i] || prio[i] != (pass == 0) {
					continue
				}
				if best < 0 || decls[i].ID < decls[best].ID {
					best = i
				}
			}
			if best < 0 {
				break
			}
			done[best] = true
			out += decls[best].Content + "\n"
		}
	}
	return out
}

func c19Decls() []Declaration {
	n := vfChoice("n", vfParam("C19.n", 3)+1)
	shape := vfChoice("shape", 2) // 0: IDs of length 0 or 1 (mixed), 1: all IDs of length 2
	decls := make([]Declaration, n)
	for i := range decls {
		var id string
		minContent := 1
		if shape == 0 {
			id = vfString(fmt.Sprint("id", i), 0, 1, "byte")
			minContent = 0 // a declaration may have an empty content: its line is still emitted
		} else {
			id = vfString(fmt.Sprint("id", i), 2, 2, "byte")
		}
		decls[i] = Declaration{
			ID:       id,
			Content:  vfString(fmt.Sprint("content", i), minContent, 1, "byte"),
			Priority: vfBool(fmt.Sprint("prio", i)),
		}
	}
	// precondition of the statement: equal IDs carry equal content
	for i := range decls {
		for j := 0; j < i; j++ {
			vfAssume(vfImplies(decls[i].ID == decls[j].ID, decls[i].Content == decls[j].Content))
		}
	}
	// Native replay only (C19.pad is 0 in the engine): Go's pdqsort is a stable insertion sort below
	// 12 elements, so an arrangement that only the contract of sort.Slice allows cannot show up
	// natively with n <= 4. The counterexample is embedded among fresh, larger, distinct IDs.
	pad := vfParam("C19.pad", 0)
	for k := 0; k < pad; k++ {
		decls = append(decls, Declaration{
			ID:       "\xff\xff\xff" + string(rune('A'+(k*7)%pad)) + fmt.Sprint(k),
			Content:  fmt.Sprint("pad", k),
			Priority: k%3 == 0,
		})
	}
	return decls
}

// HC19_assembly: WriteDeclarations == reference, for every input and every arrangement an
// unstable sort.Slice may return.
func HC19_assembly() {
	decls := c19Decls()
	want := refAssemble(decls)
	got := WriteDeclarations(append([]Declaration(nil), decls...))
	vfObserve("got", got)
	vfAssert(got == want, "C19/each-id-once-priority-first-increasing-id")
}

var c19Perms = [][]int{
	{0, 1, 2, 3}, {0, 1, 3, 2}, {0, 2, 1, 3}, {0, 2, 3, 1}, {0, 3, 1, 2}, {0, 3, 2, 1},
	{1, 0, 2, 3}, {1, 0, 3, 2}, {1, 2, 0, 3}, {1, 2, 3, 0}, {1, 3, 0, 2}, {1, 3, 2, 0},
	{2, 0, 1, 3}, {2, 0, 3, 1}, {2, 1, 0, 3}, {2, 1, 3, 0}, {2, 3, 0, 1}, {2, 3, 1, 0},
	{3, 0, 1, 2}, {3, 0, 2, 1}, {3, 1, 0, 2}, {3, 1, 2, 0}, {3, 2, 0, 1}, {3, 2, 1, 0},
}

// HC19_orderIndependent: the text does not depend on the order in which the declarations
// were supplied (directly, without the reference).
func HC19_orderIndependent() {
	decls := c19Decls()
	n := len(decls)
	// permutations of n elements: those entries of c19Perms that fix the positions >= n
	var perms [][]int
	for _, pm := range c19Perms {
		ok := true
		for k := n; k < 4; k++ {
			if pm[k] != k {
				ok = false
			}
		}
		if ok {
			perms = append(perms, pm)
		}
	}
	pm := perms[vfChoice("perm", len(perms))]
	shuffled := make([]Declaration, n)
	for i := 0; i < n; i++ {
		shuffled[i] = decls[pm[i]]
	}
	a := WriteDeclarations(append([]Declaration(nil), decls...))
	b := WriteDeclarations(shuffled)
	vfAssert(a == b, "C19/independent-of-supply-order")
}
