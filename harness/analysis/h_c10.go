package analysis

import (
	"fmt"
	"go/constant"
	"go/types"
)

// HC10_setIsIota: the iota flag is exact and the member list is only reordered.
func HC10_setIsIota() {
	n := vfChoice("n", vfParam("C10.n", 4)+1)
	pkg := types.NewPackage("example.com/p", "p")
	kinds := []types.BasicKind{types.Int, types.Uint8, types.Uint64, types.String, types.Int64}
	backing := kinds[vfChoice("backing", len(kinds))]
	named := types.NewNamed(types.NewTypeName(0, pkg, "E", nil), types.Typ[backing], nil)
	e := &Enum{name: named}
	vals := make([]int64, n)
	exact := make([]bool, n) // the constant is representable as int64
	for i := 0; i < n; i++ {
		nm := vfString(fmt.Sprint("name", i), 1, 1, "ident")
		var val constant.Value
		exact[i] = true
		switch backing {
		case types.String:
			val = constant.MakeString("s")
			exact[i] = false
		case types.Uint8:
			vals[i] = vfInt(fmt.Sprint("val", i), 0, 255)
			val = constant.MakeInt64(vals[i])
		case types.Uint64:
			if vfChoice(fmt.Sprint("big", i), 2) == 1 {
				val = constant.MakeUint64(1<<63 + 5) // legal uint64 constant, not an int64
				exact[i] = false
			} else {
				vals[i] = vfInt(fmt.Sprint("val", i), 0, 1<<63-1)
				val = constant.MakeInt64(vals[i])
			}
		default:
			vals[i] = vfInt(fmt.Sprint("val", i), -1<<63, 1<<63-1)
			val = constant.MakeInt64(vals[i])
		}
		e.Members = append(e.Members, EnumMember{Const: types.NewConst(0, pkg, nm, named, val), Comment: fmt.Sprint("c", i)})
	}
	// constants of one package have distinct names
	for i := 0; i < n; i++ {
		for j := 0; j < i; j++ {
			vfAssume(e.Members[i].Const.Name() != e.Members[j].Const.Name())
		}
	}
	before := append([]EnumMember(nil), e.Members...)

	e.setIsIota()

	// (i) members: same constants, each once, comments attached to the same constant
	same := len(e.Members) == n
	for _, b := range before {
		count := 0
		for _, a := range e.Members {
			if a.Const == b.Const {
				count++
				same = same && a.Comment == b.Comment
			}
		}
		same = same && count == 1
	}
	vfAssert(same, "C10/members-each-once-with-their-comment")

	integer := backing != types.String
	if e.IsIota {
		vfAssert(integer, "C10/iota-only-integer-backed")
		// (ii) exported members, in the reported order, have the values 0,1,2,...
		k := int64(0)
		ok := true
		for _, m := range e.Members {
			v, isInt := constant.Int64Val(m.Const.Val())
			if m.Const.Exported() {
				ok = vfAnd(ok, vfAnd(isInt, v == k))
				k++
			}
		}
		vfAssert(ok, "C10/iota-implies-exported-values-0-1-2-in-order")
	}

	// (iii) every plain iota block of exported non-negative constants is flagged
	allExported := true
	perm := integer
	for i := 0; i < n; i++ {
		allExported = vfAnd(allExported, before[i].Const.Exported())
		if !exact[i] {
			perm = false
			continue
		}
		perm = vfAnd(perm, vfAnd(vals[i] >= 0, vals[i] < int64(n)))
		for j := 0; j < i; j++ {
			if exact[j] {
				perm = vfAnd(perm, vals[i] != vals[j])
			}
		}
	}
	vfAssert(vfImplies(vfAnd(allExported, perm), e.IsIota), "C10/plain-iota-block-is-flagged")
	vfObserve("isIota", e.IsIota)
}
