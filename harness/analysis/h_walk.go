package analysis

import (
	"go/ast"
	"go/constant"
	"go/token"
	"go/types"

	"golang.org/x/tools/go/packages"
)

// walkPkg: a package declaring an enum E (one typed constant, real const declaration in its
// syntax tree) and a union U with one member M.
func walkPkg(path, name string) *packages.Package {
	fset := token.NewFileSet()
	tf := fset.AddFile(name+".go", -1, 1000)
	base := token.Pos(tf.Base())
	pkg := types.NewPackage(path, name)
	e := types.NewNamed(types.NewTypeName(0, pkg, "E", nil), types.Typ[types.Int], nil)
	c := types.NewConst(base+30, pkg, "EA", e, constant.MakeInt64(0))
	itf := types.NewNamed(types.NewTypeName(0, pkg, "U", nil), c11Interface(pkg, []string{"isA"}), nil)
	m := types.NewNamed(types.NewTypeName(0, pkg, "M", nil), types.NewStruct(nil, nil), nil)
	c11Method(pkg, m, "isA", false)
	for _, o := range []types.Object{e.Obj(), c, itf.Obj(), m.Obj()} {
		pkg.Scope().Insert(o)
	}
	spec := &ast.ValueSpec{
		Names:  []*ast.Ident{{NamePos: base + 30, Name: "EA"}},
		Type:   &ast.Ident{NamePos: base + 33, Name: "E"},
		Values: []ast.Expr{&ast.BasicLit{ValuePos: base + 37, Kind: token.INT, Value: "0"}},
	}
	gen := &ast.GenDecl{TokPos: base + 24, Tok: token.CONST, Specs: []ast.Spec{spec}}
	file := &ast.File{Package: base + 1, Name: &ast.Ident{NamePos: base + 9, Name: name}, Decls: []ast.Decl{gen}}
	return &packages.Package{ID: path, Name: name, PkgPath: path, Fset: fset, Syntax: []*ast.File{file}, Types: pkg,
		Imports: map[string]*packages.Package{}}
}

// walkCheck: the enums and unions found from the root are exactly those of the packages reachable
// through imports inside the root's <domain>/<org> prefix — whatever the packages are called
// (two of them share their package name) and however often a package is reached.
func walkCheck(clauseEnums, clauseUnions string) {
	root := walkPkg("example.com/mod/models", "models")
	dbModels := walkPkg("example.com/mod/db/models", "models") // same package name, other path
	billing := walkPkg("example.com/mod/billing", "billing")
	shared := walkPkg("example.com/mod/shared", "shared")
	ext := walkPkg("other.org/lib/models", "models") // outside the prefix
	unreached := walkPkg("example.com/mod/unreached", "unreached")
	root.Imports[dbModels.PkgPath] = dbModels
	root.Imports[ext.PkgPath] = ext
	switch vfChoice("shape", 3) {
	case 0: // chain
		dbModels.Imports[billing.PkgPath] = billing
		billing.Imports[shared.PkgPath] = shared
	case 1: // diamond
		root.Imports[billing.PkgPath] = billing
		dbModels.Imports[shared.PkgPath] = shared
		billing.Imports[shared.PkgPath] = shared
	default: // through an external package nothing is reached
		root.Imports[billing.PkgPath] = billing
		billing.Imports[shared.PkgPath] = shared
		ext.Imports[unreached.PkgPath] = unreached
	}
	if vfChoice("permute", 2) == 1 {
		vfPermuteMaps(true)
	}
	enums, unions := fetchEnumsAndUnions(root)
	vfPermuteMaps(false)

	want := []*packages.Package{root, dbModels, billing, shared}
	notWant := []*packages.Package{ext, unreached}
	okE, okU := len(enums) == len(want), len(unions) == len(want)
	for _, pa := range want {
		e := pa.Types.Scope().Lookup("E").Type().(*types.Named)
		u := pa.Types.Scope().Lookup("U").Type().(*types.Named)
		m := pa.Types.Scope().Lookup("M").Type().(*types.Named)
		en, has := enums[e]
		okE = okE && has && len(en.Members) == 1 && en.Members[0].Const == pa.Types.Scope().Lookup("EA")
		ms, hasU := unions[u]
		okU = okU && hasU && len(ms) == 1 && ms[0] == m
	}
	for _, pa := range notWant {
		_, has := enums[pa.Types.Scope().Lookup("E").Type().(*types.Named)]
		_, hasU := unions[pa.Types.Scope().Lookup("U").Type().(*types.Named)]
		okE = okE && !has
		okU = okU && !hasU
	}
	vfObserve("enums", len(enums))
	vfObserve("unions", len(unions))
	vfAssert(okE, clauseEnums)
	vfAssert(okU, clauseUnions)
}

func HC10_packageWalk() {
	walkCheck("C10/enums-of-every-reachable-package-of-the-tree-exactly", "C10/walk-unions-side")
}

func HC11_packageWalk() {
	walkCheck("C11/walk-enums-side", "C11/unions-of-every-reachable-package-of-the-tree-exactly")
}
