package analysis

import (
	"encoding/json"
	"fmt"
	"go/types"
	"reflect"
	"sort"

	"golang.org/x/tools/go/packages"
)

// c09iDecl: one declared (non-embedded) field and what encoding/json does with it.
// The tags are drawn from a catalogue of well-formed tags, so the rule of encoding/json reads:
// serialised iff the Go name is exported and the tag is not json:"-"; taken into the generated
// outputs iff moreover it is not tagged gomacro:"ignore"; key = name part of the json tag when
// there is one, else the Go field name.
type c09iDecl struct {
	v        *types.Var
	goName   string
	tag      string
	included bool
	key      string
}

// tag modes of the catalogue
const (
	c09iNoTag     = iota // no tag: key = Go name
	c09iNamed            // json:"k<id>"
	c09iNamedOmit        // json:"k<id>,omitempty"
	c09iOptsOnly         // json:",omitempty": key = Go name
	c09iDash             // json:"-": not serialised
	c09iIgnore           // gomacro:"ignore": left out by gomacro
)

func c09iField(pkg *types.Package, goName string, exported bool, typ types.Type, mode int, id string) c09iDecl {
	d := c09iDecl{goName: goName, key: goName, included: exported}
	switch mode {
	case c09iNamed:
		d.tag, d.key = `json:"k`+id+`"`, "k"+id
	case c09iNamedOmit:
		d.tag, d.key = `json:"k`+id+`,omitempty"`, "k"+id
	case c09iOptsOnly:
		d.tag = `json:",omitempty"`
	case c09iDash:
		d.tag, d.included = `json:"-"`, false
	case c09iIgnore:
		d.tag, d.included = `gomacro:"ignore"`, false
	}
	d.v = types.NewField(0, pkg, goName, typ, false)
	return d
}

// c09iRealKeys (native runs only): the keys the real encoding/json writes for a struct made of
// `before` + an embedded struct of `base` + `after` (hasBase false: no embedding). Unexported fields
// cannot be given to reflect.StructOf and gomacro:"ignore" is not a notion of encoding/json: both are
// left out of the reflect type (their being ignored is part of the stated rule, not of this cross-check).
func c09iRealKeys(before, base, after []c09iDecl, hasBase bool) []string {
	conv := func(ds []c09iDecl) (out []reflect.StructField) {
		for _, d := range ds {
			if !(d.goName[0] >= 'A' && d.goName[0] <= 'Z') || d.tag == `gomacro:"ignore"` {
				continue
			}
			typ := reflect.TypeOf("") // filled with a non-empty content below, so that omitempty keeps the key
			out = append(out, reflect.StructField{Name: d.goName, Type: typ, Tag: reflect.StructTag(d.tag)})
		}
		return out
	}
	fields := conv(before)
	if hasBase {
		fields = append(fields, reflect.StructField{Name: "Base", Type: reflect.StructOf(conv(base)), Anonymous: true})
	}
	fields = append(fields, conv(after)...)
	val := reflect.New(reflect.StructOf(fields)).Elem()
	var fill func(v reflect.Value)
	fill = func(v reflect.Value) {
		for i := 0; i < v.NumField(); i++ {
			switch f := v.Field(i); f.Kind() {
			case reflect.String:
				f.SetString("x")
			case reflect.Struct:
				fill(f)
			}
		}
	}
	fill(val)
	b, err := json.Marshal(val.Interface())
	if err != nil {
		return []string{"<error>"}
	}
	var m map[string]any
	json.Unmarshal(b, &m)
	keys := []string{}
	for k := range m {
		keys = append(keys, k)
	}
	sort.Strings(keys)
	return keys
}

// HC09_sharedBase: C09 over a *package* of structs sharing an embedded base, analysed together:
// one base struct of 1..C09.base fields (symbolic names; at most one of them ignored in one of the
// three ways, or tagged with options) and 2..3 structs embedding it — as their first field or after
// a field of their own — each followed by 1..2 own fields. Whatever the order in which the structs
// are analysed, EVERY struct (the base and each embedder) shows exactly the fields encoding/json
// serialises for it (minus gomacro:"ignore"), under the keys encoding/json uses, the promoted fields
// standing where the embedding stands.
func HC09_sharedBase() {
	pkg := types.NewPackage("example.com/mod/p", "p")
	lib := types.NewPackage("other.org/lib", "lib") // outside the root prefix: no comment lookup
	root := &packages.Package{PkgPath: "example.com/mod/p", Types: pkg}
	kinds := []types.Type{types.Typ[types.Int], types.Typ[types.String], types.Typ[types.Bool]}

	// the base
	nb := 1 + vfChoice("baseFields", vfParam("C09.base", 5))
	oddAt := vfChoice("specialBaseField", nb+1) // nb: none
	oddHow := 0
	if oddAt < nb {
		oddHow = vfChoice("specialHow", 4)
	}
	var all []string // Go names in use within one struct must differ
	fresh := func(label, prefix string) string {
		name := prefix + vfString(label, 1, 1, "alnum")
		for _, o := range all {
			vfAssume(o != name)
		}
		all = append(all, name)
		return name
	}
	var base []c09iDecl
	for i := 0; i < nb; i++ {
		exported, mode := true, i%2 // untagged / tagged in turn
		if i == oddAt {
			switch oddHow {
			case 0:
				exported = false
			case 1:
				mode = c09iDash
			case 2:
				mode = c09iIgnore
			default:
				mode = c09iNamedOmit + i%2 // json:"k..,omitempty" or json:",omitempty"
			}
		}
		prefix := "B"
		if !exported {
			prefix = "b"
		}
		base = append(base, c09iField(lib, fresh(fmt.Sprint("bname", i), prefix), exported, kinds[i%3], mode, fmt.Sprint("b", i)))
	}
	mk := func(name string, groups ...[]c09iDecl) *types.Named {
		var vars []*types.Var
		var tags []string
		for _, g := range groups {
			for _, d := range g {
				vars = append(vars, d.v)
				tags = append(tags, d.tag)
			}
		}
		return types.NewNamed(types.NewTypeName(0, lib, name, nil), types.NewStruct(vars, tags), nil)
	}
	baseNamed := mk("Base", base)

	// the embedders
	ne := 2 + vfChoice("embedders", 2)
	nOwn := 1 + vfChoice("ownFields", 2)
	type embedder struct {
		named         *types.Named
		before, after []c09iDecl
	}
	var embs []embedder
	for i := 0; i < ne; i++ {
		var e embedder
		if vfChoice(fmt.Sprint("embeddedFirst", i), 2) == 0 {
			e.before = []c09iDecl{c09iField(lib, fmt.Sprint("A", i), true, kinds[1], c09iNamed, fmt.Sprint("a", i))}
		}
		for j := 0; j < nOwn; j++ {
			// own fields of different structs may carry the same Go name; within one struct they differ
			name := "O" + vfString(fmt.Sprint("oname", i, "_", j), 1, 1, "alnum")
			for _, o := range e.after {
				vfAssume(o.goName != name)
			}
			e.after = append(e.after, c09iField(lib, name, true, kinds[(i+j)%3], (i+j)%2, fmt.Sprint("o", i, j)))
		}
		embVar := []c09iDecl{{v: types.NewField(0, lib, "Base", baseNamed, true)}}
		e.named = mk(fmt.Sprint("S", i), e.before, embVar, e.after)
		embs = append(embs, e)
	}

	// the order of analysis: base first, base last, or embedders backwards (base reached through them)
	var source []types.Type
	switch vfChoice("order", 3) {
	case 0:
		source = append(source, baseNamed)
		for _, e := range embs {
			source = append(source, e.named)
		}
	case 1:
		for _, e := range embs {
			source = append(source, e.named)
		}
		source = append(source, baseNamed)
	default:
		for i := ne - 1; i >= 0; i-- {
			source = append(source, embs[i].named)
		}
	}

	ana := &Analysis{Types: map[types.Type]Type{}, Pkg: root}
	ctx := context{rootPackage: root, enums: enumsMap{}, unions: unionsMap{}}
	panicked, rt, msg := vfCatch(func() {
		for _, t := range source {
			ana.handleType(t, ctx)
		}
	})
	vfObserve("outcome", msg)
	vfAssert(!panicked && !rt, "C09/shared-base-analysis-completes")
	if panicked {
		return
	}

	// the oracle: keys of encoding/json in declaration order, promoted fields in place of the embedding
	check := func(named *types.Named, groups ...[]c09iDecl) (bool, int) {
		st, isStruct := ana.Types[named].(*Struct)
		if !isStruct {
			return false, -1
		}
		var want []c09iDecl
		for _, g := range groups {
			for _, d := range g {
				if d.included {
					want = append(want, d)
				}
			}
		}
		var got []StructField
		for _, f := range st.Fields {
			if f.Exported() {
				got = append(got, f)
			}
		}
		ok := len(got) == len(want)
		if ok {
			for i, w := range want {
				ok = vfAnd(ok, vfAnd(got[i].JSONName() == w.key, got[i].Field == w.v))
			}
		}
		return ok, len(got)
	}

	if !vfEngine() {
		// native runs: the stated rule is compared with the real encoding/json
		same := true
		expect := func(groups ...[]c09iDecl) []string {
			keys := []string{}
			for _, g := range groups {
				for _, d := range g {
					if d.included {
						keys = append(keys, d.key)
					}
				}
			}
			sort.Strings(keys)
			return keys
		}
		noIgnore := func(ds []c09iDecl) []c09iDecl { // gomacro:"ignore" is not known to encoding/json
			var out []c09iDecl
			for _, d := range ds {
				if d.tag != `gomacro:"ignore"` {
					out = append(out, d)
				}
			}
			return out
		}
		same = same && reflect.DeepEqual(c09iRealKeys(noIgnore(base), nil, nil, false), expect(base))
		for _, e := range embs {
			same = same && reflect.DeepEqual(c09iRealKeys(e.before, noIgnore(base), e.after, true), expect(e.before, base, e.after))
		}
		vfAssert(same, "ORACLE/c09i-rule-equals-encoding-json")
	}

	okBase, nBase := check(baseNamed, base)
	vfObserve("baseKeys", nBase)
	vfAssert(okBase, "C09/embedded-base-keeps-exactly-the-keys-encoding-json-uses")
	okAll := true
	for _, e := range embs {
		ok, n := check(e.named, e.before, base, e.after)
		vfObserve("keys", n)
		okAll = vfAnd(okAll, ok)
	}
	vfAssert(okAll, "C09/each-struct-sharing-an-embedded-base-has-exactly-the-keys-encoding-json-uses")
}
