package analysis

import (
	"fmt"
	"go/types"

	"golang.org/x/tools/go/packages"
)

func c07Reps() int {
	if vfEngine() {
		return 1
	}
	return 32 // natively the map order is random: repeat
}

// HC07_linker: NewLinker / OutputFiles / GetOutput do not depend on map iteration order.
func HC07_linker() {
	paths := []string{"example.com/mod/a", "example.com/mod/a/b", "other.org/x", "time"}
	n := 1 + vfChoice("n", vfParam("C07.entries", 3))
	typesMap := map[types.Type]Type{}
	var nameds []*types.Named
	for i := 0; i < n; i++ {
		pkg := types.NewPackage(paths[vfChoice(fmt.Sprint("pkg", i), len(paths))], "p")
		named := types.NewNamed(types.NewTypeName(0, pkg, fmt.Sprint("T", i), nil), types.NewStruct(nil, nil), nil)
		nameds = append(nameds, named)
		typesMap[named] = &Struct{Name: named}
	}
	typesMap[types.Typ[types.Int]] = Int
	src := []*Analysis{{Types: typesMap}}
	vfPermuteMaps(false)
	lk0 := NewLinker("/home/u/go/src/example.com/mod", src)
	files0 := lk0.OutputFiles()
	vfPermuteMaps(true)
	for r := 0; r < c07Reps(); r++ {
		lk := NewLinker("/home/u/go/src/example.com/mod", src)
		files := lk.OutputFiles()
		same := len(files) == len(files0)
		if same {
			for i := range files {
				same = same && files[i] == files0[i]
			}
		}
		for _, nm := range nameds {
			same = same && lk.GetOutput(nm) == lk0.GetOutput(nm)
		}
		vfAssert(same, "C07/linker-independent-of-map-order")
	}
	vfObserve("files", files0)
}

// c07Tree: root imports a and b, both import c (a diamond); every package declares a union.
func c07Tree() (root *packages.Package, all []*packages.Package) {
	mk := func(path string) *packages.Package {
		pkg := types.NewPackage(path, "p")
		itf := types.NewNamed(types.NewTypeName(0, pkg, "U", nil), c11Interface(pkg, []string{"isA"}), nil)
		m := types.NewNamed(types.NewTypeName(0, pkg, "M", nil), types.NewStruct(nil, nil), nil)
		c11Method(pkg, m, "isA", false)
		pkg.Scope().Insert(itf.Obj())
		pkg.Scope().Insert(m.Obj())
		return &packages.Package{PkgPath: path, Types: pkg, Imports: map[string]*packages.Package{}}
	}
	root = mk("example.com/mod/root")
	a, b, c := mk("example.com/mod/a"), mk("example.com/mod/b"), mk("example.com/mod/c")
	ext := mk("other.org/lib") // outside the selector prefix: ignored
	root.Imports["example.com/mod/a"] = a
	root.Imports["example.com/mod/b"] = b
	root.Imports["other.org/lib"] = ext
	a.Imports["example.com/mod/c"] = c
	b.Imports["example.com/mod/c"] = c
	if vfChoice("aImportsB", 2) == 1 {
		a.Imports["example.com/mod/b"] = b
	}
	return root, []*packages.Package{root, a, b, c, ext}
}

// HC07_fetchEnumsAndUnions: the package walk yields the same unions whatever the order in which
// the Imports maps and the per-package result maps are iterated.
func HC07_fetchEnumsAndUnions() {
	root, all := c07Tree()
	vfPermuteMaps(false)
	_, u0 := fetchEnumsAndUnions(root)
	vfPermuteMaps(true)
	for r := 0; r < c07Reps(); r++ {
		e1, u1 := fetchEnumsAndUnions(root)
		same := len(u1) == len(u0) && len(e1) == 0
		for _, pa := range all {
			named := pa.Types.Scope().Lookup("U").Type().(*types.Named)
			m0, ok0 := u0[named]
			m1, ok1 := u1[named]
			same = same && ok0 == ok1 && len(m0) == len(m1)
			if same {
				for i := range m0 {
					same = same && m0[i] == m1[i]
				}
			}
		}
		vfAssert(same, "C07/package-walk-independent-of-map-order")
	}
	vfObserve("unions", len(u0))
}

// HC07_findPackage: the package found for a type does not depend on the order of the Imports map.
func HC07_findPackage() {
	root, all := c07Tree()
	target := all[1+vfChoice("target", 3)]
	obj := target.Types.Scope().Lookup("M").(*types.TypeName)
	sel := NewPkgSelector(root)
	vfPermuteMaps(false)
	p0 := sel.findPackage(root, obj)
	vfPermuteMaps(true)
	for r := 0; r < c07Reps(); r++ {
		vfAssert(sel.findPackage(root, obj) == p0, "C07/find-package-independent-of-map-order")
	}
	vfAssert(p0 == target, "C07/find-package-returns-the-declaring-package")
}

// HC07_fetchPkgEnums: the final loop over the enums map (iota detection) is order independent.
func HC07_fetchPkgEnums() {
	k := 1 + vfChoice("k", vfParam("C07.scope", 2))
	pa, _, t1, t2 := c10World(k)
	vfPermuteMaps(false)
	out0 := fetchPkgEnums(pa)
	vfPermuteMaps(true)
	for r := 0; r < c07Reps(); r++ {
		out := fetchPkgEnums(pa)
		same := len(out) == len(out0)
		for _, named := range []*types.Named{t1, t2} {
			e0, ok0 := out0[named]
			e1, ok1 := out[named]
			same = same && ok0 == ok1
			if ok0 && ok1 {
				same = same && e0.IsIota == e1.IsIota && len(e0.Members) == len(e1.Members)
				if same {
					for i := range e0.Members {
						same = same && e0.Members[i].Const == e1.Members[i].Const
					}
				}
			}
		}
		vfAssert(same, "C07/enum-detection-independent-of-map-order")
	}
}

// HC07_setImplements: see HC11_setImplements; here two calls are compared.
func HC07_setImplements() {
	pkg := types.NewPackage("example.com/p", "p")
	self := types.NewNamed(types.NewTypeName(0, pkg, "S", nil), types.NewStruct(nil, nil), nil)
	k := vfChoice("k", vfParam("C07.entries", 3)+1)
	unions := unionsMap{}
	accu := map[types.Type]Type{}
	for i := 0; i < k; i++ {
		name := "U" + vfString(fmt.Sprint("name", i), 1, 1, "alnum")
		named := types.NewNamed(types.NewTypeName(0, pkg, name, nil), c11Interface(pkg, []string{"isA"}), nil)
		for other := range unions {
			vfAssume(other.Obj().Name() != name)
		}
		unions[named] = []*types.Named{self}
		accu[named] = &Union{name: named}
	}
	a, b := &Struct{Name: self}, &Struct{Name: self}
	vfPermuteMaps(false)
	a.setImplements(unions, accu)
	vfPermuteMaps(true)
	for r := 0; r < c07Reps(); r++ {
		b.setImplements(unions, accu)
		same := len(a.Implements) == len(b.Implements)
		if same {
			for i := range a.Implements {
				same = same && a.Implements[i] == b.Implements[i]
			}
		}
		vfAssert(same, "C07/implements-independent-of-map-order")
	}
}

// HC07_enumFileOrder: the constants of an enum spread over two files of the package are reported in
// the same order whichever file the loader happened to parse first (go/packages parses the files of
// a package concurrently: the relative order of the positions of two files is not determined).
func HC07_enumFileOrder() {
	kinds := []string{"string", "int"}
	kind := kinds[vfChoice("backing", 2)]
	vals := map[string][]string{"string": {"\"z\"", "\"b\"", "\"a\"", "\"g\""}, "int": {"7", "-1", "3", "12"}}[kind]
	f1 := "package p\n\ntype E " + kind + "\n\nconst (\n\tZeta E = " + vals[0] + " // last letter\n\tBeta E = " + vals[1] + "\n)\n\ntype Holder struct{ V E }\n"
	f2 := "package p\n\nconst (\n\tAlpha E = " + vals[2] + " // first letter\n\tGamma E = " + vals[3] + "\n)\n"
	members := func(firstParsed int) []string {
		names, srcs := []string{"/m/p/a.go", "/m/p/b.go"}, []string{f1, f2}
		if firstParsed == 1 {
			names, srcs = []string{"/m/p/b.go", "/m/p/a.go"}, []string{f2, f1}
		}
		pkg := vfTypeCheck("example.com/mod/p", names, srcs, nil)
		ana := NewAnalysisFromFile(pkg, "/m/p/a.go")
		enum, ok := ana.Types[pkg.Types.Scope().Lookup("E").Type()].(*Enum)
		if !ok {
			return nil
		}
		var out []string
		for _, m := range enum.Members {
			out = append(out, m.Const.Name()+"="+m.Const.Val().ExactString()+" //"+m.Comment)
		}
		return out
	}
	a, b := members(0), members(1)
	vfObserve("members", a)
	same := len(a) == 4 && len(b) == 4
	if same {
		for i := range a {
			same = same && a[i] == b[i]
		}
	}
	vfAssert(same, "C07/enum-members-independent-of-the-order-the-files-were-parsed")
}

// HC07_foreignEnumConstant: an enum declared in one package of the tree and a further constant of
// its type declared in another package that imports it (a diamond from the analysed package): the
// members reported for the enum do not depend on the order in which the Imports maps are walked.
func HC07_foreignEnumConstant() {
	colors := vfTypeCheck("example.com/mod/colors", []string{"/m/colors/colors.go"}, []string{"package colors\n\ntype Color int\n\nconst (\n\tRed Color = iota\n\tGreen\n\tBlue\n)\n"}, nil)
	extra := vfTypeCheck("example.com/mod/extra", []string{"/m/extra/extra.go"}, []string{"package extra\n\nimport \"example.com/mod/colors\"\n\nconst Fallback colors.Color = 7\n\ntype Opt struct{ C colors.Color }\n"}, []*packages.Package{colors})
	app := vfTypeCheck("example.com/mod/app", []string{"/m/app/app.go"}, []string{"package app\n\nimport (\n\t\"example.com/mod/colors\"\n\t\"example.com/mod/extra\"\n)\n\ntype Holder struct {\n\tC colors.Color\n\tO extra.Opt\n}\n"}, []*packages.Package{colors, extra})
	members := func() []string {
		ana := NewAnalysisFromFile(app, "/m/app/app.go")
		enum, ok := ana.Types[colors.Types.Scope().Lookup("Color").Type()].(*Enum)
		if !ok {
			return []string{"<not an enum>"}
		}
		var out []string
		for _, m := range enum.Members {
			out = append(out, m.Const.Name())
		}
		return out
	}
	vfPermuteMaps(false)
	ref := members()
	vfObserve("members", ref)
	vfPermuteMaps(true)
	for r := 0; r < c07Reps(); r++ {
		got := members()
		same := len(got) == len(ref)
		if same {
			for i := range ref {
				same = same && got[i] == ref[i]
			}
		}
		vfAssert(same, "C07/enum-members-independent-of-the-order-of-the-import-walk")
	}
}
