package analysis

import (
	"fmt"
	"go/constant"
	"go/types"

	"golang.org/x/tools/go/packages"
)

type c12World struct {
	lib     *types.Package
	s, t    *types.Named // two struct types, possibly mutually recursive
	e       *types.Named // an enum
	u       *types.Named // a union (interface) whose member is t
	n       *types.Named // type N []S
	tree    *types.Named // type Tree []Tree
	ring    *types.Named // type Ring [2]*Ring
	dict    *types.Named // type Dict map[string]Dict
	tm      *types.Named // time.Time look-alike
	date    *types.Named // a local named time whose name contains a symbolic part
	enums   enumsMap
	unions  unionsMap
	isDate  bool
	visited map[types.Type]bool
}

// c12Shape: a field type of bounded depth over the world's types.
func (w *c12World) shape(tag string, depth int) types.Type {
	n := 16
	if depth <= 0 {
		n = 12
	}
	kinds := []types.BasicKind{types.Int, types.String, types.Bool, types.Float64, types.Uint8}
	switch vfChoice(tag+".shape", n) {
	case 0:
		return types.Typ[kinds[vfChoice(tag+".basic", len(kinds))]]
	case 1:
		return w.s // recursion through the root
	case 2:
		return w.t
	case 3:
		return w.e
	case 4:
		return w.u
	case 5:
		return w.n
	case 6:
		return w.tm
	case 7:
		return w.date
	case 8:
		return types.NewNamed(types.NewTypeName(0, w.lib, "ID"+tag[len(tag)-1:], nil), types.Typ[types.Int64], nil)
	case 9:
		return w.tree // a cycle with no struct on it
	case 10:
		return w.ring
	case 11:
		return w.dict // a cycle through a map
	case 12:
		return types.NewSlice(w.shape(tag+"[]", depth-1))
	case 13:
		return types.NewArray(w.shape(tag+"[n]", depth-1), int64(vfChoice(tag+".len", 3)))
	case 14:
		return types.NewMap(types.Typ[types.String], w.shape(tag+"{}", depth-1))
	default:
		return types.NewPointer(w.shape(tag+"*", depth-1))
	}
}

// check: the node built for typ describes typ, recursively, and every reachable type is registered.
func (w *c12World) check(ana *Analysis, typ types.Type, node Type) bool {
	if w.visited[typ] {
		return true
	}
	w.visited[typ] = true
	reg, has := ana.Types[typ]
	ok := has && reg == node
	switch t := typ.(type) {
	case *types.Basic:
		b, is := node.(*Basic)
		return ok && is && b.B == t
	case *types.Slice:
		a, is := node.(*Array)
		return ok && is && a.Len == -1 && w.check(ana, t.Elem(), a.Elem)
	case *types.Array:
		a, is := node.(*Array)
		return ok && is && int64(a.Len) == t.Len() && w.check(ana, t.Elem(), a.Elem)
	case *types.Map:
		m, is := node.(*Map)
		return ok && is && w.check(ana, t.Key(), m.Key) && w.check(ana, t.Elem(), m.Elem)
	case *types.Pointer:
		p, is := node.(*Pointer)
		return ok && is && w.check(ana, t.Elem(), p.Elem)
	case *types.Named:
		switch {
		case t == w.tm:
			ti, is := node.(*Time)
			return ok && is && !ti.IsDate
		case t == w.date:
			na, is := node.(*Named)
			if !(ok && is && na.name == t) {
				return false
			}
			ti, isT := na.Underlying.(*Time)
			return isT && ti.IsDate == w.isDate
		case t == w.e:
			en, is := node.(*Enum)
			return ok && is && en == w.enums[t]
		case t == w.u:
			un, is := node.(*Union)
			return ok && is && un.name == t && len(un.Members) == 1 && w.check(ana, w.t, un.Members[0])
		}
		if st, isStruct := t.Underlying().(*types.Struct); isStruct {
			sn, is := node.(*Struct)
			if !(ok && is && sn.Name == t && len(sn.Fields) == st.NumFields()) {
				return false
			}
			for i := 0; i < st.NumFields(); i++ {
				f := sn.Fields[i]
				if f.Field != st.Field(i) || string(f.Tag) != st.Tag(i) || !w.check(ana, st.Field(i).Type(), f.Type) {
					return false
				}
			}
			return true
		}
		na, is := node.(*Named)
		return ok && is && na.name == t && w.check(ana, t.Underlying(), na.Underlying)
	}
	return false
}

// HC12_typeGraph: closure, classification, round trip and termination of the analysis on bounded
// go/types shapes, recursive and mutually recursive declarations included.
func HC12_typeGraph() {
	lib := types.NewPackage("other.org/lib", "lib") // outside the root prefix: no source lookup
	root := &packages.Package{ID: "example.com/mod/p", PkgPath: "example.com/mod/p", Types: types.NewPackage("example.com/mod/p", "p"),
		Imports: map[string]*packages.Package{}}
	w := &c12World{lib: lib, visited: map[types.Type]bool{}}
	w.s = types.NewNamed(types.NewTypeName(0, lib, "S", nil), nil, nil)
	w.t = types.NewNamed(types.NewTypeName(0, lib, "T", nil), nil, nil)
	w.e = types.NewNamed(types.NewTypeName(0, lib, "E", nil), types.Typ[types.Int], nil)
	w.u = types.NewNamed(types.NewTypeName(0, lib, "U", nil), c11Interface(lib, []string{"isA"}), nil)
	w.n = types.NewNamed(types.NewTypeName(0, lib, "N", nil), types.NewSlice(w.s), nil)
	w.tree = types.NewNamed(types.NewTypeName(0, lib, "Tree", nil), nil, nil)
	w.tree.SetUnderlying(types.NewSlice(w.tree))
	w.ring = types.NewNamed(types.NewTypeName(0, lib, "Ring", nil), nil, nil)
	w.ring.SetUnderlying(types.NewArray(types.NewPointer(w.ring), 2))
	w.dict = types.NewNamed(types.NewTypeName(0, lib, "Dict", nil), nil, nil)
	w.dict.SetUnderlying(types.NewMap(types.Typ[types.String], w.dict))
	w.tm = c18TimeNamed("time", "time", "Time")
	// a user-defined time type: it is a date iff its name contains "date" in any case
	dname := "My" + vfString("timeName", 0, vfParam("C12.name", 4), "alpha") + "X"
	w.date = c18TimeNamed("other.org/lib", "lib", dname)
	lower := make([]byte, len(dname))
	for i := 0; i < len(dname); i++ {
		c := dname[i]
		if vfAnd(c >= 'A', c <= 'Z') {
			c += 32
		}
		lower[i] = c
	}
	for i := 0; i+4 <= len(lower); i++ {
		w.isDate = vfOr(w.isDate, string(lower[i:i+4]) == "date")
	}
	w.isDate = vfFork(w.isDate)

	enum := &Enum{name: w.e, Members: []EnumMember{{Const: types.NewConst(0, lib, "EA", w.e, constant.MakeInt64(0))}}}
	w.enums = enumsMap{w.e: enum}
	w.unions = unionsMap{w.u: []*types.Named{w.t}}
	// struct bodies
	nf := 1 + vfChoice("fields", vfParam("C12.fields", 2))
	var vars []*types.Var
	var tags []string
	for i := 0; i < nf; i++ {
		vars = append(vars, types.NewField(0, lib, fmt.Sprint("F", i), w.shape(fmt.Sprint("f", i), vfParam("C12.depth", 1)), false))
		tags = append(tags, fmt.Sprintf(`json:"f%d"`, i))
	}
	w.s.SetUnderlying(types.NewStruct(vars, tags))
	w.t.SetUnderlying(types.NewStruct([]*types.Var{types.NewField(0, lib, "Back", w.shape("tb", 0), false)}, nil))
	c11Method(lib, w.t, "isA", false)

	ana := &Analysis{Types: map[types.Type]Type{}, Pkg: root}
	ctx := context{rootPackage: root, enums: w.enums, unions: w.unions}
	var node Type
	var panicked, rt bool
	var msg string
	terminated := vfTerminates(func() {
		panicked, rt, msg = vfCatch(func() { node = ana.handleType(w.s, ctx) })
	})
	vfAssert(terminated, "C12/analysis-of-recursive-declarations-terminates")
	if !terminated {
		return
	}
	vfObserve("outcome", msg)
	vfAssert(!rt, "C12/analysis-no-runtime-error")
	if panicked {
		vfStop() // explicitly refused (e.g. array of ... unsupported): nothing to check
	}
	vfAssert(w.check(ana, w.s, node), "C12/every-reachable-type-is-registered-and-classified-as-go-types-reports")
	// converting any node back to a Go type yields an identical type (time and date are predefined)
	okRT := true
	for typ, nd := range ana.Types {
		if c12ContainsTime(nd, map[Type]bool{}) {
			continue // time and date are reported as predefined types, also inside composite types
		}
		okRT = okRT && types.Identical(nd.Type(), typ)
	}
	vfAssert(okRT, "C12/nodes-convert-back-to-an-identical-go-type")
	vfObserve("types", len(ana.Types))
}

func c12ContainsTime(nd Type, seen map[Type]bool) bool {
	if seen[nd] {
		return false
	}
	seen[nd] = true
	switch nd := nd.(type) {
	case *Time:
		return true
	case *Array:
		return c12ContainsTime(nd.Elem, seen)
	case *Map:
		return c12ContainsTime(nd.Key, seen) || c12ContainsTime(nd.Elem, seen)
	case *Pointer:
		return c12ContainsTime(nd.Elem, seen)
	}
	return false // named types, structs, enums and unions convert back to their own *types.Named
}
