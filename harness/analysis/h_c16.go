package analysis

// HC16_specialComment: a doc line "// gomacro:SQL <content>" (resp. QUERY) is a directive whose
// content is the rest of the line, verbatim; any other line is not a directive.
func HC16_specialComment() {
	heads := []string{"// gomacro:SQL ", "// gomacro:QUERY ", "// gomacro:SQL", "//gomacro:SQL ", "// Gomacro:SQL ", " // gomacro:SQL ", "// gomacro :SQL "}
	h := vfChoice("head", len(heads))
	content := vfString("content", 0, vfParam("C16.content", 3), "sqltext")
	line := heads[h] + content
	var kind CommentKind
	var got string
	panicked, rt, _ := vfCatch(func() { kind, got = isSpecialComment(line) })
	vfAssert(!rt, "C16/directive-line-no-runtime-error")
	if panicked {
		return
	}
	vfObserve("kind", int(kind))
	vfObserve("content", got)
	switch {
	case h <= 1 && len(content) > 0:
		want := CommentSQL
		if h == 1 {
			want = CommentQuery
		}
		vfAssert(kind == want && got == content, "C16/directive-content-is-the-rest-of-the-line-verbatim")
	default:
		// "// gomacro:SQL" + content without the separating blank: a directive only if the content
		// itself supplies the blank after a word-only tag; the other heads are never directives
		if h >= 3 {
			vfAssert(kind == 0 && got == "", "C16/lines-that-do-not-start-with-the-marker-are-not-directives")
		}
	}
}

// HC16_declarationForms: the directives of a struct are those of the comment its own declaration
// carries, whatever the form of the declaration: a plain `type T struct`, a spec inside a
// parenthesised `type ( ... )` group (the comment stands on the spec), several structs in one group.
func HC16_declarationForms() {
	form := vfChoice("form", 4)
	var src string
	switch form {
	case 0:
		src = "// gomacro:SQL ADD UNIQUE(Name)\ntype A struct {\n\tId int64\n\tName string\n}\n\ntype B struct {\n\tId int64\n}\n"
	case 1:
		src = "type (\n\t// gomacro:SQL ADD UNIQUE(Name)\n\tA struct {\n\t\tId int64\n\t\tName string\n\t}\n\n\tB struct {\n\t\tId int64\n\t}\n)\n"
	case 3: // a group holding a single struct (B is declared on its own)
		src = "type (\n\t// gomacro:SQL ADD UNIQUE(Name)\n\tA struct {\n\t\tId int64\n\t\tName string\n\t}\n)\n\ntype B struct {\n\tId int64\n}\n"
	default:
		src = "type (\n\tB struct {\n\t\tId int64\n\t}\n\n\t// some words\n\t// gomacro:SQL ADD UNIQUE(Name)\n\tA struct {\n\t\tId int64\n\t\tName string\n\t}\n)\n"
	}
	pkg := vfTypeCheck("example.com/mod/p", []string{"/m/p/p.go"}, []string{"package p\n\n" + src}, nil)
	var ana *Analysis
	panicked, rt, msg := vfCatch(func() { ana = NewAnalysisFromFile(pkg, "/m/p/p.go") })
	vfObserve("outcome", msg)
	vfAssert(!panicked && !rt, "C16/analysis-of-a-real-source-file-completes")
	if panicked {
		return
	}
	a, okA := ana.Types[pkg.Types.Scope().Lookup("A").Type()].(*Struct)
	b, okB := ana.Types[pkg.Types.Scope().Lookup("B").Type()].(*Struct)
	vfAssert(okA && okB, "C16/structs-are-analysed")
	if !okA || !okB {
		return
	}
	vfAssert(len(a.Comments) == 1 && a.Comments[0].Kind == CommentSQL && a.Comments[0].Content == "ADD UNIQUE(Name)", "C16/directive-is-attached-to-the-struct-whose-declaration-carries-the-comment")
	vfAssert(len(b.Comments) == 0, "C16/directive-is-attached-to-no-other-struct")
}
