package analysis

// HC16_specialComment: a doc line "// gomacro:SQL <content>" (resp. QUERY) is a directive whose
// content is the rest of the line, verbatim; any other line is not a directive.
func HC16_specialComment() {
	heads := []string{"// gomacro:SQL ", "// gomacro:QUERY ", "// gomacro:SQL", "//gomacro:SQL ", "// Gomacro:SQL ", " // gomacro:SQL ", "// gomacro :SQL "}
	h := vfChoice("head", len(heads))
	content := vfString("content", 0, vfParam("C16.content", 3), "sqltext")
	line := heads[h] + content
	var kind CommentKind
	var got string
	panicked, rt, _ := vfCatch(func() { kind, got = isSpecialComment(line) })
	vfAssert(!rt, "C16/directive-line-no-runtime-error")
	if panicked {
		return
	}
	vfObserve("kind", int(kind))
	vfObserve("content", got)
	switch {
	case h <= 1 && len(content) > 0:
		want := CommentSQL
		if h == 1 {
			want = CommentQuery
		}
		vfAssert(kind == want && got == content, "C16/directive-content-is-the-rest-of-the-line-verbatim")
	default:
		// "// gomacro:SQL" + content without the separating blank: a directive only if the content
		// itself supplies the blank after a word-only tag; the other heads are never directives
		if h >= 3 {
			vfAssert(kind == 0 && got == "", "C16/lines-that-do-not-start-with-the-marker-are-not-directives")
		}
	}
}
