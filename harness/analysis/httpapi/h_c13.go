package httpapi

import (
	"fmt"
	"go/types"
	"strings"

	"github.com/benoitkugler/gomacro/analysis"
	"golang.org/x/tools/go/packages"
)

const c13Echo = `package echo

type File struct{}

type Context interface {
	Bind(i interface{}) error
	JSON(code int, i interface{}) error
	Blob(code int, contentType string, b []byte) error
	NoContent(code int) error
	QueryParam(name string) string
	FormValue(name string) string
	FormFile(name string) (*File, error)
}

type HandlerFunc func(Context) error

type MiddlewareFunc func(HandlerFunc) HandlerFunc

type Echo struct{}

func (e *Echo) GET(path string, h HandlerFunc, m ...MiddlewareFunc)    {}
func (e *Echo) POST(path string, h HandlerFunc, m ...MiddlewareFunc)   {}
func (e *Echo) PUT(path string, h HandlerFunc, m ...MiddlewareFunc)    {}
func (e *Echo) DELETE(path string, h HandlerFunc, m ...MiddlewareFunc) {}
func (e *Echo) Group(path string, h HandlerFunc)                       {}
`

const c13Inner = `package inner

import "example.com/mod/echo"

const Prefix = "/inner"

type Item struct {
	Id   int64
	Name string
}

type ID int64

func QueryParamInt[T ~int64](c echo.Context, name string) T { return 0 }

func Handle(c echo.Context) error {
	var in Item
	if err := c.Bind(&in); err != nil {
		return err
	}
	return c.JSON(200, in)
}
`

type c13Route struct {
	verb     string
	pathExpr string // Go expression of the URL
	url      string // its constant-folded value
	handler  string // Go expression of the handler
	name     string // expected contract name ("" = anonymous, any name)
	body     string // source of the handler declared in the routes file ("" = declared elsewhere)
	input    string // expected bound input type name ("" = none)
	ret      string // expected return type name ("" = none)
	blob     bool
	queries  []string
	qkinds   []string // "string", "int64", "bool"
	values   []string
	file     string
	jsonName string
	jsonType string
}

// c13Catalogue: the handler shapes the statement lists.
func c13Handler(tag string, k int) c13Route {
	r := c13Route{}
	name := "handle" + tag
	decl := func(recv, body string) string {
		return "func " + recv + name + "(c echo.Context) error {\n" + body + "}\n"
	}
	switch k {
	case 0: // method, JSON input and output
		r.handler, r.name = "ct."+name, name
		r.body = decl("(ct *controller) ", "\tvar in Input\n\tif err := c.Bind(&in); err != nil {\n\t\treturn err\n\t}\n\tout := Output{}\n\treturn c.JSON(200, out)\n")
		r.input, r.ret = "Input", "Output"
	case 1: // function, query parameters, composite literal returned
		r.handler, r.name = name, name
		r.body = decl("", "\tq := c.QueryParam(\"q"+tag+"\")\n\tid := QueryParamInt64(c, \"id\")\n\t_, _ = q, id\n\treturn c.JSON(200, Output{})\n")
		r.ret = "Output"
		r.queries, r.qkinds = []string{"q" + tag, "id"}, []string{"string", "int64"}
	case 2: // function of an imported package
		r.handler, r.name = "inner.Handle", "Handle"
		r.input, r.ret = "Item", "Item"
	case 3: // function literal, no input, nothing returned
		r.handler, r.name = "func(c echo.Context) error { return c.NoContent(200) }", ""
	case 4: // form: file, value, JSON field; blob returned
		r.handler, r.name = name, name
		r.body = decl("", "\tf, _ := c.FormFile(\"doc\")\n\tv := c.FormValue(\"note"+tag+"\")\n\tvar meta Input\n\terr := FormValueJSON(c, \"meta\", &meta)\n\t_, _, _ = f, v, err\n\tdata := []byte{1}\n\treturn c.Blob(200, \"x\", data)\n")
		r.file, r.values, r.jsonName, r.jsonType = "doc", []string{"note" + tag}, "meta", "Input"
		r.blob = true
	case 6: // a generic typed helper of an imported package, explicitly instantiated
		r.handler, r.name = name, name
		r.body = decl("", "\tid := inner.QueryParamInt[inner.ID](c, \"gid"+tag+"\")\n\tn := QueryParamInt[int64](c, \"n\")\n\t_, _ = id, n\n\treturn c.NoContent(200)\n")
		r.queries, r.qkinds = []string{"gid" + tag, "n"}, []string{"example.com/mod/inner.ID", "int64"}
	case 7: // an early answer inside a condition, before the inputs read later
		r.handler, r.name = name, name
		r.body = decl("", "\tquick := c.QueryParam(\"fast\")\n\tif quick != \"\" {\n\t\treturn c.JSON(200, Output{})\n\t}\n\tvar in Input\n\tif err := c.Bind(&in); err != nil {\n\t\treturn err\n\t}\n\tlater := c.QueryParam(\"later"+tag+"\")\n\t_ = later\n\treturn c.JSON(200, Output{})\n")
		r.input, r.ret = "Input", "Output"
		r.queries, r.qkinds = []string{"fast", "later" + tag}, []string{"string", "string"}
	case 8: // JSON form field decoded into a pointer variable
		r.handler, r.name = name, name
		r.body = decl("", "\tp := new(Input)\n\terr := FormValueJSON(c, \"meta\", p)\n\t_ = err\n\treturn c.NoContent(200)\n")
		r.jsonName, r.jsonType = "meta", "Input"
	case 9: // JSON form field decoded into the field of a local struct
		r.handler, r.name = name, name
		r.body = decl("", "\tvar req struct{ Payload Input }\n\terr := FormValueJSON(c, \"meta\", &req.Payload)\n\t_ = err\n\treturn c.NoContent(200)\n")
		r.jsonName, r.jsonType = "meta", "Input"
	default: // method with a bool query parameter
		r.handler, r.name = "ct."+name, name
		r.body = decl("(ct *controller) ", "\tok := QueryParamBool(c, \"ok\")\n\t_ = ok\n\treturn c.NoContent(200)\n")
		r.queries, r.qkinds = []string{"ok"}, []string{"bool"}
	}
	return r
}

func c13Path(tag string, k int) (expr, url string) {
	switch k {
	case 0:
		return `"/a` + tag + `"`, "/a" + tag
	case 1:
		return "base + \"/b" + tag + "\"", "/api/b" + tag
	case 2:
		return "inner.Prefix + \"/c" + tag + "\"", "/inner/c" + tag
	case 3:
		return "local" + tag, "/api/local/" + tag
	default:
		// a bare identifier: a local constant shadowing a package-level constant of the same name
		return "route" + tag, "/shadowing/" + tag
	}
}

// HC13_parseEcho: one endpoint per registration, in source order, with its verb, its
// constant-folded URL and the contract read from the handler; the prefix filter keeps exactly the
// routes whose URL has the prefix.
func HC13_parseEcho() {
	echo := vfTypeCheck("example.com/mod/echo", []string{"/m/echo/echo.go"}, []string{c13Echo}, nil)
	inner := vfTypeCheck("example.com/mod/inner", []string{"/m/inner/inner.go"}, []string{c13Inner}, []*packages.Package{echo})

	n := 1 + vfChoice("routes", vfParam("C13.routes", 2))
	var routes []c13Route
	regs, decls, locals, pkgConsts := "", "", "", ""
	verbs := []string{"GET", "POST", "PUT", "DELETE"}
	for i := 0; i < n; i++ {
		tag := fmt.Sprint(i)
		// the routes after the first vary less (C13.narrow): the product of full variations of two routes does not fit
		nh, nv, np, nm := 10, 4, 5, 3
		if i > 0 && vfParam("C13.narrow", 0) == 1 {
			nh, nv, np, nm = 3, 2, 2, 1
		}
		r := c13Handler(tag, vfChoice("handler"+tag, nh))
		r.verb = verbs[vfChoice("verb"+tag, nv)]
		pk := vfChoice("path"+tag, np)
		r.pathExpr, r.url = c13Path(tag, pk)
		if pk == 3 {
			locals += "\tconst local" + tag + " = base + \"/local/" + tag + "\"\n"
		}
		if pk == 4 {
			locals += "\tconst route" + tag + " = \"/shadowing/" + tag + "\"\n"
		}
		pkgConsts += "const route" + tag + " = \"/package-level/" + tag + "\"\n"
		mw := []string{"", ", logged", ", logged, logged"}[vfChoice("middlewares"+tag, nm)]
		regs += "\te." + r.verb + "(" + r.pathExpr + ", " + r.handler + mw + ")\n"
		decls += r.body
		routes = append(routes, r)
	}
	src := "package routes\n\nimport (\n\t\"example.com/mod/echo\"\n\t\"example.com/mod/inner\"\n)\n\n" +
		"const base = \"/api\"\n\n" + pkgConsts + "\ntype Input struct {\n\tA int\n\tB string\n}\n\ntype Output struct {\n\tC bool\n}\n\ntype controller struct{}\n\n" +
		"func QueryParamInt64(c echo.Context, name string) int64 { return 0 }\nfunc QueryParamInt[T ~int64](c echo.Context, name string) T { return 0 }\nfunc QueryParamBool(c echo.Context, name string) bool { return false }\n" +
		"func FormValueJSON(c echo.Context, name string, dst interface{}) error { return nil }\n\nfunc logged(next echo.HandlerFunc) echo.HandlerFunc { return next }\n\nvar _ = inner.Prefix\n\n" +
		decls + "\nfunc setup(e *echo.Echo, ct *controller) {\n" + locals + "\te.Group(\"/not-a-route\", nil)\n" + regs + "}\n"
	pkg := vfTypeCheck("example.com/mod/routes", []string{"/m/routes/routes.go"}, []string{src}, []*packages.Package{echo, inner})

	prefix := ""
	if vfChoice("filter", 2) == 1 {
		prefix = vfString("prefix", 1, vfParam("C13.prefix", 3), "set:/apinerlocb0")
	}
	var got []Endpoint
	panicked, rt, msg := vfCatch(func() { got = ParseEcho(pkg, "/m/routes/routes.go", prefix) })
	vfObserve("outcome", msg)
	vfAssert(!panicked && !rt, "C13/parsing-completes")
	if panicked {
		return
	}
	var want []c13Route
	for _, r := range routes {
		if vfFork(strings.HasPrefix(r.url, prefix)) {
			want = append(want, r)
		}
	}
	vfObserve("endpoints", len(got))
	vfAssert(len(got) == len(want), "C13/one-endpoint-per-registration-kept-by-the-prefix-filter")
	if len(got) != len(want) {
		return
	}
	typeName := func(t analysis.Type) string {
		if t == nil {
			return ""
		}
		if named, ok := t.Type().(*types.Named); ok {
			return named.Obj().Name()
		}
		return t.Type().String()
	}
	for i, w := range want {
		g := got[i]
		vfAssert(g.Method == w.verb && g.Url == w.url, "C13/verb-and-constant-folded-url-in-source-order")
		if w.name != "" {
			vfAssert(g.Contract.Name == w.name, "C13/contract-named-after-the-handler")
		}
		vfAssert(typeName(g.Contract.InputBody) == w.input, "C13/bound-input-type")
		if w.blob {
			vfAssert(g.Contract.IsReturnBlob && g.Contract.Return != nil, "C13/blob-return")
		} else {
			vfAssert(!g.Contract.IsReturnBlob && typeName(g.Contract.Return) == w.ret, "C13/json-return-type")
		}
		okQ := len(g.Contract.InputQueryParams) == len(w.queries)
		if okQ {
			for k := range w.queries {
				q := g.Contract.InputQueryParams[k]
				okQ = okQ && q.Name == w.queries[k] && q.Type != nil && q.Type.Type().String() == w.qkinds[k]
			}
		}
		vfAssert(okQ, "C13/query-parameters-with-their-types")
		okF := g.Contract.InputForm.File == w.file && len(g.Contract.InputForm.ValueNames) == len(w.values)
		if okF {
			for k := range w.values {
				okF = okF && g.Contract.InputForm.ValueNames[k] == w.values[k]
			}
		}
		vfAssert(okF, "C13/form-values-and-file")
		vfAssert(g.Contract.InputForm.JSON.Name == w.jsonName, "C13/json-form-field-name")
		if w.jsonName != "" {
			vfAssert(typeName(g.Contract.InputForm.JSON.Type) == w.jsonType, "C13/json-form-field-type")
		}
	}
}

// HC13_sameName: two controllers declare a method of the same name with different contracts;
// each registration gets the contract of its own handler (also when one handler is registered twice).
func HC13_sameName() {
	echo := vfTypeCheck("example.com/mod/echo", []string{"/m/echo/echo.go"}, []string{c13Echo}, nil)
	first := vfChoice("first", 2) // which controller is registered first
	twice := vfChoice("twice", 2) == 1
	regs := []string{"\te.GET(\"/users\", uc.list)\n", "\te.POST(\"/groups\", gc.list)\n"}
	body := regs[first] + regs[1-first]
	if twice {
		body += regs[first]
	}
	src := "package routes\n\nimport \"example.com/mod/echo\"\n\n" +
		"type User struct{ Name string }\n\ntype Group struct{ Size int }\n\ntype userCtl struct{}\n\ntype groupCtl struct{}\n\n" +
		"func (userCtl) list(c echo.Context) error {\n\tq := c.QueryParam(\"name\")\n\t_ = q\n\tout := User{}\n\treturn c.JSON(200, out)\n}\n\n" +
		"func (*groupCtl) list(c echo.Context) error {\n\tvar in Group\n\tif err := c.Bind(&in); err != nil {\n\t\treturn err\n\t}\n\treturn c.NoContent(200)\n}\n\n" +
		"func setup(e *echo.Echo, uc userCtl, gc *groupCtl) {\n" + body + "}\n"
	pkg := vfTypeCheck("example.com/mod/routes", []string{"/m/routes/routes.go"}, []string{src}, []*packages.Package{echo})
	var got []Endpoint
	panicked, rt, msg := vfCatch(func() { got = ParseEcho(pkg, "/m/routes/routes.go", "") })
	vfObserve("outcome", msg)
	vfAssert(!panicked && !rt, "C13/parsing-completes")
	if panicked {
		return
	}
	n := 2
	if twice {
		n = 3
	}
	vfAssert(len(got) == n, "C13/one-endpoint-per-registration")
	if len(got) != n {
		return
	}
	ok := true
	for i, g := range got {
		isUser := (i == 0) == (first == 0)
		if i == 2 {
			isUser = first == 0
		}
		if isUser {
			ok = ok && g.Url == "/users" && g.Method == "GET" && g.Contract.InputBody == nil && g.Contract.Return != nil &&
				len(g.Contract.InputQueryParams) == 1 && g.Contract.InputQueryParams[0].Name == "name"
		} else {
			ok = ok && g.Url == "/groups" && g.Method == "POST" && g.Contract.InputBody != nil && g.Contract.Return == nil &&
				len(g.Contract.InputQueryParams) == 0
		}
	}
	vfAssert(ok, "C13/each-registration-carries-the-contract-of-its-own-handler")
}
