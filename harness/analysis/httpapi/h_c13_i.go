package httpapi

import (
	"fmt"
	"go/types"

	"github.com/benoitkugler/gomacro/analysis"
	"golang.org/x/tools/go/packages"
)

// c13MethodContract: catalogue of handler bodies with pairwise distinct contracts.
type c13MethodContract struct {
	body    string
	input   string
	ret     string
	queries []string
	qkinds  []string
}

func c13MethodBody(k int) c13MethodContract {
	switch k {
	case 0: // a string query parameter, a JSON answer
		return c13MethodContract{
			body:    "\tq := c.QueryParam(\"filter\")\n\t_ = q\n\treturn c.JSON(200, Output{})\n",
			ret:     "Output",
			queries: []string{"filter"}, qkinds: []string{"string"},
		}
	case 1: // a bound input, returned as it is
		return c13MethodContract{
			body:  "\tvar in Input\n\tif err := c.Bind(&in); err != nil {\n\t\treturn err\n\t}\n\treturn c.JSON(200, in)\n",
			input: "Input", ret: "Input",
		}
	default: // a typed query parameter, nothing returned
		return c13MethodContract{
			body:    "\tok := QueryParamBool(c, \"force\")\n\t_ = ok\n\treturn c.NoContent(200)\n",
			queries: []string{"force"}, qkinds: []string{"bool"},
		}
	}
}

// HC13_methodReceivers: handlers given as methods `x.m` of a controller variable x. Go accepts the
// method value x.m for every combination of (x held by value | x held by pointer) and (m declared
// with a value receiver | m declared with a pointer receiver): a variable is addressable, so x.m
// stands for (&x).m when m has a pointer receiver, and for (*x).m when x is a pointer and m has a
// value receiver (Go spec, "Method values" / "Selectors"). The routes file is accepted by the real
// type checker, hence every registration must be extracted, with the contract of the method that the
// Go compiler would call — the one declared under that name on the controller's type.
//
// Class of inputs: 1..C13.ctls controller types (a struct with state), each with two methods of the
// same names ("list", "save") whose receivers are independently value/pointer and whose contracts
// are drawn from a catalogue of three; each controller is held as a value parameter, a pointer
// parameter, a local `var x T` or a local `x := &T{}`; registrations controller-major or method-major.
func HC13_methodReceivers() {
	echo := vfTypeCheck("example.com/mod/echo", []string{"/m/echo/echo.go"}, []string{c13Echo}, nil)

	nc := 1 + vfChoice("controllers", vfParam("C13.ctls", 2))
	shift := vfChoice("contracts", vfParam("C13.shifts", 3))
	// C13.narrow: the controllers after the first vary less (a parameter held by value or by pointer, the
	// two receivers of opposite kinds in both arrangements); the full product is the thorough tier
	narrow := vfParam("C13.narrow", 0) == 1
	methods := []string{"list", "save"}
	verbs := []string{"GET", "POST"}
	recvKinds := []string{"", "*"}

	type reg struct {
		verb, url, name string
		ct              c13MethodContract
	}
	regOf := make([][]reg, nc)
	decls, params, locals := "", "", ""
	for i := 0; i < nc; i++ {
		tag := fmt.Sprint(i)
		tname, vname := "ctl"+tag, "c"+tag
		decls += "type " + tname + " struct{ hits int }\n\n"
		nh := 4
		if i > 0 && narrow {
			nh = 2
		}
		switch vfChoice("holder"+tag, nh) {
		case 0: // value parameter
			params += ", " + vname + " " + tname
		case 1: // pointer parameter
			params += ", " + vname + " *" + tname
		case 2: // local value
			locals += "\tvar " + vname + " " + tname + "\n"
		default: // local pointer
			locals += "\t" + vname + " := &" + tname + "{}\n"
		}
		first := 0
		for j, m := range methods {
			var rk int
			if i > 0 && narrow && j > 0 {
				rk = 1 - first
			} else {
				rk = vfChoice("receiver"+tag+m, 2)
			}
			if j == 0 {
				first = rk
			}
			recv := recvKinds[rk]
			ct := c13MethodBody((i + j + shift) % 3)
			decls += "func (ct " + recv + tname + ") " + m + "(c echo.Context) error {\n\t_ = ct.hits\n" + ct.body + "}\n\n"
			regOf[i] = append(regOf[i], reg{verb: verbs[j], url: "/" + tname + "/" + m, name: m, ct: ct})
		}
	}
	var want []reg
	regs := ""
	emit := func(i, j int) {
		r := regOf[i][j]
		regs += "\te." + r.verb + "(\"" + r.url + "\", c" + fmt.Sprint(i) + "." + r.name + ")\n"
		want = append(want, r)
	}
	if nc > 1 && vfChoice("order", 2) == 1 { // method-major
		for j := range methods {
			for i := 0; i < nc; i++ {
				emit(i, j)
			}
		}
	} else { // controller-major
		for i := 0; i < nc; i++ {
			for j := range methods {
				emit(i, j)
			}
		}
	}
	src := "package routes\n\nimport \"example.com/mod/echo\"\n\n" +
		"type Input struct {\n\tA int\n\tB string\n}\n\ntype Output struct {\n\tC bool\n}\n\n" +
		"func QueryParamBool(c echo.Context, name string) bool { return false }\n\n" +
		decls + "func setup(e *echo.Echo" + params + ") {\n" + locals + regs + "}\n"
	pkg := vfTypeCheck("example.com/mod/routes", []string{"/m/routes/routes.go"}, []string{src}, []*packages.Package{echo})

	var got []Endpoint
	panicked, rt, msg := vfCatch(func() { got = ParseEcho(pkg, "/m/routes/routes.go", "") })
	vfObserve("outcome", msg)
	vfAssert(!panicked && !rt, "C13/method-handlers-resolved-for-every-legal-receiver-and-holder")
	if panicked {
		return
	}
	vfObserve("endpoints", len(got))
	vfAssert(len(got) == len(want), "C13/one-endpoint-per-method-registration")
	if len(got) != len(want) {
		return
	}
	typeName := func(t analysis.Type) string {
		if t == nil {
			return ""
		}
		if named, ok := t.Type().(*types.Named); ok {
			return named.Obj().Name()
		}
		return t.Type().String()
	}
	for i, w := range want {
		g := got[i]
		vfAssert(g.Method == w.verb && g.Url == w.url, "C13/method-registrations-in-source-order")
		vfAssert(g.Contract.Name == w.name, "C13/contract-named-after-the-method")
		ok := typeName(g.Contract.InputBody) == w.ct.input && !g.Contract.IsReturnBlob && typeName(g.Contract.Return) == w.ct.ret &&
			len(g.Contract.InputQueryParams) == len(w.ct.queries) &&
			g.Contract.InputForm.File == "" && len(g.Contract.InputForm.ValueNames) == 0 && g.Contract.InputForm.JSON.Name == ""
		if ok {
			for k := range w.ct.queries {
				q := g.Contract.InputQueryParams[k]
				ok = ok && q.Name == w.ct.queries[k] && q.Type != nil && q.Type.Type().String() == w.ct.qkinds[k]
			}
		}
		vfAssert(ok, "C13/contract-of-the-method-declared-on-the-controller-type")
	}
}
