package httpapi

import (
	"fmt"
	"sort"

	"golang.org/x/tools/go/packages"
)

func c07iReps() int {
	if vfEngine() {
		return 1
	}
	return 32 // natively the map order is random: repeat
}

// c07iContract: what the generators read of a contract, as text, in order.
func c07iContract(eps []Endpoint) []string {
	var out []string
	for _, ep := range eps {
		out = append(out, ep.Method+" "+ep.Url+" "+ep.Contract.Name)
		for _, q := range ep.Contract.InputQueryParams {
			ty := "<nil>"
			if q.Type != nil {
				ty = q.Type.Type().String()
			}
			out = append(out, "query "+q.Name+":"+ty)
		}
		out = append(out, "file "+ep.Contract.InputForm.File)
		for _, v := range ep.Contract.InputForm.ValueNames {
			out = append(out, "value "+v)
		}
	}
	return out
}

// HC07_echoQueryParams: the contract read from an Echo handler - in particular the ORDERED list of
// query parameters, which the TypeScript target prints in that order twice (the `params: {...}` type
// of the method signature and the `params: { ... }` object of the Axios call) - is the same each
// time the same loaded package is parsed, whatever the iteration order of any map used on the way.
//
// Class of inputs: one handler doing C07.reads-1..C07.reads reads of query parameters; every read
// independently takes its NAME in a catalogue of C07.names = 2..3 (so names may repeat: the same parameter read
// twice, with or without another parameter besides it) and its HELPER in {c.QueryParam,
// QueryParamInt64, QueryParamBool} (so repeated reads may disagree on the type); the reads are laid
// out flat, or with the first two in the two branches of an if, or with the first two in one tuple
// assignment. The oracle is the property itself: parse under the reference order == parse under
// every other order (natively: 32 repetitions under Go's randomised order).
func HC07_echoQueryParams() {
	echo := vfTypeCheck("example.com/mod/echo", []string{"/m/echo/echo.go"}, []string{c13Echo}, nil)

	maxReads := vfParam("C07.reads", 3)
	n := maxReads - vfChoice("fewer", 2)
	if n < 2 {
		n = 2
	}
	names := []string{"id", "from", "to"}
	if k := vfParam("C07.names", 3); k >= 2 && k < len(names) {
		names = names[:k]
	}
	goTypes := []string{"string", "int64", "bool"}
	helpers := vfParam("C07.helpers", 3)
	if helpers > len(goTypes) {
		helpers = len(goTypes)
	}
	vars, uses, blanks := "", "", ""
	var reads []string
	for i := 0; i < n; i++ {
		v := fmt.Sprint("v", i)
		name := names[vfChoice("name"+v, len(names))]
		kind := vfChoice("helper"+v, helpers)
		vars += "\tvar " + v + " " + goTypes[kind] + "\n"
		switch kind {
		case 0:
			reads = append(reads, "c.QueryParam(\""+name+"\")")
		case 1:
			reads = append(reads, "QueryParamInt64(c, \""+name+"\")")
		default:
			reads = append(reads, "QueryParamBool(c, \""+name+"\")")
		}
		if i > 0 {
			uses, blanks = uses+", ", blanks+", "
		}
		uses, blanks = uses+v, blanks+"_"
	}
	body := ""
	first := 2
	switch vfChoice("layout", 3) {
	case 0: // flat
		first = 0
	case 1: // the first two reads in the two branches of an if
		body += "\tif c.FormValue(\"mode\") == \"strict\" {\n\t\tv0 = " + reads[0] + "\n\t} else {\n\t\tv1 = " + reads[1] + "\n\t}\n"
	default: // the first two reads in one tuple assignment
		body += "\tv0, v1 = " + reads[0] + ", " + reads[1] + "\n"
	}
	for i := first; i < n; i++ {
		body += fmt.Sprint("\tv", i, " = ", reads[i], "\n")
	}
	src := "package routes\n\nimport \"example.com/mod/echo\"\n\n" +
		"func QueryParamInt64(c echo.Context, name string) int64 { return 0 }\nfunc QueryParamBool(c echo.Context, name string) bool { return false }\n\n" +
		"func search(c echo.Context) error {\n" + vars + body + "\t" + blanks + " = " + uses + "\n\treturn c.NoContent(200)\n}\n\n" +
		"func setup(e *echo.Echo) {\n\te.GET(\"/search\", search)\n}\n"
	pkg := vfTypeCheck("example.com/mod/routes", []string{"/m/routes/routes.go"}, []string{src}, []*packages.Package{echo})

	vfPermuteMaps(false)
	var ref []string
	panicked, rt, msg := vfCatch(func() { ref = c07iContract(ParseEcho(pkg, "/m/routes/routes.go", "")) })
	vfObserve("outcome", msg)
	// observed as a multiset: the order is the subject of the assertion below, and natively it is
	// not reproducible when that assertion fails
	sorted := append([]string(nil), ref...)
	sort.Strings(sorted)
	vfObserve("contract", sorted)
	if panicked || rt {
		return // completion is the subject of C13
	}
	vfAssert(len(ref) >= 3, "C07/echo-handler-reads-are-seen") // 1 endpoint line + >= 1 parameter + file line: the class is not vacuous
	vfPermuteMaps(true)
	for r := 0; r < c07iReps(); r++ {
		got := c07iContract(ParseEcho(pkg, "/m/routes/routes.go", ""))
		same := len(got) == len(ref)
		if same {
			for i := range ref {
				same = same && got[i] == ref[i]
			}
		}
		vfAssert(same, "C07/echo-contract-independent-of-map-order")
	}
}
