package analysis

import (
	"fmt"
	"go/ast"
	"go/constant"
	"go/token"
	"go/types"
	"strings"

	"golang.org/x/tools/go/packages"
)

// HC18_constDeclShapes: grouped and multi-name constant declarations are legal spellings of an
// enum; reading their trailing comments must not crash.
//
//	const (
//		A, B T = 1, 2 // comment
//		C T = 3
//	)
func HC18_constDeclShapes() {
	fset := token.NewFileSet()
	tf := fset.AddFile("p.go", -1, 10000)
	base := token.Pos(tf.Base())
	pkg := types.NewPackage("example.com/p", "p")
	t1 := types.NewNamed(types.NewTypeName(0, pkg, "T", nil), types.Typ[types.Int], nil)
	pkg.Scope().Insert(t1.Obj())

	grouped := vfChoice("grouped", 2) == 1
	gen := &ast.GenDecl{TokPos: base + 10, Tok: token.CONST}
	if grouped {
		gen.Lparen = base + 16
	}
	nspecs := 1 + vfChoice("specs", 2)
	if !grouped {
		nspecs = 1
	}
	pos := base + 20
	count := 0
	for s := 0; s < nspecs; s++ {
		nn := 1 + vfChoice(fmt.Sprint("names", s), 2)
		typed := vfChoice(fmt.Sprint("typed", s), 2) == 1
		spec := &ast.ValueSpec{}
		for k := 0; k < nn; k++ {
			name := fmt.Sprint("C", count)
			count++
			spec.Names = append(spec.Names, &ast.Ident{NamePos: pos, Name: name})
			pkg.Scope().Insert(types.NewConst(pos, pkg, name, t1, constant.MakeInt64(int64(count))))
			pos += 4
		}
		if typed {
			spec.Type = &ast.Ident{NamePos: pos, Name: "T"}
			pos += 2
		}
		for k := 0; k < nn; k++ {
			var v ast.Expr = &ast.BasicLit{ValuePos: pos, Kind: token.INT, Value: "1"}
			if !typed {
				v = &ast.CallExpr{Fun: &ast.Ident{NamePos: pos, Name: "T"}, Lparen: pos + 1, Args: []ast.Expr{&ast.BasicLit{ValuePos: pos + 2, Kind: token.INT, Value: "1"}}, Rparen: pos + 3}
				pos += 3
			}
			spec.Values = append(spec.Values, v)
			pos += 3
		}
		if vfChoice(fmt.Sprint("comment", s), 2) == 1 {
			spec.Comment = &ast.CommentGroup{List: []*ast.Comment{{Slash: pos + 1, Text: "// label"}}}
			pos += 10
		}
		gen.Specs = append(gen.Specs, spec)
		pos += 5
	}
	if grouped {
		gen.Rparen = pos
	}
	file := &ast.File{Package: base + 1, Name: &ast.Ident{NamePos: base + 9, Name: "p"}, Decls: []ast.Decl{gen}}
	pa := &packages.Package{PkgPath: "example.com/p", Fset: fset, Syntax: []*ast.File{file}, Types: pkg}

	var out enumsMap
	panicked, rt, msg := vfCatch(func() { out = fetchPkgEnums(pa) })
	vfObserve("outcome", msg)
	vfAssert(!rt, "C18/multi-name-constant-declaration-no-runtime-error")
	if !panicked {
		e := out[t1]
		vfAssert(e != nil && len(e.Members) == count, "C18/every-declared-name-is-a-member")
	}
}

// HC18_structComments: the doc comment of a struct declaration is free text; lines that look
// like gomacro directives, complete or not, must not crash the analysis.
func HC18_structComments() {
	fset := token.NewFileSet()
	tf := fset.AddFile("p.go", -1, 10000)
	base := token.Pos(tf.Base())
	pkg := types.NewPackage("example.com/mod/p", "p")
	namePos := base + 200
	named := types.NewNamed(types.NewTypeName(namePos, pkg, "Item", nil), types.NewStruct(nil, nil), nil)
	pkg.Scope().Insert(named.Obj())

	heads := []string{"// gomacro:SQL", "// gomacro:QUERY", "// gomacro:", "// gomacro:no-enum", "// gomacro:Other", "//gomacro:SQL", "// plain"}
	head := heads[vfChoice("head", len(heads))]
	tail := vfString("tail", 0, vfParam("C18.comment", 3), "sqltext")
	doc := &ast.CommentGroup{}
	pos := base + 20
	if vfChoice("twoLines", 2) == 1 {
		doc.List = append(doc.List, &ast.Comment{Slash: pos, Text: "// Item is a thing"})
		pos += 30
	}
	doc.List = append(doc.List, &ast.Comment{Slash: pos, Text: head + tail})
	spec := &ast.TypeSpec{Name: &ast.Ident{NamePos: namePos, Name: "Item"}, Type: &ast.StructType{Struct: namePos + 5, Fields: &ast.FieldList{Opening: namePos + 12, Closing: namePos + 13}}}
	gen := &ast.GenDecl{Doc: doc, TokPos: namePos - 5, Tok: token.TYPE, Specs: []ast.Spec{spec}}
	file := &ast.File{Package: base + 1, Name: &ast.Ident{NamePos: base + 9, Name: "p"}, Decls: []ast.Decl{gen}}
	pa := &packages.Package{ID: "example.com/mod/p", PkgPath: "example.com/mod/p", Fset: fset, Syntax: []*ast.File{file}, Types: pkg,
		Imports: map[string]*packages.Package{}}

	var out []SpecialComment
	panicked, rt, msg := vfCatch(func() { out = fetchStructComments(pa, named) })
	vfObserve("outcome", msg)
	vfObserve("n", len(out))
	vfAssert(!rt, "C18/struct-doc-comment-no-runtime-error")
	_ = panicked
}

// c18TimeStruct: a struct type printing like time.Time does (what NewTime looks for).
func c18TimeNamed(pkgPath, pkgName, typeName string) *types.Named {
	timePkg := types.NewPackage("time", "time")
	loc := types.NewNamed(types.NewTypeName(0, timePkg, "Location", nil), types.NewStruct(nil, nil), nil)
	st := types.NewStruct([]*types.Var{
		types.NewField(0, timePkg, "wall", types.Typ[types.Uint64], false),
		types.NewField(0, timePkg, "ext", types.Typ[types.Int64], false),
		types.NewField(0, timePkg, "loc", types.NewPointer(loc), false),
	}, nil)
	return types.NewNamed(types.NewTypeName(0, types.NewPackage(pkgPath, pkgName), typeName, nil), st, nil)
}

// HC18_createType: the analysis of every bounded go/types shape (named or not) over basic,
// pointer, slice, array, map, struct, interface, channel and function types either completes or
// stops with an explicit diagnostic.
func HC18_createType() {
	root := &packages.Package{ID: "example.com/mod/p", PkgPath: "example.com/mod/p", Types: types.NewPackage("example.com/mod/p", "p"),
		Imports: map[string]*packages.Package{}}
	lib := types.NewPackage("other.org/lib", "lib") // outside the root prefix: no comment lookup
	var shape func(tag string, depth int) types.Type
	shape = func(tag string, depth int) types.Type {
		n := 12
		if depth <= 0 {
			n = 4
		}
		switch vfChoice(tag+".shape", n) {
		case 0:
			return types.Typ[types.Int]
		case 1:
			return types.Typ[types.String]
		case 2:
			return types.Typ[types.Complex128]
		case 3:
			return c18TimeNamed("time", "time", "Time")
		case 4:
			return types.NewPointer(shape(tag+"*", depth-1))
		case 5:
			return types.NewSlice(shape(tag+"[]", depth-1))
		case 6:
			return types.NewArray(shape(tag+"[n]", depth-1), 2)
		case 7:
			return types.NewMap(types.Typ[types.String], shape(tag+"{}", depth-1))
		case 8:
			f := types.NewField(0, lib, "F", shape(tag+".f", depth-1), false)
			return types.NewStruct([]*types.Var{f}, []string{`json:"f"`})
		case 9:
			return types.NewInterfaceType(nil, nil)
		case 10:
			return types.NewChan(types.SendRecv, types.Typ[types.Int])
		default:
			return types.NewSignatureType(nil, nil, nil, nil, nil, false)
		}
	}
	typ := shape("t", vfParam("C18.gotypes", 2))
	switch vfChoice("named", 3) {
	case 1:
		typ = types.NewNamed(types.NewTypeName(0, lib, "N", nil), typ.Underlying(), nil)
	case 2:
		typ = c18TimeNamed("other.org/lib", "lib", []string{"MyDate", "Stamp"}[vfChoice("timeName", 2)])
	}
	ana := &Analysis{Types: map[types.Type]Type{}, Pkg: root}
	ctx := context{rootPackage: root, enums: enumsMap{}, unions: unionsMap{}}
	panicked, rt, msg := vfCatch(func() { ana.handleType(typ, ctx) })
	vfObserve("outcome", msg)
	vfAssert(!rt, "C18/analysis-of-any-type-shape-no-runtime-error")
	_ = panicked
}

// HC18_recursiveDeclarations: the analysis of a self-referential declaration — through a slice, an
// array of pointers, a map, nested maps, a map of slices, a struct field — returns (a node or a
// diagnostic); it never recurses without bound (which natively is a fatal stack overflow, for every target).
func HC18_recursiveDeclarations() {
	lib := types.NewPackage("other.org/lib", "lib")
	root := &packages.Package{ID: "example.com/mod/p", PkgPath: "example.com/mod/p", Types: types.NewPackage("example.com/mod/p", "p"),
		Imports: map[string]*packages.Package{}}
	self := types.NewNamed(types.NewTypeName(0, lib, "Self", nil), nil, nil)
	str := types.Typ[types.String]
	switch vfChoice("shape", 7) {
	case 0:
		self.SetUnderlying(types.NewSlice(self))
	case 1:
		self.SetUnderlying(types.NewArray(types.NewPointer(self), 2))
	case 2:
		self.SetUnderlying(types.NewMap(str, self))
	case 3:
		self.SetUnderlying(types.NewMap(str, types.NewMap(str, self)))
	case 4:
		self.SetUnderlying(types.NewMap(str, types.NewSlice(self)))
	case 5:
		self.SetUnderlying(types.NewSlice(types.NewMap(str, self)))
	default:
		self.SetUnderlying(types.NewStruct([]*types.Var{types.NewField(0, lib, "Next", types.NewPointer(self), false), types.NewField(0, lib, "Kids", types.NewMap(str, self), false)}, nil))
	}
	ana := &Analysis{Types: map[types.Type]Type{}, Pkg: root}
	ctx := context{rootPackage: root, enums: enumsMap{}, unions: unionsMap{}}
	var rt bool
	var msg string
	terminated := vfTerminates(func() {
		_, rt, msg = vfCatch(func() { ana.handleType(self, ctx) })
	})
	vfAssert(terminated, "C18/analysis-of-a-recursive-declaration-terminates")
	if !terminated {
		return
	}
	vfObserve("outcome", msg)
	vfAssert(!rt, "C18/analysis-no-runtime-error")
}

// HC18_pkgSelector: the package selector of any root package — import paths of one element (a module
// named by one word, command-line-arguments), two, three and more — is built without a runtime error,
// keeps the root package itself and the packages below its first two path elements, drops the others.
func HC18_pkgSelector() {
	paths := []string{"app", "command-line-arguments", "example.com/mod", "example.com/mod/sub", "a/b/c/d", "x/y"}
	path := paths[vfChoice("root", len(paths))]
	root := &packages.Package{ID: path, PkgPath: path}
	var sel PkgSelector
	panicked, rt, msg := vfCatch(func() { sel = NewPkgSelector(root) })
	vfObserve("outcome", msg)
	vfAssert(!panicked && !rt, "C18/package-selector-no-runtime-error")
	if panicked {
		return
	}
	vfAssert(!sel.Ignore(root), "C18/package-selector-keeps-the-root-package")
	chunks := strings.Split(path, "/")
	if len(chunks) >= 2 {
		inside := &packages.Package{PkgPath: chunks[0] + "/" + chunks[1] + "/other"}
		vfAssert(!sel.Ignore(inside), "C18/package-selector-keeps-the-packages-of-the-root-tree")
	}
	vfAssert(sel.Ignore(&packages.Package{PkgPath: "fmt"}) && sel.Ignore(&packages.Package{PkgPath: "other.org/lib/x"}), "C18/package-selector-drops-foreign-packages")
}

// HC18_interfaceShapes: interfaces of every shape in the scanned package — empty, with methods, made
// only of embedded interfaces (of the package, of the standard library), with type constraints — are
// scanned for unions without a runtime error.
func HC18_interfaceShapes() {
	decls := []string{
		"type Drawable interface{ Shape }\n",
		"type Printable interface{ fmt.Stringer }\n",
		"type Both interface {\n\tShape\n\tfmt.Stringer\n}\n",
		"type Number interface{ ~int | ~float64 }\n",
		"type Nothing interface{}\n",
		"type Any = interface{}\n",
	}
	src := "package p\n\nimport \"fmt\"\n\nvar _ fmt.Stringer\n\ntype Shape interface{ isShape() }\n\ntype Circle struct{ R int }\n\nfunc (Circle) isShape() {}\n\n" +
		decls[vfChoice("interface", len(decls))] + "\ntype Holder struct{ S Shape }\n"
	pkg := vfTypeCheck("example.com/mod/p", []string{"/m/p/p.go"}, []string{src}, nil)
	rt, msg := false, ""
	var ana *Analysis
	_, rt, msg = vfCatch(func() { ana = NewAnalysisFromTypes(pkg, []types.Type{pkg.Types.Scope().Lookup("Holder").Type()}) })
	vfObserve("outcome", msg)
	vfAssert(!rt, "C18/union-scan-no-runtime-error")
	if ana != nil {
		_, isUnion := ana.Types[pkg.Types.Scope().Lookup("Shape").Type()].(*Union)
		vfAssert(isUnion, "C18/supported-input-is-still-analysed")
	}
}
