package analysis

import (
	"fmt"
	"go/ast"
	"go/constant"
	"go/token"
	"go/types"

	"golang.org/x/tools/go/packages"
)

// HC18_constDeclShapes: grouped and multi-name constant declarations are legal spellings of an
// enum; reading their trailing comments must not crash.
//
//	const (
//		A, B T = 1, 2 // comment
//		C T = 3
//	)
func HC18_constDeclShapes() {
	fset := token.NewFileSet()
	tf := fset.AddFile("p.go", -1, 10000)
	base := token.Pos(tf.Base())
	pkg := types.NewPackage("example.com/p", "p")
	t1 := types.NewNamed(types.NewTypeName(0, pkg, "T", nil), types.Typ[types.Int], nil)
	pkg.Scope().Insert(t1.Obj())

	grouped := vfChoice("grouped", 2) == 1
	gen := &ast.GenDecl{TokPos: base + 10, Tok: token.CONST}
	if grouped {
		gen.Lparen = base + 16
	}
	nspecs := 1 + vfChoice("specs", 2)
	if !grouped {
		nspecs = 1
	}
	pos := base + 20
	count := 0
	for s := 0; s < nspecs; s++ {
		nn := 1 + vfChoice(fmt.Sprint("names", s), 2)
		typed := vfChoice(fmt.Sprint("typed", s), 2) == 1
		spec := &ast.ValueSpec{}
		for k := 0; k < nn; k++ {
			name := fmt.Sprint("C", count)
			count++
			spec.Names = append(spec.Names, &ast.Ident{NamePos: pos, Name: name})
			pkg.Scope().Insert(types.NewConst(pos, pkg, name, t1, constant.MakeInt64(int64(count))))
			pos += 4
		}
		if typed {
			spec.Type = &ast.Ident{NamePos: pos, Name: "T"}
			pos += 2
		}
		for k := 0; k < nn; k++ {
			var v ast.Expr = &ast.BasicLit{ValuePos: pos, Kind: token.INT, Value: "1"}
			if !typed {
				v = &ast.CallExpr{Fun: &ast.Ident{NamePos: pos, Name: "T"}, Lparen: pos + 1, Args: []ast.Expr{&ast.BasicLit{ValuePos: pos + 2, Kind: token.INT, Value: "1"}}, Rparen: pos + 3}
				pos += 3
			}
			spec.Values = append(spec.Values, v)
			pos += 3
		}
		if vfChoice(fmt.Sprint("comment", s), 2) == 1 {
			spec.Comment = &ast.CommentGroup{List: []*ast.Comment{{Slash: pos + 1, Text: "// label"}}}
			pos += 10
		}
		gen.Specs = append(gen.Specs, spec)
		pos += 5
	}
	if grouped {
		gen.Rparen = pos
	}
	file := &ast.File{Package: base + 1, Name: &ast.Ident{NamePos: base + 9, Name: "p"}, Decls: []ast.Decl{gen}}
	pa := &packages.Package{PkgPath: "example.com/p", Fset: fset, Syntax: []*ast.File{file}, Types: pkg}

	var out enumsMap
	panicked, rt, msg := vfCatch(func() { out = fetchPkgEnums(pa) })
	vfObserve("outcome", msg)
	vfAssert(!rt, "C18/multi-name-constant-declaration-no-runtime-error")
	if !panicked {
		e := out[t1]
		vfAssert(e != nil && len(e.Members) == count, "C18/every-declared-name-is-a-member")
	}
}
