package analysis

import (
	"fmt"
	"go/types"

	"golang.org/x/tools/go/packages"
)

// HC10_foreignTypedConstants: enum detection over an import graph in which packages other than the
// one owning the enum type declare constants typed with it (real parser and type checker,
// NewAnalysisFromFile).
//
// Class of inputs: a module of four packages under one <domain>/<org> prefix:
//   - `levels`, owning `type Level int` and an iota block of 0..3 labelled constants of it
//     (0: the owning package declares no constant of the type, which is then no enum);
//   - two intermediate packages A and B, whose names are drawn from a catalogue standing before and
//     after "levels" in path order, each importing `levels` for a field type, each declaring its own
//     enum, and each declaring or not one constant typed levels.Level (a value outside the block for
//     A, a value colliding with the first member for B);
//   - the analysed root package, importing {A,B}, {levels,A}, {levels,B}, {A,B,levels}, or only A with
//     A importing B (chain); when it imports `levels` it may declare a levels.Level constant itself.
//
// Oracle (the property text, nothing of the implementation): Level is an enum because *its package*
// declares typed constants of it; its members are all those constants - the ones of the owning
// package, each once, with their values and trailing comments - whatever other packages declare and
// however often or in whichever order the owner is reached; being a plain iota block of
// non-negative constants it is flagged iota-like. The own enums of the intermediate packages are
// reported with their own members.
func HC10_foreignTypedConstants() {
	const prefix = "example.com/mod/"
	k := vfChoice("members", 4)
	levelsSrc := "package levels\n\ntype Level int\n\nconst (\n"
	for i := 0; i < k; i++ {
		if i == 0 {
			levelsSrc += "\tL0 Level = iota // level 0\n"
		} else {
			levelsSrc += fmt.Sprint("\tL", i, " // level ", i, "\n")
		}
	}
	levelsSrc += ")\n"
	if k == 0 {
		levelsSrc = "package levels\n\ntype Level int\n"
	}
	levels := vfTypeCheck(prefix+"levels", []string{"/m/levels/levels.go"}, []string{levelsSrc}, nil)

	nameA := []string{"alpha", "report"}[vfChoice("nameA", 2)] // before / after "levels" in path order
	nameB := []string{"beta", "zulu"}[vfChoice("nameB", 2)]
	declA := vfChoice("declA", 2) == 1
	declB := vfChoice("declB", 2) == 1
	shape := vfChoice("shape", 5)
	chain := shape == 4

	// intermediate package: a struct with a Level field, an enum of its own, optionally a constant of the foreign type
	inter := func(name, constName string, value int, decl bool, extraImport *packages.Package) *packages.Package {
		src := "package " + name + "\n\nimport \"" + prefix + "levels\"\n"
		imports := []*packages.Package{levels}
		field := ""
		if extraImport != nil {
			src += "\nimport \"" + extraImport.PkgPath + "\"\n"
			imports = append(imports, extraImport)
			field = "\tNext " + extraImport.Name + ".Item\n"
		}
		if decl {
			src += fmt.Sprint("\n// ", constName, " is a remarkable level\nconst ", constName, " levels.Level = ", value, " // foreign\n")
		}
		src += "\ntype Mode int\n\nconst (\n\tModeA Mode = iota // a\n\tModeB // b\n)\n"
		src += "\ntype Item struct {\n\tName string\n\tMin levels.Level\n\tM Mode\n" + field + "}\n"
		return vfTypeCheck(prefix+name, []string{"/m/" + name + "/" + name + ".go"}, []string{src}, imports)
	}
	pb := inter(nameB, "Floor", 0, declB, nil)
	var pa *packages.Package
	if chain {
		pa = inter(nameA, "Threshold", 7, declA, pb)
	} else {
		pa = inter(nameA, "Threshold", 7, declA, nil)
	}

	// root
	var rootImports []*packages.Package
	switch shape {
	case 0:
		rootImports = []*packages.Package{pa, pb}
	case 1:
		rootImports = []*packages.Package{levels, pa}
	case 2:
		rootImports = []*packages.Package{levels, pb}
	case 3:
		rootImports = []*packages.Package{pa, pb, levels}
	default:
		rootImports = []*packages.Package{pa}
	}
	rootSrc := "package root\n\nimport (\n"
	fields := ""
	direct := false
	for _, ip := range rootImports {
		rootSrc += "\t\"" + ip.PkgPath + "\"\n"
		if ip == levels {
			direct = true
			fields += "\tL levels.Level\n"
		} else {
			fields += "\tF" + ip.Name + " " + ip.Name + "." + "Item\n"
		}
	}
	rootSrc += ")\n\n"
	declRoot := false
	if direct && vfChoice("declRoot", 2) == 1 {
		declRoot = true
		rootSrc += "const Default levels.Level = 1 // foreign, in the analysed package\n\n"
	}
	rootSrc += "type Page struct {\n" + fields + "}\n"
	root := vfTypeCheck(prefix+"root", []string{"/m/root/root.go"}, []string{rootSrc}, rootImports)
	vfObserve("graph", fmt.Sprint(k, nameA, declA, nameB, declB, shape, declRoot))

	var ana *Analysis
	panicked, rt, msg := vfCatch(func() { ana = NewAnalysisFromFile(root, "/m/root/root.go") })
	vfObserve("outcome", msg)
	vfAssert(!panicked && !rt, "C10/analysis-of-a-real-source-file-completes")
	if panicked {
		return
	}

	var level types.Type = levels.Types.Scope().Lookup("Level").Type()
	enum, isEnum := ana.Types[level].(*Enum)
	if k == 0 {
		// the owning package declares no constant of Level: not an enum, whatever the importers declare
		vfAssert(!isEnum, "C10/type-without-constant-in-its-own-package-is-not-an-enum")
		return
	}
	vfAssert(isEnum, "C10/type-with-constants-in-its-own-package-is-an-enum-whatever-importers-declare")
	if !isEnum {
		return
	}
	// members: exactly the constants of the owning package, each once, value = position, label kept
	ok := len(enum.Members) == k
	owned := true
	for i := 0; i < k; i++ {
		name := fmt.Sprint("L", i)
		count := 0
		for _, m := range enum.Members {
			if m.Const.Name() == name {
				count++
				ok = ok && m.Const == levels.Types.Scope().Lookup(name)
				ok = ok && m.Const.Val().ExactString() == fmt.Sprint(i)
				ok = ok && m.Comment == fmt.Sprint("level ", i)
			}
		}
		ok = ok && count == 1
	}
	for _, m := range enum.Members {
		owned = owned && m.Const.Pkg() == levels.Types
	}
	vfObserve("members", len(enum.Members))
	vfAssert(owned, "C10/members-are-constants-of-the-package-owning-the-type")
	vfAssert(ok, "C10/members-of-the-owning-package-each-once-with-values-and-comments-across-packages")
	vfAssert(enum.IsIota, "C10/plain-iota-block-is-iota-like-whatever-importers-declare")

	// the own enum of every reached intermediate package
	reached := []*packages.Package{pa}
	if shape == 0 || shape == 3 || shape == 4 {
		reached = append(reached, pb)
	} else if shape == 2 {
		reached = []*packages.Package{pb}
	}
	okOwn := true
	for _, ip := range reached {
		mode, isMode := ana.Types[ip.Types.Scope().Lookup("Mode").Type()].(*Enum)
		okOwn = okOwn && isMode
		if !isMode {
			continue
		}
		okOwn = okOwn && len(mode.Members) == 2 && mode.IsIota
		for _, m := range mode.Members {
			okOwn = okOwn && m.Const.Pkg() == ip.Types
		}
	}
	vfAssert(okOwn, "C10/own-enums-of-importing-packages-are-reported-with-their-members")
}
