package analysis

import (
	"fmt"
	"go/types"
	"golang.org/x/tools/go/packages"
	"strings"
)

// HC12_sourceOrder: through the real parser and type checker: the declarations of the analysed
// file are reported in source order (whatever their names), declarations of other files are not
// reported, and every declared type is analysed.
func HC12_sourceOrder() {
	decls := map[string]string{
		"Zeta":  "type Zeta struct {\n\tA int\n\tNext *Zeta\n}\n",
		"Alpha": "type Alpha []Zeta\n",
		"Mid":   "type Mid map[string]Alpha\n",
		"Kind":  "type Kind uint8\n\nconst (\n\tK0 Kind = iota\n\tK1\n)\n",
	}
	names := []string{"Zeta", "Alpha", "Mid", "Kind"}
	perm := c12Perms4[vfChoice("order", len(c12Perms4))]
	src := "package p\n\n"
	var order []string
	// an alias of Zeta declared anywhere among the others: it keeps its own place in the source order
	aliasAt := vfChoice("aliasAt", 6) // 5 = no alias
	for k, i := range perm {
		if k == aliasAt {
			src += "type Again = Zeta\n\n"
			order = append(order, "Again")
		}
		src += decls[names[i]] + "\n"
		order = append(order, names[i])
	}
	if aliasAt == 4 {
		src += "type Again = Zeta\n"
		order = append(order, "Again")
	}
	other := "package p\n\ntype Elsewhere struct{ B bool }\n"
	pkg := vfTypeCheck("example.com/mod/p", []string{"/m/p/types.go", "/m/p/other.go"}, []string{src, other}, nil)
	var ana *Analysis
	panicked, rt, msg := vfCatch(func() { ana = NewAnalysisFromFile(pkg, "/m/p/types.go") })
	vfObserve("outcome", msg)
	vfAssert(!panicked && !rt, "C12/analysis-of-a-real-source-file-completes")
	if panicked {
		return
	}
	ok := len(ana.Source) == len(order)
	if ok {
		for i, n := range order {
			name := ""
			switch t := ana.Source[i].(type) {
			case *types.Named:
				name = t.Obj().Name()
			case *types.Alias:
				name = t.Obj().Name()
			}
			ok = ok && name == n
		}
	}
	vfAssert(ok, "C12/source-declarations-are-reported-in-source-order")
	allAnalysed := true
	for _, t := range ana.Source {
		allAnalysed = allAnalysed && ana.Types[t] != nil
	}
	vfAssert(allAnalysed, "C12/every-source-declaration-is-analysed")
	_, isEnum := ana.Types[pkg.Types.Scope().Lookup("Kind").Type()].(*Enum)
	vfAssert(isEnum, "C12/enum-declared-in-the-file-is-classified-as-enum")
}

var c12Perms4 = [][]int{
	{0, 1, 2, 3}, {0, 1, 3, 2}, {0, 2, 1, 3}, {0, 2, 3, 1}, {0, 3, 1, 2}, {0, 3, 2, 1},
	{1, 0, 2, 3}, {1, 0, 3, 2}, {1, 2, 0, 3}, {1, 2, 3, 0}, {1, 3, 0, 2}, {1, 3, 2, 0},
	{2, 0, 1, 3}, {2, 0, 3, 1}, {2, 1, 0, 3}, {2, 1, 3, 0}, {2, 3, 0, 1}, {2, 3, 1, 0},
	{3, 0, 1, 2}, {3, 0, 2, 1}, {3, 1, 0, 2}, {3, 1, 2, 0}, {3, 2, 0, 1}, {3, 2, 1, 0},
}

// HC10_realSource: enum detection through the real parser and type checker, on the spellings a
// Go programmer uses: iota blocks (with offset, with skipped values, with unexported members),
// explicit values, multi-name declarations, string enums, the opt-out comment, trailing labels.
func HC10_realSource() {
	type variant struct {
		src     string
		members []string // member names
		labels  []string // trailing comments
		iota    bool
		isEnum  bool
	}
	variants := []variant{
		{"const (\n\tA E = iota // first\n\tB // second\n\tC\n)\n", []string{"A", "B", "C"}, []string{"first", "second", ""}, true, true},
		{"const (\n\tA E = iota + 1\n\tB\n)\n", []string{"A", "B"}, []string{"", ""}, false, true},
		{"const (\n\tA E = iota\n\t_\n\tC\n)\n", []string{"A", "C"}, []string{"", ""}, false, true},
		{"const (\n\tA E = iota\n\tb\n\tC\n)\n", []string{"A", "b", "C"}, []string{"", "", ""}, false, true},
		{"const (\n\tA E = iota\n\tB\n\tnbE // number of values\n)\n", []string{"A", "B", "nbE"}, []string{"", "", "number of values"}, true, true},
		{"const A, B E = 0, 1 // both\n", []string{"A", "B"}, []string{"both", "both"}, true, true},
		{"const (\n\tB E = 1\n\tA E = 0\n)\n", []string{"A", "B"}, []string{"", ""}, true, true},
		{"const (\n\tA E = 2\n\tB E = 2\n)\n", []string{"A", "B"}, []string{"", ""}, false, true},
		{"const (\n\tA E = -1\n\tB E = 0\n)\n", []string{"A", "B"}, []string{"", ""}, false, true},
		{"const A E = 5 // gomacro:no-enum\n", nil, nil, false, false},
		{"const (\n\tA E = iota // gomacro:no-enum\n\tB // kept\n)\n", []string{"B"}, []string{"kept"}, false, true},
		{"var A E = 3\n", nil, nil, false, false},
		// declarations spanning several lines: the trailing comment stands after the last line
		{"const A E = 1 +\n\t2 // gomacro:no-enum\n", nil, nil, false, false},
		{"const (\n\tA E = 1 |\n\t\t2 // three\n\tB E = 4 // four\n)\n", []string{"A", "B"}, []string{"three", "four"}, false, true},
		{"const (\n\tA E = 1 +\n\t\t1 // gomacro:no-enum\n\tB E = 0 // kept\n)\n", []string{"B"}, []string{"kept"}, true, true},
	}
	v := variants[vfChoice("variant", len(variants))]
	under := "int"
	isString := vfChoice("string", 2) == 1
	src := v.src
	if isString {
		// string-backed: only explicit values make sense; reuse the shapes with explicit strings
		under = "string"
		src = "const (\n\tA E = \"a\" // first\n\tB E = \"b\"\n)\n"
		v = variant{src, []string{"A", "B"}, []string{"first", ""}, false, true}
	}
	// identifiers of the enum may be shadowed by function-local declarations standing earlier in the file
	prelude := ""
	if vfChoice("prelude", 2) == 1 {
		prelude = "func early() int {\n\tconst A = 7 // gomacro:no-enum\n\tvar B = 1 // shadow label\n\tconst C, nbE = 2, 3 // shadows\n\treturn A + B + C + nbE\n}\n\n"
	}
	file := "package p\n\n" + prelude + "type E " + under + "\n\n" + src + "\ntype Holder struct {\n\tV E\n}\n"
	pkg := vfTypeCheck("example.com/mod/p", []string{"/m/p/e.go"}, []string{file}, nil)
	var ana *Analysis
	panicked, rt, msg := vfCatch(func() { ana = NewAnalysisFromFile(pkg, "/m/p/e.go") })
	vfObserve("outcome", msg)
	vfAssert(!panicked && !rt, "C10/analysis-of-a-real-source-file-completes")
	if panicked {
		return
	}
	node := ana.Types[pkg.Types.Scope().Lookup("E").Type()]
	enum, isEnum := node.(*Enum)
	vfAssert(isEnum == v.isEnum, "C10/enum-iff-a-typed-constant-not-opted-out-real-source")
	if !isEnum {
		return
	}
	ok := len(enum.Members) == len(v.members)
	for i, name := range v.members {
		count := 0
		for _, m := range enum.Members {
			if m.Const.Name() == name {
				count++
				ok = ok && m.Comment == v.labels[i]
			}
		}
		ok = ok && count == 1
	}
	vfObserve("members", fmt.Sprint(len(enum.Members)))
	vfAssert(ok, "C10/members-and-trailing-comments-real-source")
	vfAssert(enum.IsIota == v.iota, "C10/iota-flag-real-source")
	_ = strings.TrimSpace
}

// HC11_realSource: union membership and back links through the real parser and type checker:
// value vs pointer receivers, methods promoted from an embedded struct, interfaces implementing
// interfaces, the empty interface, unions reached directly or through containers.
func HC11_realSource() {
	withAny := vfChoice("any", 2) == 1
	reach := vfChoice("reach", 4) // how Shape is reached from the source type
	field := []string{"S Shape", "S []Shape", "S map[string]Shape", "S ShapeList"}[reach]
	src := "package p\n\n" +
		"type Shape interface{ isShape() }\n\n" +
		"type Named interface {\n\tShape\n\tName() string\n}\n\n" +
		"type Any interface{}\n\n" +
		"type ShapeList []Shape\n\n" +
		"type Circle struct{ R int }\n\nfunc (Circle) isShape() {}\n\n" +
		"type Ptr struct{ X int }\n\nfunc (*Ptr) isShape() {}\n\n" +
		"type Wrapped struct {\n\tCircle\n\tLabel string\n}\n\n" +
		"type Count int\n\nfunc (Count) isShape() {}\n\n" +
		"type Legacy struct{ X int }\n\nfunc (Legacy) isShape() bool { return true }\n\n" + // same method name, another signature: not a member
		"type Drawable interface{ Shape }\n\n" + // only embedded interfaces
		"type Holder struct {\n\t" + field + "\n"
	if vfChoice("aliases", 2) == 1 {
		// alias declarations name no new type: they add no member
		src = strings.Replace(src, "type Holder struct", "type Round = Circle\n\ntype Num = Count\n\ntype Figure = Shape\n\ntype Holder struct", 1)
	}
	if withAny {
		src += "\tA Any\n"
	}
	src += "}\n"
	pkg := vfTypeCheck("example.com/mod/p", []string{"/m/p/u.go"}, []string{src}, nil)
	holder := pkg.Types.Scope().Lookup("Holder").Type()
	var ana *Analysis
	panicked, rt, msg := vfCatch(func() { ana = NewAnalysisFromTypes(pkg, []types.Type{holder}) })
	vfObserve("outcome", msg)
	vfAssert(!panicked && !rt, "C11/analysis-of-a-real-source-file-completes")
	if panicked {
		return
	}
	lookup := func(name string) types.Type { return pkg.Types.Scope().Lookup(name).Type() }
	shape, isUnion := ana.Types[lookup("Shape")].(*Union)
	vfAssert(isUnion, "C11/interface-with-implementers-is-a-union-however-it-is-reached")
	if !isUnion {
		return
	}
	// members: the non-interface named types whose (value) method set implements Shape, in name order
	want := []string{"Circle", "Count", "Wrapped"}
	ok := len(shape.Members) == len(want)
	if ok {
		for i, n := range want {
			ok = ok && LocalName(shape.Members[i]) == n
		}
	}
	vfObserve("members", len(shape.Members))
	vfAssert(ok, "C11/members-are-exactly-the-value-implementers-in-name-order-real-source")
	// back links: every analysed struct reports exactly the analysed unions listing it
	for _, n := range []string{"Circle", "Wrapped"} {
		st, isStruct := ana.Types[lookup(n)].(*Struct)
		vfAssert(isStruct, "C11/member-structs-are-analysed")
		if !isStruct {
			continue
		}
		wantImpl := []string{"Shape"}
		if withAny {
			wantImpl = []string{"Any", "Shape"}
		}
		okI := len(st.Implements) == len(wantImpl)
		if okI {
			for i, u := range wantImpl {
				okI = okI && LocalName(st.Implements[i]) == u
			}
		}
		vfAssert(okI, "C11/implements-lists-exactly-the-analysed-unions-in-name-order-real-source")
	}
	hs := ana.Types[holder].(*Struct)
	vfAssert(len(hs.Implements) == map[bool]int{false: 0, true: 1}[withAny], "C11/a-struct-implementing-no-analysed-union-but-any-reports-only-it")
}

// HC12_aliases: alias declarations, chains of aliases included, denote the type they stand for: every
// field reached through an alias is analysed as the node of the aliased type and converts back to it.
func HC12_aliases() {
	src := "package p\n\ntype Dist float64\n\ntype Meters = Dist\n\ntype Length = Meters\n\ntype Rec struct{ A int }\n\ntype RecA = Rec\n\ntype RecB = RecA\n\ntype Text = string\n\ntype Words = []Text\n\n" +
		"type Holder struct {\n\tD Dist\n\tM Meters\n\tL Length\n\tR RecB\n\tS []Length\n\tMp map[Text]RecB\n\tW Words\n}\n"
	pkg := vfTypeCheck("example.com/mod/p", []string{"/m/p/a.go"}, []string{src}, nil)
	holder := pkg.Types.Scope().Lookup("Holder").Type()
	var ana *Analysis
	panicked, rt, msg := vfCatch(func() { ana = NewAnalysisFromTypes(pkg, []types.Type{holder}) })
	vfObserve("outcome", msg)
	vfAssert(!panicked && !rt, "C12/analysis-of-a-real-source-file-completes")
	if panicked {
		return
	}
	hs, isStruct := ana.Types[holder].(*Struct)
	vfAssert(isStruct && len(hs.Fields) == 7, "C12/struct-node-has-one-field-per-source-field")
	if !isStruct || len(hs.Fields) != 7 {
		return
	}
	back := true
	for _, f := range hs.Fields {
		back = back && f.Type != nil && types.Identical(f.Type.Type(), types.Unalias(f.Field.Type()))
	}
	vfAssert(back, "C12/nodes-convert-back-to-an-identical-go-type")
	kinds := true
	for _, i := range []int{0, 1, 2} { // Dist, Meters, Length: the named float Dist
		n, isNamed := hs.Fields[i].Type.(*Named)
		kinds = kinds && isNamed && LocalName(n) == "Dist"
	}
	_, recIsStruct := hs.Fields[3].Type.(*Struct)
	arr, isArr := hs.Fields[4].Type.(*Array)
	mp, isMap := hs.Fields[5].Type.(*Map)
	kinds = kinds && recIsStruct && isArr && isMap
	if kinds {
		_, elemNamed := arr.Elem.(*Named)
		_, valStruct := mp.Elem.(*Struct)
		kb, keyBasic := mp.Key.(*Basic)
		kinds = elemNamed && valStruct && keyBasic && kb.Kind() == BKString
	}
	vfAssert(kinds, "C12/nodes-are-classified-as-go-types-reports")
}

// HC12_lookAlikes: only time.Time (and named types over it) are times: a struct that merely has
// fields named like time.Time's is analysed as the struct it is, its field types being reached.
func HC12_lookAlikes() {
	src := "package p\n\nimport \"time\"\n\ntype Wall struct{ Height int }\n\ntype Extension struct{ Name string }\n\ntype Location struct{ X, Y int }\n\n" +
		"type Room struct {\n\twall Wall\n\text Extension\n\tloc Location\n}\n\n" +
		"type Stamp time.Time\n\ntype Holder struct {\n\tR Room\n\tRs []Room\n\tAt time.Time\n\tS Stamp\n}\n"
	pkg := vfTypeCheck("example.com/mod/p", []string{"/m/p/a.go"}, []string{src}, nil)
	lookup := func(name string) types.Type { return pkg.Types.Scope().Lookup(name).Type() }
	var ana *Analysis
	panicked, rt, msg := vfCatch(func() { ana = NewAnalysisFromTypes(pkg, []types.Type{lookup("Holder")}) })
	vfObserve("outcome", msg)
	vfAssert(!panicked && !rt, "C12/analysis-of-a-real-source-file-completes")
	if panicked {
		return
	}
	room, isStruct := ana.Types[lookup("Room")].(*Struct)
	vfAssert(isStruct && len(room.Fields) == 3, "C12/nodes-are-classified-as-go-types-reports")
	reached := true
	for _, n := range []string{"Wall", "Extension", "Location"} {
		_, ok := ana.Types[lookup(n)].(*Struct)
		reached = reached && ok
	}
	vfAssert(reached, "C12/every-type-reachable-through-fields-is-analysed")
	stamp, isNamed := ana.Types[lookup("Stamp")].(*Named)
	isTime := false
	if isNamed {
		_, isTime = stamp.Underlying.(*Time)
	}
	hs := ana.Types[lookup("Holder")].(*Struct)
	_, atIsTime := hs.Fields[2].Type.(*Time)
	vfAssert(isTime && atIsTime, "C12/time-types-are-reported-as-predefined")
}

// HC11_homonyms: two structs of two packages share their local name; one is a member of a union, the
// other is not: only the member reports the union in Implements.
func HC11_homonyms() {
	sub := vfTypeCheck("example.com/mod/sub", []string{"/m/sub/sub.go"}, []string{
		"package sub\n\ntype Shape interface{ isShape() }\n\ntype Item struct{ R int }\n\nfunc (Item) isShape() {}\n\ntype Zed struct{ W int }\n\nfunc (Zed) isShape() {}\n"}, nil)
	order := vfChoice("fieldOrder", 2)
	fields := []string{"\tMine Item\n", "\tTheirs sub.Item\n"}
	src := "package p\n\nimport \"example.com/mod/sub\"\n\ntype Item struct{ Name string }\n\ntype Aaa struct{ N int }\n\ntype Holder struct {\n" + fields[order] + fields[1-order] + "\tS sub.Shape\n\tA Aaa\n}\n"
	pkg := vfTypeCheck("example.com/mod/p", []string{"/m/p/p.go"}, []string{src}, []*packages.Package{sub})
	var ana *Analysis
	panicked, rt, msg := vfCatch(func() { ana = NewAnalysisFromFile(pkg, "/m/p/p.go") })
	vfObserve("outcome", msg)
	vfAssert(!panicked && !rt, "C11/analysis-of-a-real-source-file-completes")
	if panicked {
		return
	}
	mine, ok1 := ana.Types[pkg.Types.Scope().Lookup("Item").Type()].(*Struct)
	theirs, ok2 := ana.Types[sub.Types.Scope().Lookup("Item").Type()].(*Struct)
	vfAssert(ok1 && ok2, "C11/member-structs-are-analysed")
	if !ok1 || !ok2 {
		return
	}
	vfAssert(len(theirs.Implements) == 1 && LocalName(theirs.Implements[0]) == "Shape", "C11/implements-lists-exactly-the-analysed-unions-in-name-order-real-source")
	vfAssert(len(mine.Implements) == 0, "C11/a-struct-of-another-package-with-the-same-local-name-is-not-a-member")
}

// HC10_manyMembers: the iota flag on enums of more than 64 exported constants.
func HC10_manyMembers() {
	shape := vfChoice("shape", 5)
	n := 66
	src := "package p\n\ntype E int\n\nconst (\n"
	wantIota := true
	for i := 0; i < n; i++ {
		v := i
		switch shape {
		case 1: // a gap after 64 consecutive values
			if i >= 64 {
				v = i + 36
				wantIota = false
			}
		case 2: // a duplicate after 64 consecutive values
			if i >= 64 {
				v = 63
				wantIota = false
			}
		case 3: // a gap at the very end
			if i == n-1 {
				v = 70
				wantIota = false
			}
		case 4: // starting at 1
			v = i + 1
			wantIota = false
		}
		src += fmt.Sprint("\tM", 100+i, " E = ", v, "\n")
	}
	src += ")\n\ntype Holder struct{ V E }\n"
	pkg := vfTypeCheck("example.com/mod/p", []string{"/m/p/e.go"}, []string{src}, nil)
	var ana *Analysis
	panicked, rt, msg := vfCatch(func() { ana = NewAnalysisFromFile(pkg, "/m/p/e.go") })
	vfObserve("outcome", msg)
	vfAssert(!panicked && !rt, "C10/analysis-of-a-real-source-file-completes")
	if panicked {
		return
	}
	enum, isEnum := ana.Types[pkg.Types.Scope().Lookup("E").Type()].(*Enum)
	vfAssert(isEnum && len(enum.Members) == n, "C10/enum-iff-a-typed-constant-not-opted-out-real-source")
	if !isEnum {
		return
	}
	vfAssert(enum.IsIota == wantIota, "C10/iota-flag-real-source")
}
