package analysis

import (
	"fmt"
	"go/ast"
	"go/constant"
	"go/token"
	"go/types"

	"golang.org/x/tools/go/packages"
)

type c10Obj struct {
	name    string
	kind    int // 0 const T1, 1 const T2, 2 const int (basic), 3 var of T1
	comment int // 0 none, 1 label, 2 opt-out marker
	c       *types.Const
}

var c10Comments = []string{"", "// a label", "// gomacro:no-enum"}
var c10CommentTexts = []string{"", "a label", "gomacro:no-enum"}

// HC10_fetchPkgEnums: grouping of the typed constants of a package scope into enums.
// The package carries a real go/ast file (one const declaration, one spec per constant) so that
// the real fetchConstComment/nodeAt code reads the trailing comments.
// c10World builds a package (go/types scope + go/ast const declaration) of k further objects.
func c10World(k int) (*packages.Package, []*c10Obj, *types.Named, *types.Named) {
	fset := token.NewFileSet()
	tf := fset.AddFile("p.go", -1, 10000)
	base := token.Pos(tf.Base())
	pkg := types.NewPackage("example.com/p", "p")
	t1 := types.NewNamed(types.NewTypeName(0, pkg, "T1", nil), types.Typ[types.Int], nil)
	t2 := types.NewNamed(types.NewTypeName(0, pkg, "T2", nil), types.Typ[types.String], nil)
	pkg.Scope().Insert(t1.Obj())
	pkg.Scope().Insert(t2.Obj())

	objs := make([]*c10Obj, k)
	gen := &ast.GenDecl{TokPos: base + 10, Tok: token.CONST, Lparen: base + 16}
	for i := range objs {
		o := &c10Obj{
			name:    "c" + vfString(fmt.Sprint("name", i), 1, 1, "alnum"),
			kind:    vfChoice(fmt.Sprint("kind", i), 4),
			comment: vfChoice(fmt.Sprint("comment", i), 3),
		}
		for j := 0; j < i; j++ {
			vfAssume(o.name != objs[j].name)
		}
		objs[i] = o
		pos := base + token.Pos(100*(i+1))
		var obj types.Object
		switch o.kind {
		case 0:
			o.c = types.NewConst(pos, pkg, o.name, t1, constant.MakeInt64(int64(i)))
			obj = o.c
		case 1:
			o.c = types.NewConst(pos, pkg, o.name, t2, constant.MakeString("v"))
			obj = o.c
		case 2:
			o.c = types.NewConst(pos, pkg, o.name, types.Typ[types.Int], constant.MakeInt64(7))
			obj = o.c
		default:
			obj = types.NewVar(pos, pkg, o.name, t1)
		}
		pkg.Scope().Insert(obj)
		if o.kind != 3 {
			spec := &ast.ValueSpec{
				Names:  []*ast.Ident{{NamePos: pos, Name: o.name}},
				Values: []ast.Expr{&ast.BasicLit{ValuePos: pos + 10, Kind: token.INT, Value: "1"}},
			}
			if o.comment != 0 {
				spec.Comment = &ast.CommentGroup{List: []*ast.Comment{{Slash: pos + 20, Text: c10Comments[o.comment]}}}
			}
			gen.Specs = append(gen.Specs, spec)
		}
	}
	gen.Rparen = base + token.Pos(100*(k+1))
	file := &ast.File{Package: base + 1, Name: &ast.Ident{NamePos: base + 9, Name: "p"}}
	if len(gen.Specs) > 0 {
		file.Decls = []ast.Decl{gen}
	}
	pa := &packages.Package{PkgPath: "example.com/p", Fset: fset, Syntax: []*ast.File{file}, Types: pkg}

	return pa, objs, t1, t2
}

// HC10_fetchPkgEnums: see the comment above c10Obj.
func HC10_fetchPkgEnums() {
	k := 1 + vfChoice("k", vfParam("C10.scope", 3))
	pa, objs, t1, t2 := c10World(k)

	var out enumsMap
	panicked, _, msg := vfCatch(func() { out = fetchPkgEnums(pa) })
	vfAssert(!panicked, "C10/fetch-does-not-panic")
	if panicked {
		vfObserve("panic", msg)
		return
	}

	// reference: members of T = the constants of type T that are not opted out, each once, with
	// their trailing comment (the statement does not fix their order: iota-like enums are
	// reported in value order)
	for ti, named := range []*types.Named{t1, t2} {
		var want []*c10Obj
		for _, o := range objs {
			if o.kind == ti && o.comment != 2 {
				want = append(want, o)
			}
		}
		enum, isEnum := out[named]
		vfAssert(isEnum == (len(want) > 0), "C10/enum-iff-some-typed-constant-not-opted-out")
		if !isEnum {
			continue
		}
		ok := len(enum.Members) == len(want) && enum.name == named
		for _, w := range want {
			count := 0
			for _, m := range enum.Members {
				if m.Const == w.c {
					count++
					ok = ok && m.Comment == c10CommentTexts[w.comment]
				}
			}
			ok = ok && count == 1
		}
		vfAssert(ok, "C10/members-exactly-the-typed-constants-each-once-with-comments")
		vfObserve("members", len(enum.Members))
	}
	vfAssert(len(out) <= 2, "C10/no-other-enum")
}
