package analysis

import (
	"fmt"
	"os"
	"path/filepath"
	"strings"

	"golang.org/x/tools/go/packages"
)

type c17File struct {
	rel     string // path relative to the module root
	pkg     string // import path of the package containing it ("" = none: not a Go source file)
	exists  bool
	content string
}

var c17Catalogue = []c17File{
	{"a/x.go", "example.com/m/a", true, "package a\n\nvar X = 1\n"},
	{"a/y.go", "example.com/m/a", true, "package a\n\nvar Y = 2\n"},
	{"ab/z.go", "example.com/m/ab", true, "package ab\n\nvar Z = 3\n"},
	{"a/notes.txt", "", true, "not Go\n"},
	{"a/missing.go", "", false, ""},
	{"a/sub/w.go", "example.com/m/a/sub", true, "package sub\n\nvar W = 4\n"},
}

// HC17_loadSources: every listed file is mapped, in order, to the package containing it; a
// missing file or a file that is not a Go source of a package is reported as an error (never a
// crash, never another package); the root is a directory containing every file.
//
// In the engine, os.Stat and packages.Load are environment models planned by the harness; natively
// the same layout is written to a temporary module and the real LoadSources runs on it.
func HC17_loadSources() {
	n := 1 + vfChoice("files", vfParam("C17.files", 3))
	picks := make([]c17File, n)
	for i := range picks {
		picks[i] = c17Catalogue[vfChoice(fmt.Sprint("file", i), len(c17Catalogue))]
	}
	base := "/m"
	if !vfEngine() {
		dir, err := os.MkdirTemp("", "vfc17-")
		if err != nil {
			panic(err)
		}
		defer os.RemoveAll(dir)
		base, _ = filepath.EvalSymlinks(dir)
		os.WriteFile(filepath.Join(base, "go.mod"), []byte("module example.com/m\n\ngo 1.21\n"), 0o644)
		for _, f := range c17Catalogue {
			if f.exists {
				os.MkdirAll(filepath.Dir(filepath.Join(base, f.rel)), 0o755)
				os.WriteFile(filepath.Join(base, f.rel), []byte(f.content), 0o644)
			}
		}
	} else {
		// the environment: which files exist, what packages.Load returns (the packages of the
		// directories holding the requested Go files, each with all its Go files)
		byPkg := map[string]*packages.Package{}
		var loaded []*packages.Package
		for _, f := range c17Catalogue {
			vfFileExists(base+"/"+f.rel, f.exists)
		}
		for _, pk := range picks {
			if pk.pkg == "" || byPkg[pk.pkg] != nil {
				continue
			}
			p := &packages.Package{ID: pk.pkg, PkgPath: pk.pkg}
			for _, f := range c17Catalogue {
				if f.pkg == pk.pkg {
					p.GoFiles = append(p.GoFiles, base+"/"+f.rel)
				}
			}
			byPkg[pk.pkg] = p
			loaded = append(loaded, p)
		}
		vfLoadResult(loaded, 0)
	}
	var files []string
	for _, pk := range picks {
		files = append(files, base+"/"+pk.rel)
	}
	var out []*packages.Package
	var root string
	var err error
	panicked, rt, msg := vfCatch(func() { out, root, err = LoadSources(files) })
	vfObserve("outcome", msg)
	vfAssert(!panicked && !rt, "C17/loading-never-crashes")
	if panicked {
		return
	}
	bad := false
	for _, pk := range picks {
		bad = bad || pk.pkg == "" || !pk.exists
	}
	vfObserve("error", err != nil)
	vfAssert((err != nil) == bad, "C17/missing-or-non-go-files-are-reported-as-errors-and-only-them")
	if err != nil {
		return
	}
	ok := len(out) == n
	if ok {
		for i, pk := range picks {
			ok = ok && out[i] != nil && out[i].PkgPath == pk.pkg
		}
	}
	vfAssert(ok, "C17/each-file-is-mapped-in-order-to-the-package-containing-it")
	rel := strings.TrimPrefix(root, base)
	vfObserve("root", rel)
	okRoot := strings.HasPrefix(root, base)
	for _, f := range files {
		d := filepath.Dir(f)
		okRoot = okRoot && strings.HasPrefix(d, root) && (len(d) == len(root) || d[len(root)] == '/' || strings.HasSuffix(root, "/"))
	}
	vfAssert(okRoot, "C17/root-is-a-directory-containing-every-file")
}
