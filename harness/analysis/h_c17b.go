package analysis

import (
	"fmt"
	"os"
	"path/filepath"
	"strings"

	"golang.org/x/tools/go/packages"
)

type c17File struct {
	rel     string // path relative to the module root
	pkg     string // import path of the package containing it ("" = none: not a Go source file)
	exists  bool
	content string
}

var c17Catalogue = []c17File{
	{"a/x.go", "example.com/m/a", true, "package a\n\nvar X = 1\n"},
	{"a/y.go", "example.com/m/a", true, "package a\n\nvar Y = 2\n"},
	{"ab/z.go", "example.com/m/ab", true, "package ab\n\nvar Z = 3\n"},
	{"a/notes.txt", "", true, "not Go\n"},
	{"a/missing.go", "", false, ""},
	{"a/sub/w.go", "example.com/m/a/sub", true, "package sub\n\nvar W = 4\n"},
	// a sound package importing a package of the module with a type error inside a function body
	{"c/u.go", "example.com/m/c", true, "package c\n\nimport \"example.com/m/bad\"\n\nvar U = bad.V\n"},
	// a generated file: a //line directive above its package clause (template and grammar compilers
	// write such files); positions inside it are reported in another file name
	{"v/page.go", "example.com/m/v", true, "//line page.qtpl:1\npackage v\n\nvar P = 6\n"},
	// the same directive below the package clause
	{"v2/page.go", "example.com/m/v2", true, "package v2\n\n//line page.qtpl:1\nvar P = 7\n"},
}

const c17BadPkg = "package bad\n\nvar V = 5\n\nfunc f() {\n\tvar x int = \"s\"\n\t_ = x\n}\n"

// c17Spell: a spelling of the path of a file: clean absolute, absolute with redundant elements, relative
// to the working directory (the module root).
func c17Spell(base, rel string, form int) string {
	switch form {
	case 1:
		return base + "/./" + rel
	case 2:
		return base + "/a/../" + rel
	case 3:
		return rel
	case 4:
		return "./" + rel
	}
	return base + "/" + rel
}

// HC17_loadSources: every listed file is mapped, in order, to the package containing it; a
// missing file or a file that is not a Go source of a package is reported as an error (never a
// crash, never another package); the root is a directory containing every file.
//
// In the engine, os.Stat and packages.Load are environment models planned by the harness; natively
// the same layout is written to a temporary module and the real LoadSources runs on it.
func HC17_loadSources() {
	n := 1 + vfChoice("files", vfParam("C17.files", 3))
	picks := make([]c17File, n)
	for i := range picks {
		picks[i] = c17Catalogue[vfChoice(fmt.Sprint("file", i), len(c17Catalogue))]
	}
	forms := make([]int, n)
	for i := range forms {
		forms[i] = vfChoice(fmt.Sprint("form", i), vfParam("C17.forms", 5))
	}
	base := "/work"
	if !vfEngine() {
		dir, err := os.MkdirTemp("", "vfc17-")
		if err != nil {
			panic(err)
		}
		defer os.RemoveAll(dir)
		base, _ = filepath.EvalSymlinks(dir)
		if wd, err := os.Getwd(); err == nil {
			defer os.Chdir(wd)
		}
		os.Chdir(base)
		os.WriteFile(filepath.Join(base, "go.mod"), []byte("module example.com/m\n\ngo 1.21\n"), 0o644)
		os.MkdirAll(filepath.Join(base, "bad"), 0o755)
		os.WriteFile(filepath.Join(base, "bad", "bad.go"), []byte(c17BadPkg), 0o644)
		for _, f := range c17Catalogue {
			if f.exists {
				os.MkdirAll(filepath.Dir(filepath.Join(base, f.rel)), 0o755)
				os.WriteFile(filepath.Join(base, f.rel), []byte(f.content), 0o644)
			}
		}
	} else {
		// the environment: which files exist, what packages.Load returns (the packages of the
		// directories holding the requested Go files, each with all its Go files)
		byPkg := map[string]*packages.Package{}
		var loaded []*packages.Package
		nbErrors := 0
		for _, f := range c17Catalogue {
			vfFileExists(base+"/"+f.rel, f.exists)
		}
		for _, pk := range picks {
			if pk.pkg == "" || byPkg[pk.pkg] != nil {
				continue
			}
			p := &packages.Package{ID: pk.pkg, PkgPath: pk.pkg}
			if pk.pkg != "example.com/m/c" {
				// parsed and type-checked by the real go/parser and go/types (Syntax, Fset, Types, GoFiles)
				var names, srcs []string
				for _, f := range c17Catalogue {
					if f.pkg == pk.pkg {
						names = append(names, base+"/"+f.rel)
						srcs = append(srcs, f.content)
					}
				}
				p = vfTypeCheck(pk.pkg, names, srcs, nil)
			} else {
				for _, f := range c17Catalogue {
					if f.pkg == pk.pkg {
						p.GoFiles = append(p.GoFiles, base+"/"+f.rel)
					}
				}
			}
			if pk.pkg == "example.com/m/c" { // its import has a type error: PrintErrors walks the import graph
				p.Imports = map[string]*packages.Package{"example.com/m/bad": {ID: "example.com/m/bad", PkgPath: "example.com/m/bad", Errors: []packages.Error{{Msg: "cannot use \"s\" as int value"}}}}
				nbErrors++
			}
			byPkg[pk.pkg] = p
			loaded = append(loaded, p)
		}
		vfLoadResult(loaded, nbErrors)
	}
	var files []string
	for i, pk := range picks {
		files = append(files, c17Spell(base, pk.rel, forms[i]))
	}
	var out []*packages.Package
	var root string
	var err error
	panicked, rt, msg := vfCatch(func() { out, root, err = LoadSources(files) })
	vfObserve("outcome", msg)
	vfAssert(!panicked && !rt, "C17/loading-never-crashes")
	if panicked {
		return
	}
	bad := false
	for _, pk := range picks {
		bad = bad || pk.pkg == "" || !pk.exists || pk.pkg == "example.com/m/c"
	}
	vfObserve("error", err != nil)
	vfAssert((err != nil) == bad, "C17/missing-files-non-go-files-and-ill-typed-packages-are-reported-as-errors-and-only-them")
	if err != nil {
		return
	}
	ok := len(out) == n
	if ok {
		for i, pk := range picks {
			ok = ok && out[i] != nil && out[i].PkgPath == pk.pkg
		}
	}
	vfAssert(ok, "C17/each-file-is-mapped-in-order-to-the-package-containing-it")
	rel := strings.TrimPrefix(root, base)
	vfObserve("root", rel)
	okRoot := strings.HasPrefix(root, base)
	for _, pk := range picks {
		d := filepath.Dir(base + "/" + pk.rel)
		okRoot = okRoot && strings.HasPrefix(d, root) && (len(d) == len(root) || d[len(root)] == '/' || strings.HasSuffix(root, "/"))
	}
	vfAssert(okRoot, "C17/root-is-a-directory-containing-every-file")
}
