package analysis

import (
	"go/types"
	"strings"

	"golang.org/x/tools/go/packages"
)

// c11InTree is the reference definition of "the analysed package tree" (the one HC18_pkgSelector
// and the documentation of fetchEnumsAndUnions state): a package belongs to the tree of the
// analysed package when its import path is, or lies below, the tree root — the first two path
// elements of the analysed package's import path (the whole path when it has only one element).
// It is stated on path ELEMENTS, never on bytes. (Siblings sharing a partial element name, such as
// example.com/shapes and example.com/shapes2, are outside the input class of the harness below.)
func c11InTree(root, path string) bool {
	r, p := strings.Split(root, "/"), strings.Split(path, "/")
	n := len(r)
	if n > 2 {
		n = 2
	}
	if len(p) < n {
		return false
	}
	for i := 0; i < n; i++ {
		if r[i] != p[i] {
			return false
		}
	}
	return true
}

func c11Join(mod, dir string) string {
	if dir == "" {
		return mod
	}
	return mod + "/" + dir
}

// HC11_unionAcrossTree: union detection, membership and back links when the union and its members
// are declared ANYWHERE in the analysed package tree: module paths of 1..4 elements; the analysed
// file in the module root package, in a sub-package or two levels down; the union in the module
// root package, in the analysed package itself, in a sibling, a parent or a child package; imported
// directly or only through an intermediate package; reached as a field, a slice element or a map
// value; one or two members. Whenever the union's package belongs to the tree (c11InTree), the
// interface is a union with exactly its value-receiver implementers in name order and the member
// structs link back to it; a package outside the tree (another domain, or outside the two-element
// root) contributes no union.
func HC11_unionAcrossTree() {
	mods := []string{"shapes", "example.com/shapes", "example.com/org/shapes", "example.com/org/grp/shapes"}
	mod := mods[vfChoice("module", len(mods))]
	anaDirs := []string{"", "api", "api/v1"}
	anaPath := c11Join(mod, anaDirs[vfChoice("analysedDir", len(anaDirs))])
	unionDirs := []string{"", "api", "model", "api/v1/model"}
	unionPath := c11Join(mod, unionDirs[vfChoice("unionDir", len(unionDirs))])
	same := unionPath == anaPath
	inTree := c11InTree(anaPath, unionPath)
	via := 0
	if !same && inTree {
		via = vfChoice("via", 2) // 1: the union's package is imported only by an intermediate package
	}
	two := vfChoice("twoMembers", 2) == 1
	reach := vfChoice("reach", 3)

	decls := "type Shape interface{ isShape() }\n\n" +
		"type Square struct{ Side int }\n\n" +
		"type Circle struct{ R int }\n\nfunc (Circle) isShape() {}\n\n" +
		"type Ptr struct{ X int }\n\nfunc (*Ptr) isShape() {}\n\n" +
		"type Other struct{ V int }\n\n"
	want := []string{"Circle"}
	if two {
		decls += "func (Square) isShape() {}\n\n"
		want = []string{"Circle", "Square"}
	}

	// a package of another domain, never part of the tree
	foreign := vfTypeCheck("other.org/lib/model", []string{"/o/model/model.go"}, []string{
		"package model\n\ntype Mark interface{ isMark() }\n\ntype Dot struct{ X int }\n\nfunc (Dot) isMark() {}\n"}, nil)

	var unionPkg *packages.Package
	q := ""
	if !same {
		unionPkg = vfTypeCheck(unionPath, []string{"/m/union/model.go"}, []string{"package model\n\n" + decls}, []*packages.Package{foreign})
		q = "model."
	}
	field := []string{"S " + q + "Shape", "S []" + q + "Shape", "S map[string]" + q + "Shape"}[reach]

	src := "package api\n\nimport lib \"other.org/lib/model\"\n\n"
	use := "var _ lib.Mark\n\n"
	imports := []*packages.Package{foreign}
	switch {
	case same:
		src += use + decls + "type Holder struct {\n\t" + field + "\n\tO Other\n}\n"
	case !inTree:
		// a union of a package outside the tree is not analysed: it is only mentioned
		src += "import model \"" + unionPath + "\"\n\n" + use + "var _ model.Shape\n\ntype Holder struct{ N int }\n"
		imports = append(imports, unionPkg)
	case via == 1:
		midPath := anaPath + "/mid"
		mid := vfTypeCheck(midPath, []string{"/m/mid/mid.go"}, []string{
			"package mid\n\nimport model \"" + unionPath + "\"\n\ntype Wrapper struct {\n\t" + field + "\n\tO model.Other\n}\n"}, []*packages.Package{foreign, unionPkg})
		src += "import \"" + midPath + "\"\n\n" + use + "type Holder struct{ W mid.Wrapper }\n"
		imports = append(imports, mid)
	default:
		src += "import model \"" + unionPath + "\"\n\n" + use + "type Holder struct {\n\t" + field + "\n\tO model.Other\n}\n"
		imports = append(imports, unionPkg)
	}
	pkg := vfTypeCheck(anaPath, []string{"/m/ana/api.go"}, []string{src}, imports)
	if same {
		unionPkg = pkg
	}
	shapeTy := unionPkg.Types.Scope().Lookup("Shape").Type()

	// the walk: unions of the tree, and of the tree only
	_, unions := fetchEnumsAndUnions(pkg)
	members, found := unions[shapeTy.(*types.Named)]
	vfObserve("found", found)
	vfAssert(found == inTree, "C11/interface-of-a-package-is-a-union-iff-the-package-belongs-to-the-analysed-tree")
	if found {
		ok := len(members) == len(want)
		if ok {
			for i, n := range want {
				ok = ok && members[i].Obj().Name() == n && members[i].Obj().Pkg() == unionPkg.Types
			}
		}
		vfAssert(ok, "C11/members-of-a-union-of-the-tree-are-exactly-the-value-implementers-in-name-order")
	}
	_, foreignFound := unions[foreign.Types.Scope().Lookup("Mark").Type().(*types.Named)]
	vfAssert(!foreignFound, "C11/interface-of-a-foreign-package-is-not-a-union")
	if !inTree {
		return
	}

	// the analysis: the union node, its members and the back links
	var ana *Analysis
	panicked, rt, msg := vfCatch(func() { ana = NewAnalysisFromFile(pkg, "/m/ana/api.go") })
	vfObserve("outcome", msg)
	vfAssert(!panicked && !rt, "C11/analysis-of-a-file-using-a-union-of-its-tree-completes")
	if panicked || rt {
		return
	}
	lookup := func(name string) types.Type { return unionPkg.Types.Scope().Lookup(name).Type() }
	shape, isUnion := ana.Types[shapeTy].(*Union)
	vfAssert(isUnion, "C11/interface-with-implementers-is-a-union-wherever-it-is-declared-in-the-tree")
	if !isUnion {
		return
	}
	ok := len(shape.Members) == len(want)
	if ok {
		for i, n := range want {
			ok = ok && LocalName(shape.Members[i]) == n
		}
	}
	vfObserve("members", len(shape.Members))
	vfAssert(ok, "C11/union-node-members-are-exactly-the-value-implementers-in-name-order")
	for _, n := range want {
		st, isStruct := ana.Types[lookup(n)].(*Struct)
		vfAssert(isStruct, "C11/member-structs-are-analysed")
		if isStruct {
			vfAssert(len(st.Implements) == 1 && st.Implements[0] == shape, "C11/member-struct-reports-exactly-the-union-listing-it")
		}
	}
	other, isStruct := ana.Types[lookup("Other")].(*Struct)
	vfAssert(isStruct && len(other.Implements) == 0, "C11/struct-listed-by-no-union-reports-none")
	hs, isStruct := ana.Types[pkg.Types.Scope().Lookup("Holder").Type()].(*Struct)
	vfAssert(isStruct && len(hs.Implements) == 0, "C11/struct-listed-by-no-union-reports-none")
}
