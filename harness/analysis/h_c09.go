package analysis

import (
	"encoding/json"
	"fmt"
	"go/types"
	"reflect"
	"sort"
)

// c09ValidTagByte: encoding/json isValidTag for one ASCII byte
// (go1.23 encoding/json/encode.go: punctuation "!#$%&()*+-./:;<=>?@[]^_{|}~ " or letter or digit).
func c09ValidTagByte(c byte) bool {
	letter := vfOr(vfAnd(c >= 'a', c <= 'z'), vfAnd(c >= 'A', c <= 'Z'))
	digit := vfAnd(c >= '0', c <= '9')
	punct := false
	for _, p := range []byte("!#$%&()*+-./:;<=>?@[]^_{|}~ ") {
		punct = vfOr(punct, c == p)
	}
	return vfOr(vfOr(letter, digit), punct)
}

// c09Rule transcribes encoding/json's typeFields for one non-embedded field:
// included?, and under which key.
func c09Rule(goName string, hasTag bool, tag string) (included bool, key string, validName bool) {
	exported := goName[0] >= 'A' && goName[0] <= 'Z'
	if !exported {
		return false, "", true
	}
	if !hasTag {
		return true, goName, true
	}
	if tag == "-" {
		return false, "", true
	}
	// name = tag up to the first comma
	end := len(tag)
	for i := 0; i < len(tag); i++ {
		if tag[i] == ',' {
			end = i
			break
		}
	}
	name := tag[:end]
	valid := len(name) > 0
	for i := 0; i < len(name); i++ {
		valid = vfAnd(valid, c09ValidTagByte(name[i]))
	}
	if valid {
		return true, name, true
	}
	return true, goName, len(name) == 0
}

func c09Tag(hasTag bool, tagv string, gm int) string {
	tag := ""
	if hasTag {
		tag = `json:"` + tagv + `"`
	}
	switch gm {
	case 1:
		tag += ` gomacro:"ignore"`
	case 2:
		tag += ` gomacro:"other"`
	}
	return tag
}

// c09RealKeys asks the real encoding/json (native runs only) which keys a struct with one
// field of that name and tag is marshalled with.
func c09RealKeys(goName string, tag string) []string {
	t := reflect.StructOf([]reflect.StructField{{Name: goName, Type: reflect.TypeOf(0), Tag: reflect.StructTag(tag)}})
	b, err := json.Marshal(reflect.New(t).Elem().Interface())
	if err != nil {
		return []string{"<error>"}
	}
	var m map[string]any
	json.Unmarshal(b, &m)
	var keys []string
	for k := range m {
		keys = append(keys, k)
	}
	sort.Strings(keys)
	return keys
}

// HC09_naming: StructField.Exported / JSONName coincide with encoding/json's field rule.
func HC09_naming() {
	goName := vfString("field", 1, vfParam("C09.name", 2), "ident")
	hasTag := vfChoice("hasJSONTag", 2) == 1
	tagv := ""
	if hasTag {
		tagv = vfString("json", 0, vfParam("C09.tag", 3), "tag")
	}
	gm := vfChoice("gomacroTag", 3)
	tag := c09Tag(hasTag, tagv, gm)

	pkg := types.NewPackage("example.com/p", "p")
	f := StructField{Type: Int, Field: types.NewField(0, pkg, goName, types.Typ[types.Int], false), Tag: reflect.StructTag(tag)}

	incl, key, validName := c09Rule(goName, hasTag, tagv)

	if !vfEngine() && goName[0] >= 'A' && goName[0] <= 'Z' {
		// native runs: the transcription above is compared with the real encoding/json
		real := c09RealKeys(goName, tag)
		vfAssert(len(real) <= 1 && (len(real) == 1) == incl && (!incl || real[0] == key), "ORACLE/c09Rule-equals-encoding-json")
	}

	vfAssert(f.Exported() == (incl && gm != 1), "C09/field-selected-iff-encoding-json-serialises-it-and-not-ignored")
	if incl && gm != 1 {
		vfKnown("C09/json-tag-name-with-characters-encoding-json-rejects", !validName)
		vfAssert(f.JSONName() == key, "C09/key-is-the-one-encoding-json-uses")
		vfObserve("key", f.JSONName())
	}
}

// HC09_sameTagTwice: the key of a field depends on the field alone: fields carrying byte-identical
// tags without a json name (options only, an empty name, tags of other keys), or the same explicit
// name, each get their own Go name / that name, in whatever order they are asked.
func HC09_sameTagTwice() {
	tags := []string{`json:",omitempty"`, `json:""`, `gomacro-opaque:"typescript"`, `json:",string" xml:"x"`, `json:"same"`, ``}
	tag := tags[vfChoice("tag", len(tags))]
	pkg := types.NewPackage("example.com/p", "p")
	n := 2 + vfChoice("fields", 2)
	var fields []StructField
	var names []string
	for i := 0; i < n; i++ {
		name := "F" + vfString(fmt.Sprint("name", i), 1, 1, "alnum")
		for _, o := range names {
			vfAssume(o != name)
		}
		names = append(names, name)
		fields = append(fields, StructField{Type: Int, Field: types.NewField(0, pkg, name, types.Typ[types.Int], false), Tag: reflect.StructTag(tag)})
	}
	backwards := vfChoice("backwards", 2) == 1
	ok := true
	for k := range fields {
		i := k
		if backwards {
			i = n - 1 - k
		}
		want := names[i]
		if tag == `json:"same"` {
			want = "same"
		}
		ok = vfAnd(ok, fields[i].JSONName() == want)
	}
	vfAssert(ok, "C09/key-is-the-one-encoding-json-uses")
}
