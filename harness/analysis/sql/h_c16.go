package sql

import (
	"fmt"
	"go/types"
	"strings"

	an "github.com/benoitkugler/gomacro/analysis"
)

// HC16_customQuery: $name$ placeholders become $1,$2,... numbered by first occurrence, equal
// names sharing a number; one input per distinct name, typed like the compared field.
func HC16_customQuery() {
	byName := map[string]types.Type{"A": types.Typ[types.Int], "Bb": types.Typ[types.String], "C": types.Typ[types.Bool]}
	fields := []string{"A", "Bb", "C"}
	n := 1 + vfChoice("n", vfParam("C16.placeholders", 2))
	names := make([]string, n)
	comment := "UpdateIt UPDATE t SET"
	seps := []string{" = ", "=", " =  "}
	for i := 0; i < n; i++ {
		names[i] = vfString(fmt.Sprint("var", i), 1, vfParam("C16.varlen", 1), "word")
		comment += " " + fields[i] + seps[i%3] + "$" + names[i] + "$ ,"
	}
	// the first placeholder is used again where it is not the right-hand side of an equality
	reuse := []string{"", " AND D <> $" + "@" + "$", " AND $" + "@" + "$ >= E", " AND F IN ($" + "@" + "$, 3)"}[vfChoice("reuse", 4)]
	comment += " WHERE id = 1" + strings.ReplaceAll(reuse, "@", names[0])
	var q CustomQuery
	panicked, rt, msg := vfCatch(func() { q = newCustomQuery(byName, comment) })
	vfObserve("outcome", msg)
	vfAssert(!panicked && !rt, "C16/custom-query-is-accepted")
	if panicked {
		return
	}
	vfObserve("query", q.Query)
	vfAssert(q.GoFunctionName == "UpdateIt", "C16/function-name-is-the-first-word")

	// reference: distinct names in first-occurrence order
	var distinct []string
	var typ []types.Type
	index := make([]int, n) // 1-based number of the i-th placeholder
	for i := 0; i < n; i++ {
		found := 0
		for k, d := range distinct {
			if found == 0 && vfFork(d == names[i]) {
				found = k + 1
			}
		}
		if found == 0 {
			distinct = append(distinct, names[i])
			typ = append(typ, byName[fields[i]])
			found = len(distinct)
		}
		index[i] = found
	}
	ok := len(q.Inputs) == len(distinct)
	if ok {
		for k := range distinct {
			ok = vfAnd(ok, q.Inputs[k].VarName == distinct[k])
			ok = ok && q.Inputs[k].Type == typ[k]
		}
	}
	vfAssert(ok, "C16/one-input-per-distinct-name-in-first-occurrence-order-typed-like-the-field")

	want := "UPDATE t SET"
	for i := 0; i < n; i++ {
		want += " " + fields[i] + seps[i%3] + "$" + fmt.Sprint(index[i]) + " ,"
	}
	want += " WHERE id = 1" + strings.ReplaceAll(strings.ReplaceAll(reuse, "$@$", "$1"), "@", "")
	vfAssert(q.Query == want, "C16/placeholders-numbered-by-first-occurrence")
}

// HC16_processComments: internal directives (select keys) never reach the SQL output; UNIQUE and
// select-key column lists are the trimmed, comma separated names.
func HC16_processComments() {
	pkg := types.NewPackage("example.com/mod/pkg", "pkg")
	named := types.NewNamed(types.NewTypeName(0, pkg, "Item", nil), types.NewStruct(nil, nil), nil)
	mk := func(name string, t an.Type) an.StructField {
		return an.StructField{Type: t, Field: types.NewField(0, pkg, name, t.Type(), false)}
	}
	st := &an.Struct{Name: named, Fields: []an.StructField{mk("Id", &an.Basic{B: types.Typ[types.Int64]}), mk("Name", an.String), mk("Age", an.Int)}}
	c1 := vfString("col1", 1, vfParam("C16.col", 2), "alnum")
	spaces := []string{"", " ", "  "}
	sp := spaces[vfChoice("space", 3)]
	list := sp + c1 + sp
	two := vfChoice("two", 2) == 1
	c2 := ""
	if two {
		c2 = vfString("col2", 1, vfParam("C16.col", 2), "alnum")
		list += "," + sp + c2
	}
	kind := vfChoice("kind", 4)
	content := []string{"_SELECT KEY (" + list + ")", "_select key(" + list + ")", "ADD UNIQUE(" + list + ")", "ADD CHECK (Age > 0)"}[kind]
	st.Comments = []an.SpecialComment{{Kind: an.CommentSQL, Content: content}}
	ta := NewTable(st)
	vfObserve("constraints", len(ta.CustomConstraints))
	wantCols := []string{c1}
	if two {
		wantCols = append(wantCols, c2)
	}
	sameCols := func(got [][]string) bool {
		if len(got) != 1 || len(got[0]) != len(wantCols) {
			return false
		}
		ok := true
		for i := range wantCols {
			ok = vfAnd(ok, got[0][i] == wantCols[i])
		}
		return ok
	}
	switch kind {
	case 0, 1:
		vfAssert(len(ta.CustomConstraints) == 0, "C16/select-key-directive-never-reaches-the-sql-output")
		vfAssert(sameCols(ta.selectKeys), "C16/select-key-columns-are-the-trimmed-list")
	case 2:
		vfAssert(len(ta.CustomConstraints) == 1 && ta.CustomConstraints[0] == content, "C16/sql-constraint-is-kept-verbatim")
		vfAssert(sameCols(ta.uniquesCols), "C16/unique-columns-are-the-trimmed-list")
	default:
		vfAssert(len(ta.CustomConstraints) == 1 && ta.CustomConstraints[0] == content && len(ta.selectKeys) == 0 && len(ta.uniquesCols) == 0, "C16/other-constraint-is-kept-verbatim")
	}
	_ = strings.TrimSpace
}
