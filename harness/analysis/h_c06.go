package analysis

import (
	"go/types"
	"strings"
)

// HC06_fileAssignment: every named type is assigned the file of its package: a package inside the
// parent directory of the root (component-wise) gets the file named by its path relative to that
// directory, any other package a stdlib_ file named by its full path. The package path has a
// symbolic part: siblings whose name merely starts like the parent directory are outside.
func HC06_fileAssignment() {
	// root .../go/src/example.com/acme/shop/models: the parent directory is example.com/acme/shop
	const parent = "example.com/acme/shop"
	var pkgPath string
	switch vfChoice("shape", 4) {
	case 0: // a child of the parent directory
		pkgPath = parent + "/" + vfString("seg", 1, 3, "set:abcdefghijklmnopqrstuvwxyz-_")
	case 1: // a sibling of the parent directory, sharing any prefix of its name
		pkgPath = "example.com/acme/" + vfString("sib", 1, 6, "set:abcdefghijklmnopqrstuvwxyz-_")
	case 2: // a package below such a sibling
		pkgPath = "example.com/acme/" + vfString("sib", 4, 6, "set:abcdefghijklmnopqrstuvwxyz-_") + "/money"
	default: // deeper inside
		pkgPath = parent + "/models/" + vfString("seg", 1, 2, "set:abcdefghijklmnopqrstuvwxyz-_")
	}
	pkg := types.NewPackage(pkgPath, "p")
	named := types.NewNamed(types.NewTypeName(0, pkg, "T", nil), types.NewStruct(nil, nil), nil)
	src := []*Analysis{{Types: map[types.Type]Type{named: &Struct{Name: named}}}}
	lk := NewLinker("/home/u/go/src/"+parent+"/models", src)
	lk.Extension = ".dart"
	got := lk.GetOutput(named)
	inside := strings.HasPrefix(pkgPath, parent+"/")
	var want string
	if vfFork(inside) {
		want = strings.ReplaceAll(pkgPath[len(parent)+1:], "/", "_") + ".dart"
	} else {
		want = "stdlib_" + strings.ReplaceAll(pkgPath, "/", "_") + ".dart"
	}
	vfObserve("file", got)
	vfAssert(got == want, "C06/named-type-is-emitted-in-the-file-assigned-to-its-package")
	// a second type, of another package that has the same package name
	pkg2 := types.NewPackage(parent+"/other/p", "p")
	named2 := types.NewNamed(types.NewTypeName(0, pkg2, "T", nil), types.NewStruct(nil, nil), nil)
	both := []*Analysis{{Types: map[types.Type]Type{named: &Struct{Name: named}, named2: &Struct{Name: named2}}}}
	lk2 := NewLinker("/home/u/go/src/"+parent+"/models", both)
	lk2.Extension = ".dart"
	vfAssert(lk2.GetOutput(named) == want && lk2.GetOutput(named2) == "other_p.dart", "C06/named-type-is-emitted-in-the-file-assigned-to-its-package")
}
