package analysis

import "fmt"

// cleanAbsDir: what filepath.Dir(filepath.Abs(f)) guarantees about its result (Unix):
// rooted, no empty, "." or ".." element, no trailing separator unless it is the root, no NUL.
func cleanAbsDir(d string) bool {
	if len(d) == 0 || d[0] != '/' {
		return false
	}
	ok := true
	n := len(d)
	for i := 0; i < n; i++ {
		ok = vfAnd(ok, d[i] != 0)
		if i+1 < n {
			ok = vfAnd(ok, vfNot(vfAnd(d[i] == '/', d[i+1] == '/')))
		}
		// "." element: "/." followed by '/' or end
		if i+1 < n {
			endsAfterDot := i+2 == n
			dotElem := vfAnd(d[i] == '/', d[i+1] == '.')
			if endsAfterDot {
				ok = vfAnd(ok, vfNot(dotElem))
			} else {
				ok = vfAnd(ok, vfNot(vfAnd(dotElem, d[i+2] == '/')))
			}
		}
		// ".." element
		if i+2 < n {
			endsAfter := i+3 == n
			dd := vfAnd(d[i] == '/', vfAnd(d[i+1] == '.', d[i+2] == '.'))
			if endsAfter {
				ok = vfAnd(ok, vfNot(dd))
			} else {
				ok = vfAnd(ok, vfNot(vfAnd(dd, d[i+3] == '/')))
			}
		}
	}
	if n > 1 {
		ok = vfAnd(ok, d[n-1] != '/')
	}
	return ok
}

// ancestorOnBoundary: root is a prefix of d that ends on a path-component boundary.
func ancestorOnBoundary(root, d string) bool {
	if len(root) > len(d) {
		return false
	}
	pre := true
	for i := 0; i < len(root); i++ {
		pre = vfAnd(pre, d[i] == root[i])
	}
	boundary := false
	if len(root) > 0 && len(root) <= len(d) {
		boundary = root[len(root)-1] == '/'
	}
	if len(d) == len(root) {
		boundary = true
	} else if len(root) < len(d) {
		boundary = vfOr(boundary, d[len(root)] == '/')
	}
	return vfAnd(pre, boundary)
}

// HC17_commonPrefix: the root computed by LoadSources is a component-wise ancestor of every
// source directory, whatever the directories are called.
func HC17_commonPrefix() {
	maxLen := vfParam("C17.len", 5)
	k := 1 + vfChoice("k", vfParam("C17.k", 3))
	dirs := make([]string, k)
	for i := range dirs {
		dirs[i] = vfString(fmt.Sprint("d", i), 1, maxLen, "byte")
		vfAssume(cleanAbsDir(dirs[i]))
	}
	var root string
	panicked, runtimeErr, _ := vfCatch(func() { root = commonPrefix(dirs) })
	vfAssert(!panicked && !runtimeErr, "C17/no-crash")
	if panicked {
		return
	}
	vfObserve("root", root)
	vfAssert(root != "", "C17/root-nonempty")
	for _, d := range dirs {
		vfAssert(ancestorOnBoundary(root, d), "C17/root-is-ancestor-on-component-boundary")
	}
}

// HC17_noFiles: LoadSources on an empty file list must not crash.
func HC17_noFiles() {
	panicked, runtimeErr, _ := vfCatch(func() { LoadSources(nil) })
	vfAssert(!(panicked && runtimeErr), "C17/no-crash-on-empty-list")
}
