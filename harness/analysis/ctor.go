package analysis

import "go/types"

// Constructors for harnesses living in other packages (the name fields are unexported).
// Plain struct literals, no logic.

func VfNewEnum(name *types.Named, members []EnumMember, isIota bool) *Enum {
	return &Enum{name: name, Members: members, IsIota: isIota}
}

func VfNewUnion(name *types.Named, members []Type) *Union {
	return &Union{name: name, Members: members}
}

func VfNewNamed(name *types.Named, underlying AnonymousType) *Named {
	return &Named{name: name, Underlying: underlying}
}

func VfTime(isDate bool) *Time {
	if isDate {
		return dateT
	}
	return timeT
}

// VfSetIsIota runs the real iota detection on an enum built by a harness.
func VfSetIsIota(e *Enum) { e.setIsIota() }
