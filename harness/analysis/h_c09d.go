package analysis

import (
	"fmt"
	"go/types"
	"reflect"

	"golang.org/x/tools/go/packages"
)

// HC09_embedded: an embedded struct is flattened: its fields take the place of the embedding
// field, whatever the embedded type is called (exported or not) and wherever it stands; the
// fields keep their own tags. Non-struct embeddings are kept as ordinary fields.
func HC09_embedded() {
	pkg := types.NewPackage("example.com/mod/p", "p")
	lib := types.NewPackage("other.org/lib", "lib") // outside the root prefix: no comment lookup
	root := &packages.Package{PkgPath: "example.com/mod/p", Types: pkg}

	// the embedded struct: 1..2 fields, symbolic names (exported or not), optional tag
	ne := 1 + vfChoice("embFields", 2)
	var embVars []*types.Var
	var embTags []string
	for i := 0; i < ne; i++ {
		name := "e" + vfString(fmt.Sprint("ename", i), 1, 1, "alnum")
		if vfChoice(fmt.Sprint("eexported", i), 2) == 1 {
			name = "E" + name[1:]
		}
		for _, o := range embVars {
			vfAssume(o.Name() != name)
		}
		embVars = append(embVars, types.NewField(0, lib, name, types.Typ[types.Int], false))
		tag := ""
		if vfChoice(fmt.Sprint("etag", i), 2) == 1 {
			tag = `json:"k` + fmt.Sprint(i) + `"`
		}
		embTags = append(embTags, tag)
	}
	embName := "Base"
	if vfChoice("embTypeExported", 2) == 0 {
		embName = "base" // unexported type name: encoding/json still promotes its exported fields
	}
	embNamed := types.NewNamed(types.NewTypeName(0, lib, embName, nil), types.NewStruct(embVars, embTags), nil)

	// the outer struct: [before] + embedded + [after]
	var outerVars []*types.Var
	var outerTags []string
	add := func(v *types.Var, tag string) {
		outerVars = append(outerVars, v)
		outerTags = append(outerTags, tag)
	}
	before := vfChoice("before", 2) == 1
	after := vfChoice("after", 2) == 1
	if before {
		// the outer field may carry the Go name of the first embedded field (allowed by Go: it shadows the
		// promoted selector); its JSON key differs, so encoding/json writes both
		name := "A"
		if vfChoice("sameGoName", 2) == 1 {
			name = embVars[0].Name()
		}
		add(types.NewField(0, pkg, name, types.Typ[types.String], false), `json:"a"`)
	}
	kind := vfChoice("embedding", 3)
	var embField *types.Var
	switch kind {
	case 0: // embedded struct
		embField = types.NewField(0, pkg, embName, embNamed, true)
	case 1: // embedded non-struct (named int): kept as a field
		ni := types.NewNamed(types.NewTypeName(0, lib, "Count", nil), types.Typ[types.Int], nil)
		embField = types.NewField(0, pkg, "Count", ni, true)
	default: // not embedded at all: a plain field of the struct type
		embField = types.NewField(0, pkg, "Plain", embNamed, false)
	}
	add(embField, "")
	if after {
		add(types.NewField(0, pkg, "Z", types.Typ[types.Bool], false), "")
	}
	outer := types.NewStruct(outerVars, outerTags)

	ana := &Analysis{Types: map[types.Type]Type{}, Pkg: root}
	ctx := context{rootPackage: root, enums: enumsMap{}, unions: unionsMap{}}
	var out []StructField
	panicked, rt, msg := vfCatch(func() { out = ana.handleStructFields(outer, ctx) })
	vfObserve("outcome", msg)
	vfAssert(!panicked && !rt, "C09/embedded-analysis-completes")
	if panicked {
		return
	}

	// reference
	type want struct {
		v   *types.Var
		tag string
	}
	var ws []want
	if before {
		ws = append(ws, want{outerVars[0], `json:"a"`})
	}
	if kind == 0 {
		for i, v := range embVars {
			ws = append(ws, want{v, embTags[i]})
		}
	} else {
		ws = append(ws, want{embField, ""})
	}
	if after {
		ws = append(ws, want{outerVars[len(outerVars)-1], ""})
	}
	ok := len(out) == len(ws)
	if ok {
		for i, w := range ws {
			ok = ok && out[i].Field == w.v && out[i].Tag == reflect.StructTag(w.tag)
		}
	}
	vfObserve("fields", len(out))
	vfAssert(ok, "C09/embedded-struct-fields-are-flattened-in-place-with-their-tags")
}
