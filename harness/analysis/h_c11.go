package analysis

import (
	"fmt"
	"go/token"
	"go/types"

	"golang.org/x/tools/go/packages"
)

// c11Method adds method `name` to T with a value or pointer receiver.
func c11Method(pkg *types.Package, t *types.Named, name string, pointer bool) {
	var recvT types.Type = t
	if pointer {
		recvT = types.NewPointer(t)
	}
	recv := types.NewVar(token.NoPos, pkg, "r", recvT)
	sig := types.NewSignatureType(recv, nil, nil, nil, nil, false)
	t.AddMethod(types.NewFunc(token.NoPos, pkg, name, sig))
}

func c11Interface(pkg *types.Package, methods []string) *types.Interface {
	var fs []*types.Func
	for _, m := range methods {
		sig := types.NewSignatureType(nil, nil, nil, nil, nil, false)
		fs = append(fs, types.NewFunc(token.NoPos, pkg, m, sig))
	}
	itf := types.NewInterfaceType(fs, nil)
	itf.Complete()
	return itf
}

type c11Type struct {
	named  *types.Named
	isItf  bool
	needs  []string        // interface: required methods
	hasVal map[string]bool // concrete type: methods with value receiver
	name   string
}

var c11Methods = []string{"isA", "isB"}

// HC11_fetchPkgUnions: an interface of the package is a union iff some non-interface named type
// of the same package has a (value) method set implementing it; members are exactly those types,
// each once, in name order. go/types' real method-set computation decides Implements.
func HC11_fetchPkgUnions() {
	k := 1 + vfChoice("k", vfParam("C11.types", 3))
	pkg := types.NewPackage("example.com/p", "p")
	tys := make([]*c11Type, k)
	for i := range tys {
		t := &c11Type{name: "T" + vfString(fmt.Sprint("name", i), 1, 1, "alnum"), hasVal: map[string]bool{}}
		for j := 0; j < i; j++ {
			vfAssume(t.name != tys[j].name)
		}
		switch vfChoice(fmt.Sprint("kind", i), 4) {
		case 0: // interface {isA()}
			t.isItf, t.needs = true, []string{"isA"}
			t.named = types.NewNamed(types.NewTypeName(0, pkg, t.name, nil), c11Interface(pkg, t.needs), nil)
		case 1: // interface {isA(); isB()}
			t.isItf, t.needs = true, []string{"isA", "isB"}
			t.named = types.NewNamed(types.NewTypeName(0, pkg, t.name, nil), c11Interface(pkg, t.needs), nil)
		case 2: // empty interface: every type implements it
			t.isItf = true
			t.named = types.NewNamed(types.NewTypeName(0, pkg, t.name, nil), c11Interface(pkg, nil), nil)
		default: // struct (or basic) type with one of a few method configurations
			cfg := vfChoice(fmt.Sprint("methods", i), 6)
			var under types.Type = types.NewStruct(nil, nil)
			if cfg == 5 {
				under = types.Typ[types.Int]
			}
			t.named = types.NewNamed(types.NewTypeName(0, pkg, t.name, nil), under, nil)
			// per method: 0 absent, 1 value receiver, 2 pointer receiver
			conf := [][2]int{{0, 0}, {1, 0}, {2, 0}, {1, 1}, {1, 2}, {1, 1}}[cfg]
			for mi, m := range c11Methods {
				switch conf[mi] {
				case 1:
					c11Method(pkg, t.named, m, false)
					t.hasVal[m] = true
				case 2:
					c11Method(pkg, t.named, m, true) // pointer receiver: not in T's method set
				}
			}
		}
		pkg.Scope().Insert(t.named.Obj())
		tys[i] = t
	}
	// a non-type object in the scope must be ignored
	pkg.Scope().Insert(types.NewVar(0, pkg, "Tvar", types.Typ[types.Int]))
	pa := &packages.Package{PkgPath: "example.com/p", Types: pkg}

	out := fetchPkgUnions(pa)

	for _, u := range tys {
		// reference: members in name order
		var want []*c11Type
		if u.isItf {
			for _, m := range tys {
				if m.isItf {
					continue
				}
				ok := true
				for _, need := range u.needs {
					ok = ok && m.hasVal[need]
				}
				if ok {
					at := len(want)
					for x := range want {
						if m.name < want[x].name {
							at = x
							break
						}
					}
					want = append(want, nil)
					copy(want[at+1:], want[at:])
					want[at] = m
				}
			}
		}
		members, isUnion := out[u.named]
		vfAssert(isUnion == (len(want) > 0), "C11/union-iff-interface-with-an-implementing-non-interface-type")
		if !isUnion {
			continue
		}
		ok := len(members) == len(want)
		if ok {
			for x := range want {
				ok = ok && members[x] == want[x].named
			}
		}
		vfAssert(ok, "C11/members-exactly-the-implementers-each-once-in-name-order")
		vfObserve("members", len(members))
	}
}

// HC11_setImplements: a struct reports exactly the analysed unions that list it, in name order,
// whatever the iteration order of the unions map.
func HC11_setImplements() {
	k := vfChoice("k", vfParam("C11.unions", 3)+1)
	pkg := types.NewPackage("example.com/p", "p")
	self := types.NewNamed(types.NewTypeName(0, pkg, "S", nil), types.NewStruct(nil, nil), nil)
	other := types.NewNamed(types.NewTypeName(0, pkg, "O", nil), types.NewStruct(nil, nil), nil)
	st := &Struct{Name: self}
	unions := unionsMap{}
	accu := map[types.Type]Type{self: st}
	type rec struct {
		name     string
		u        *Union
		lists    bool
		analysed bool
	}
	var recs []*rec
	for i := 0; i < k; i++ {
		r := &rec{name: "U" + vfString(fmt.Sprint("name", i), 1, 1, "alnum")}
		for _, o := range recs {
			vfAssume(r.name != o.name)
		}
		named := types.NewNamed(types.NewTypeName(0, pkg, r.name, nil), c11Interface(pkg, []string{"isA"}), nil)
		r.lists = vfChoice(fmt.Sprint("lists", i), 2) == 1
		r.analysed = vfChoice(fmt.Sprint("analysed", i), 2) == 1
		members := []*types.Named{other}
		if r.lists {
			if vfChoice(fmt.Sprint("first", i), 2) == 1 {
				members = []*types.Named{self, other}
			} else {
				members = []*types.Named{other, self}
			}
		}
		unions[named] = members
		r.u = &Union{name: named}
		if r.analysed {
			accu[named] = r.u
		}
		recs = append(recs, r)
	}

	st.setImplements(unions, accu)

	var want []*rec
	for _, r := range recs {
		if r.lists && r.analysed {
			at := len(want)
			for x := range want {
				if r.name < want[x].name {
					at = x
					break
				}
			}
			want = append(want, nil)
			copy(want[at+1:], want[at:])
			want[at] = r
		}
	}
	ok := len(st.Implements) == len(want)
	if ok {
		for x := range want {
			ok = ok && st.Implements[x] == want[x].u
		}
	}
	for _, u := range st.Implements {
		vfObserve("impl", u.name.Obj().Name())
	}
	for _, w := range want {
		vfObserve("want", w.name)
	}
	vfAssert(ok, "C11/implements-exactly-the-analysed-unions-listing-the-struct-in-name-order")
}
