package main

import (
	"fmt"
	"os"
	"os/exec"
	"path/filepath"
	"sort"
	"strings"
	"time"

	"github.com/benoitkugler/gomacro/analysis"
	"github.com/benoitkugler/gomacro/generator"
	"github.com/benoitkugler/gomacro/generator/dart"
	"github.com/benoitkugler/gomacro/generator/typescript"
	"golang.org/x/tools/go/packages"
)

// Two files of one package, both with a Dart action. Circle is reachable from both; the union it belongs
// to only from the first: the two analyses describe Circle differently, so the Dart text depends on the
// order in which the analyses reach dart.Generate. Kind is an enum used by the second file only.
const c07ShapesSrc = `package p

type Shape interface{ isShape() }

func (Circle) isShape() {}
func (Square) isShape() {}

type Circle struct {
	Radius int
}

type Square struct {
	Side int
}

type Drawing struct {
	Shapes []Shape
}
`

const c07SceneSrc = `package p

type Kind int

const (
	Plain Kind = iota
	Fancy
)

type Scene struct {
	Main Circle
	K    Kind
	Tags map[string]int
}
`

// a third file, of another package of the tree
const c07OtherSrc = `package q

type Point struct {
	X, Y int
}

type Path []Point
`

// HC07_configRun: cmd.Config.run (the config-file mode of the command) writes exactly the files, with
// exactly the text, given by running the actions of the files one after the other in sorted file order
// and handing the Dart analyses to dart.Generate in that order — whatever the iteration order of the
// Config map and of every other map ranged over on the way, and whatever the schedule of the goroutines
// it starts (all interleavings at the synchronisation points). The expected texts are computed by the
// same real functions, called sequentially by the harness.
func HC07_configRun() {
	vfThreads("C07/config-run-has-no-data-race", "C07/config-run-does-not-deadlock")
	nFiles := 2 + vfChoice("files", vfParam("C07.cfgFiles", 2)-1) // 2..3 source files
	base := "/work"
	rels := []string{"p/a_shapes.go", "p/b_scene.go", "q/c_other.go"}[:nFiles]
	srcs := []string{c07ShapesSrc, c07SceneSrc, c07OtherSrc}[:nFiles]
	if !vfEngine() {
		dir, err := os.MkdirTemp("", "vfc07cfg-")
		if err != nil {
			panic(err)
		}
		defer os.RemoveAll(dir)
		base, _ = filepath.EvalSymlinks(dir)
		if wd, err := os.Getwd(); err == nil {
			defer os.Chdir(wd)
		}
		os.Chdir(base)
		os.WriteFile(filepath.Join(base, "go.mod"), []byte("module example.com/m\n\ngo 1.21\n"), 0o644)
		for i, rel := range rels {
			src := srcs[i]
			if i == 0 {
				// (natively the schedule cannot be chosen: the first file is made heavier, so that a
				// goroutine working on it finishes last)
				var sb strings.Builder
				sb.WriteString(src)
				for k := 0; k < vfParam("C07.cfgPad", 400); k++ {
					fmt.Fprintf(&sb, "\ntype Pad%d struct {\n\tId int64\n\tTags []string\n\tCount map[string]int\n}\n", k)
				}
				src = sb.String()
			}
			os.MkdirAll(filepath.Dir(filepath.Join(base, rel)), 0o755)
			os.WriteFile(filepath.Join(base, rel), []byte(src), 0o644)
		}
		// no formatter: PATH holds the go command only
		if goBin, err := exec.LookPath("go"); err == nil {
			bin := filepath.Join(base, ".bin")
			os.MkdirAll(bin, 0o755)
			real, _ := filepath.EvalSymlinks(goBin)
			os.Symlink(real, filepath.Join(bin, "go"))
			old := os.Getenv("PATH")
			defer os.Setenv("PATH", old)
			os.Setenv("PATH", bin)
			if os.Getenv("GOROOT") == "" {
				if out, err := exec.Command(real, "env", "GOROOT").Output(); err == nil {
					os.Setenv("GOROOT", strings.TrimSpace(string(out)))
					defer os.Unsetenv("GOROOT")
				}
			}
		}
	} else {
		var loaded []*packages.Package
		p := vfTypeCheck("example.com/m/p", []string{base + "/" + rels[0], base + "/" + rels[1]}, []string{srcs[0], srcs[1]}, nil)
		loaded = append(loaded, p)
		if nFiles > 2 {
			q := vfTypeCheck("example.com/m/q", []string{base + "/" + rels[2]}, []string{srcs[2]}, []*packages.Package{p})
			loaded = append(loaded, q)
		}
		for _, rel := range rels {
			vfFileExists(base+"/"+rel, true)
		}
		vfLoadResult(loaded, 0)
		for _, tool := range []string{"goimports", "dart", "npx", "pg_format"} {
			vfExecSet(tool, "", false)
		}
	}
	outDir := base + "/out"
	if !vfEngine() {
		os.MkdirAll(outDir+"/dart", 0o755)
	}

	// the configuration: every file has a TypeScript action and a Dart action
	conf := Config{"_dart": Actions{{Mode: dartGen, Output: outDir + "/dart"}}}
	var files []string
	tsOut := map[string]string{}
	for i, rel := range rels {
		f := base + "/" + rel
		files = append(files, f)
		tsOut[f] = fmt.Sprint(outDir, "/types", i, ".ts")
		conf[f] = Actions{{Mode: typescriptTypesGen, Output: tsOut[f]}, {Mode: dartGen, Output: "unused"}}
	}
	sort.Strings(files)

	// expected: the sequential composition, in sorted file order
	vfPermuteMaps(false)
	pkgs, root, err := analysis.LoadSources(files)
	if err != nil {
		panic(err)
	}
	want := map[string]string{}
	var wantNames []string
	var anas []*analysis.Analysis
	for i, f := range files {
		ana := analysis.NewAnalysisFromFile(pkgs[i], f)
		want[tsOut[f]] = generator.WriteDeclarations(typescript.Generate(ana))
		wantNames = append(wantNames, tsOut[f])
		anas = append(anas, ana)
	}
	for _, out := range dart.Generate(root, anas) {
		name := filepath.Join(outDir+"/dart", out.Filename)
		want[name] = generator.WriteDeclarations(out.Content)
		wantNames = append(wantNames, name)
	}

	vfPermuteMaps(true)
	fmts = generator.Formatters{}
	panicked, _, msg := vfCatch(func() { err = conf.run(false, false) })
	vfPermuteMaps(false)
	if !vfEngine() {
		time.Sleep(50 * time.Millisecond)
	}
	vfObserve("outcome", msg)
	vfAssert(!panicked && err == nil, "C07/config-run-succeeds")
	if panicked || err != nil {
		return
	}
	same := true
	sort.Strings(wantNames) // (dart.Generate lists its files in map order)
	for _, name := range wantNames {
		got, ok := vfWritten(name)
		vfObserve("written "+strings.TrimPrefix(name, base), ok)
		same = same && ok && got == want[name]
	}
	vfAssert(same, "C07/config-run-writes-the-text-of-the-sequential-run-in-sorted-file-order")
	// and nothing else
	extra := 0
	if vfEngine() {
		for _, l := range vfExecLog() {
			if name, isWrite := strings.CutPrefix(l, "write|"); isWrite {
				if _, ok := want[name]; !ok {
					extra++
				}
			}
		}
	} else {
		filepath.Walk(outDir, func(path string, info os.FileInfo, err error) error {
			if err == nil && !info.IsDir() {
				if _, ok := want[path]; !ok {
					extra++
				}
			}
			return nil
		})
	}
	vfAssert(extra == 0, "C07/config-run-writes-no-other-file")
}
