package main

import (
	"fmt"
	"os"
	"time"

	"github.com/benoitkugler/gomacro/generator"
)

// HC20_saveOutputs: saveOutputs writes every output file and returns only once every formatter
// request it started has finished: when it returns, each file whose tool is present has been formatted
// exactly once, whatever the schedule of the formatting goroutines (all interleavings at the
// synchronisation points), without data race or deadlock.
func HC20_saveOutputs() {
	vfThreads("C20/no-data-race", "C20/no-deadlock")
	present := vfBool("goimportsPresent")
	vfExecSet("goimports", "", present)
	n := 1 + vfChoice("files", vfParam("C20.files", 2))
	var outs []outputFile
	for i := 0; i < n; i++ {
		file := fmt.Sprint("/tmp/vf_c20_cmd_file", i, ".go")
		vfExecSet("goimports", file, true)
		outs = append(outs, outputFile{format: generator.Go, file: file, content: "package p\n"})
	}
	fmts = generator.Formatters{}
	err := saveOutputs("", "", nil, outs)
	log := vfExecLog() // what has run when saveOutputs returns
	if !vfEngine() {
		// (natively, formatter requests that outlive the call would disturb the next case: let them end)
		time.Sleep(400 * time.Millisecond)
		for _, o := range outs {
			os.Remove(o.file)
		}
	}
	vfAssert(err == nil, "C20/saving-succeeds")
	for _, o := range outs {
		runs := 0
		for _, l := range log {
			if l == "goimports|"+o.file {
				runs++
			}
		}
		want := 0
		if present {
			want = 1
		}
		vfAssert(runs == want, "C20/every-started-formatter-request-has-finished-when-saving-returns")
	}
}
